"""C20 - serialized disciplines, processes and problems behave like the originals.

Lifecycle.tla (two worlds of heap cells, Pickle = Project by value) is model-checked by TLC for every cache
configuration; its invariants are shown non-vacuous by refuting them on projections that share or drop one
attribute; the labelled state graph of the bounded model (prefix . Pickle . suffix) is dumped and replayed as a
transition tour on real gemseo objects built from the constructor catalogue (c20_catalog.py) x cache type x
grammar type, through pickle.dumps/loads, gemseo.utils.pickle.to_pickle/from_pickle and a round trip through
a second interpreter (c20_replay.py, c20_child.py).
"""
from __future__ import annotations

import os
import random
import sys
import time
from collections import Counter

from ..core import Check, Graph, MachineryError, main
from . import c20_catalog as cat
from . import c20_replay as rp

INVS = ["TypeOK", "LastEntryByValue", "SameBehaviour", "SameState", "CountersByValue", "NoSharing", "StaysAttached",
        "OrigOwnsCell1"]
ACTIONS = ("Execute", "Linearize", "SetDefault", "SetSetting", "SetCache", "ClearCache", "Pickle")
METHODS = ("dumps", "file", "spawn")

# configurations of Lifecycle.tla (AllConfigs): name -> FileMode
CONFIGS = {"simple": "shared", "mem": "shared", "hdf-snapshot": "snapshot", "hdf-shared": "shared",
           "jacinrun": "shared", "jacinrun-hdf": "snapshot", "stateful": "shared", "nocache": "shared", "db": "shared"}


def log(msg):
    if os.environ.get("C20_DEBUG"):
        print(msg, file=sys.stderr, flush=True)


def cfg(names, pre, suf, *, shared="{}", dropped="{}", methods=METHODS, props=True, has_default=True,
        last_from_newest=False):
    s = ("CONSTANTS X = {1, 2}\n DV = {0, 1}\n"
         " ConfNames = {" + ", ".join(f'"{n}"' for n in names) + "}\n"
         f" HasDefault = {'TRUE' if has_default else 'FALSE'}\n"
         f" MaxPre = {pre}\n MaxSuf = {suf}\n"
         " Methods = {" + ", ".join(f'"{m}"' for m in methods) + "}\n"
         f" Shared = {shared}\n Dropped = {dropped}\n LastFromNewest = {'TRUE' if last_from_newest else 'FALSE'}\n"
         "SPECIFICATION Spec\nCHECK_DEADLOCK FALSE\n")
    for i in INVS:
        s += f"INVARIANT {i}\n"
    if props:
        s += "PROPERTY NoSharingProp\n"
    return s


class SubGraph:
    """The part of a dumped graph that uses only some actions (a class without a defaulted input never takes
    SetDefault, one without derivatives never takes Linearize): disabling an action removes edges only."""

    def __init__(self, g: Graph, conf, banned=()):
        self.states = g.states
        self.init = [i for i in g.init if g.states[i]["conf"]["name"] == conf]
        edges = [e for e in g.edges if e[2] not in banned and g.states[e[0]]["conf"]["name"] == conf]
        succ = {}
        for s, d, a, args in edges:
            succ.setdefault(s, []).append(d)
        seen, todo = set(self.init), list(self.init)
        while todo:
            for d in succ.get(todo.pop(), ()):
                if d not in seen:
                    seen.add(d)
                    todo.append(d)
        # canonical edge order (TLC's dump order and state ids change from run to run): the tour, and hence
        # the sample of behaviours replayed for a given VERIF_SEED, must not depend on them
        keys = g.__dict__.setdefault("_c20_keys", {})

        def skey(sid):
            if sid not in keys:
                keys[sid] = repr(sorted(g.states[sid].items()))
            return keys[sid]

        self.init = sorted(self.init, key=skey)
        self.edges = sorted((e for e in edges if e[0] in seen), key=lambda e: (skey(e[0]), e[2], repr(e[3])))
        self.out = {}
        for k, (s, d, a, args) in enumerate(self.edges):
            self.out.setdefault(s, []).append(k)

    bfs_tree = Graph.bfs_tree
    path_to = Graph.path_to
    tour = Graph.tour


def has_pickle(g, path):
    return any(g.edges[k][2] == "Pickle" for k in path)


def with_method(g, path, how):
    """The isomorphic path that pickles with another method: Pickle(m) has the same effect for every m, the
    graph holds one Pickle edge per method from the same state; follow the same action labels from there."""
    out = []
    cur = None
    for k in path:
        s, d, a, args = g.edges[k]
        if cur is None and a != "Pickle":
            out.append(k)
            continue
        if a == "Pickle":
            alt = [j for j in g.out.get(s, ()) if g.edges[j][2] == "Pickle" and g.edges[j][3][0] == how]
            if not alt:
                return path
            out.append(alt[0])
            cur = g.edges[alt[0]][1]
            continue
        nxt = [j for j in g.out.get(cur, ()) if g.edges[j][2] == a and g.edges[j][3] == args]
        if not nxt:
            return path
        out.append(nxt[0])
        cur = g.edges[nxt[0]][1]
    return out


def run(ck: Check):
    ck.max_report = 12
    t_start = time.time()

    # ---- 1. the invariants are not vacuous: a projection that shares / drops one attribute is refuted
    refuted = {}
    expect_shared = {"cache": "NoSharing", "ctr": "CountersByValue", "gram": "NoSharing", "data": "NoSharing",
                     "sett": "NoSharing"}
    muts = [(a, m) for a in ("cache", "ctr", "gram", "data", "sett") for m in ("shared", "dropped")]
    if not ck.thorough:
        muts = [("cache", "shared"), ("ctr", "shared"), ("gram", "dropped"), ("ctr", "dropped")]
    for a, mode in muts:
        r = ck.tlc("Lifecycle", cfg(["mem", "hdf-shared"], 2, 1, props=False, methods=("dumps",),
                                     **{mode: '{"%s"}' % a}),
                   workers=1, timeout=600, count=False, coverage=False, expect_ok=False)
        want = expect_shared[a] if mode == "shared" else None
        if not r.violated or (want and r.violated != want):
            raise MachineryError(f"Lifecycle with {mode}={a} should be refuted ({want or 'SameBehaviour/...'}) "
                                 f"but TLC reported {r.violated}")
        refuted[f"{mode}:{a}"] = r.violated
    # ... and a projection that restores "the newest entry" as the last entry of the cache (history needed:
    # execute(x1); execute(x2); linearize(x1); pickle - prefix depth 3)
    r = ck.tlc("Lifecycle", cfg(["mem"], 3, 0, props=False, methods=("dumps",), last_from_newest=True),
               workers=1, timeout=600, count=False, coverage=False, expect_ok=False)
    if r.violated != "LastEntryByValue":
        raise MachineryError(f"Lifecycle with LastFromNewest should violate LastEntryByValue, TLC reported {r.violated}")
    refuted["last-from-newest"] = r.violated
    ck.extra["spec_mutations_refuted"] = refuted
    log(f"non-vacuity {time.time() - t_start:.0f}s")

    # ---- 2. exhaustive model checking + labelled graph, every configuration an initial state
    if ck.thorough:
        groups = [(["simple", "mem"], 2, 2), (["hdf-snapshot", "hdf-shared"], 2, 2),
                  (["jacinrun", "jacinrun-hdf", "nocache", "db"], 2, 2),
                  (["stateful"], 3, 2), (["mem"], 3, 1, "mem-p3"), (["hdf-snapshot"], 3, 0, "hdf-p3")]
    else:
        # mem-p3: prefixes of depth 3 (Pickle is the last step): the shortest history after which the last
        # written entry of a keep-everything cache is not its newest one
        groups = [(["simple", "mem", "hdf-snapshot", "hdf-shared", "jacinrun", "stateful", "nocache", "db"], 2, 1),
                  (["mem"], 3, 0, "mem-p3")]
    graph_of = {}
    ck.extra["graphs"] = []
    for names, p_, s_, *key in groups:
        ck.tlc("Lifecycle", cfg(names, p_, s_), workers=4, timeout=900, dump=True,
               require_actions=ACTIONS if "simple" in names else ACTIONS[:4] + ("Pickle",))
        g = Graph(ck.work / "Lifecycle.dot")
        (ck.work / "Lifecycle.dot").unlink()
        for n in names:
            graph_of[key[0] if key else n] = (g, n)
        ck.extra["graphs"].append({"configs": names, "MaxPre": p_, "MaxSuf": s_, "states": len(g.states), "edges": len(g.edges)})
        log(f"graph {names}: {len(g.states)} states {len(g.edges)} edges {time.time() - t_start:.0f}s")
    if ck.thorough:
        # deeper, without the dump
        ck.extra["deep_runs"] = []
        for group, s_ in ((["simple", "stateful", "nocache"], 3), (["mem"], 3), (["hdf-shared"], 3),
                          (["hdf-snapshot", "jacinrun", "jacinrun-hdf", "db"], 2)):
            try:
                r = ck.tlc("Lifecycle", cfg(group, 3, s_, methods=("dumps",)), workers=4, timeout=420,
                           require_actions=ACTIONS[:4])
            except MachineryError as ex:
                if "timed out" not in str(ex) or s_ == 2:
                    raise
                # a loaded machine: the (3,3) bound does not fit in the time allowed to one TLC run; say so
                # and check the next smaller bound instead
                ck.extra["deep_runs"].append({"configs": group, "MaxPre": 3, "MaxSuf": s_, "result": "timed out"})
                s_ = 2
                r = ck.tlc("Lifecycle", cfg(group, 3, s_, methods=("dumps",)), workers=4, timeout=900,
                           require_actions=ACTIONS[:4])
            ck.extra["deep_runs"].append({"configs": group, "MaxPre": 3, "MaxSuf": s_, "distinct": r.distinct})
            log(f"deep {group} (3,{s_}) {time.time() - t_start:.0f}s")

    # ---- 3. replay on the real objects
    child = rp.Children()
    entries = cat.catalogue()
    tours = {}

    def tour_of(conf, banned):
        key = (conf, tuple(sorted(banned)))
        if key not in tours:
            g = SubGraph(graph_of[conf][0], graph_of[conf][1], banned)
            paths = g.tour()
            tours[key] = (g, paths)
        return tours[key]

    report = {}
    pickles = Counter()
    probes = [0]
    outside = []
    n_paths_total = 0
    exhaustive_done = []

    def older_last(g, path):
        """The behaviour pickles a cache whose last written entry is not its newest one."""
        for k in path:
            if g.edges[k][2] == "Pickle":
                c = g.states[g.edges[k][0]]["cache"][0]
                return c["hasLast"] and c["hasNew"] and tuple(c["last"]) != tuple(c["newest"])
        return False

    def replay(entry, gt, conf, n_max=None, select=None):
        """Replay the whole tour (n_max None) or a seeded sample of its behaviours that reach Pickle
        (among those satisfying `select`, a predicate on the specification's states along the path)."""
        nonlocal n_paths_total
        banned = set()
        if not entry.has_jac:
            banned.add("Linearize")
        ad = rp.ADAPTERS[entry.adapter](entry, gt, ck.work)
        banned.update(ad.banned)
        try:
            ad.fresh()  # binds the abstract inputs to real names / values
        except Exception as ex:  # noqa: BLE001
            report.setdefault(entry.name, {})[f"{gt}/{conf}"] = f"not built: {type(ex).__name__}: {str(ex)[:80]}"
            return
        if entry.pname is None:
            banned.add("SetDefault")
        g, paths = tour_of(conf, banned)
        fm = CONFIGS[graph_of[conf][1]]
        r = rp.Replayer(ck, ad, g, config=conf, file_mode=fm, child=child)
        if n_max is None and select is None:
            chosen = list(range(len(paths)))
        else:
            withp = [i for i, p in enumerate(paths) if has_pickle(g, p) and (select is None or select(g, p))]
            if n_max is None:
                n_max = len(withp)
            random.Random(f"{ck.seed}/{entry.name}/{gt}/{conf}").shuffle(withp)
            chosen = sorted(withp[:n_max])
        done = bad = 0
        for j, i in enumerate(chosen):
            path = with_method(g, paths[i], METHODS[(i + j) % len(METHODS)])
            ok = r.run(path)
            done += 1
            bad += 0 if ok else 1
            if done <= 1 and entry.name in ("Sellar1", "AnalyticDiscipline"):
                ck.sample({"class": entry.name, "grammar": gt, "config": conf,
                           "behaviour": [[g.edges[k][2], list(g.edges[k][3])] for k in path]})
        ck.traces += done
        n_paths_total += done
        pickles.update(r.pickles)
        probes[0] += r.probes
        for rec in r.outside.values():
            outside.append(dict(rec, grammar=gt))
        report.setdefault(entry.name, {})[f"{gt}/{conf}"] = {"behaviours": done, "of_tour": len(paths), "steps": r.steps,
                                                           "stopped_by_violation": bad}
        if n_max is None and select is None:
            exhaustive_done.append(f"{entry.name}/{gt}/{conf}")
        log(f"{entry.name} {gt} {conf}: {done} behaviours, {r.steps} steps, {bad} stopped, {time.time() - t_start:.0f}s")

    T = ck.thorough
    try:
        # 3a. the core class: the whole transition tour where affordable, a large sample elsewhere
        #     (every full cache costs a round trip to the multiprocessing manager: mem / hdf are slow)
        core = next(e for e in entries if e.name == "Sellar1")
        replay(core, cat.JSON, "simple", None)
        replay(core, cat.JSON, "hdf-snapshot", 1500 if T else 150)
        replay(core, cat.JSON, "hdf-shared", 1000 if T else 120)
        replay(core, cat.JSON, "mem", 300 if T else 40)
        # every depth-3 history that leaves the last written entry of the memory cache older than its newest one
        replay(core, cat.JSON, "mem-p3", 400 if T else None, select=older_last)
        if T:
            # the same histories with an HDF5Cache (its restored last entry is reported as an observation)
            replay(core, cat.JSON, "hdf-p3", 60, select=older_last)
        for name in ("MDAGaussSeidel", "AnalyticDiscipline", "MDOChain"):
            replay(next(e for e in entries if e.name == name), cat.JSON, "mem-p3", 24 if T else 8, select=older_last)
        replay(core, cat.SIMPLE, "simple", None if T else 300)
        if T:
            replay(core, cat.SIMPLE, "hdf-snapshot", 600)
        # 3b. every class of the catalogue x cache type x grammar type: a sample of the tour
        rest = [e for e in entries if e is not core]
        slots = []
        for e in rest:
            for gt in e.grammars:
                if e.stateful:
                    confs = ["stateful"]
                elif e.adapter == "problem":
                    confs = ["db"]
                elif e.adapter in ("function", "space") or e.caches == ("none",):
                    confs = ["nocache"]
                elif e.jac_in_run:
                    confs = ["jacinrun"] + (["jacinrun-hdf"] if T else [])
                else:
                    confs = [c for c, kind in (("simple", "simple"), ("mem", "mem"), ("hdf-snapshot", "hdf")) if kind in e.caches]
                for conf in confs:
                    slots.append((e, gt, conf))
        for e, gt, conf in slots:
            n = {"simple": 6, "stateful": 8, "jacinrun": 6, "jacinrun-hdf": 3, "hdf-snapshot": 3, "mem": 1,
                 "nocache": 12, "db": 30}[conf]
            if T:
                n *= 4
            if e.name == "AnalyticDiscipline" or e.name.startswith("Sobieski"):
                n *= 4 if e.name == "AnalyticDiscipline" else 2   # classes with their own exclusion list / __setstate__
            replay(e, gt, conf, max(1, n // e.cost))
        # 3c. shared file on a few other classes (attachment clause / D11)
        for e in [x for x in rest if x.name in ("MDOChain", "MDAGaussSeidel", "AnalyticDiscipline")]:
            replay(e, cat.JSON, "hdf-shared", 40 if T else 4)
    finally:
        child.close()

    ck.exhaustive = False
    ck.extra["exhaustive_tours"] = exhaustive_done
    built = sorted(n for n, r in report.items() if any(isinstance(v, dict) for v in r.values()))
    ck.extra["classes_instantiated"] = built
    skipped = dict(cat.SKIPPED)
    for n, r in report.items():
        for slot, v in r.items():
            if isinstance(v, str):
                skipped[f"{n} [{slot}]"] = v
    try:
        from gemseo.disciplines.factory import DisciplineFactory
        from gemseo.mda.factory import MDAFactory

        fact = set(DisciplineFactory().class_names) | set(MDAFactory().class_names)
        for n in sorted(fact - set(report) - set(skipped)):
            skipped[n] = "no constructor in the catalogue"
        ck.extra["factory_classes"] = {"total": len(fact), "instantiated": len(fact & set(built)),
                                       "skipped": sorted(fact - set(built))}
    except Exception as ex:  # noqa: BLE001
        ck.extra["factory_classes"] = f"factories not available: {ex}"
    ck.extra["classes_skipped"] = skipped
    ck.extra["grammar_type_not_settable"] = sorted(e.name for e in entries if e.adapter == "disc" and len(e.grammars) == 1)
    ck.extra["per_class"] = report
    ck.extra["executions_in_child_process"] = probes[0]
    # deviations from the model that a never-pickled twin shows as well (not C20 matters; see Replayer.twin_agrees)
    ck.extra["not_due_to_serialization"] = outside[:60]
    ck.extra["pickles_by_cache_moment_method"] = {"/".join(k): v for k, v in sorted(pickles.items())}
    ck.assumptions += [
        "HDF5Cache behavioural equivalence is replayed with the copy attached to a byte copy of the file taken at "
        "pickling time (FileMode=snapshot); the shared-file configuration is replayed separately (finding D11)",
        "ClearCache on an HDF5 node that was never written is not taken (HDF5Cache.clear raises KeyError: D13, "
        "outside this property)",
        "values of output/Jacobian labels are those of a never-pickled cache-less instance of the same class",
    ]
    if not pickles and not ck.violations and not ck.known_hits:
        raise MachineryError("no behaviour reached Pickle")
    # ---- specification growth (outside C20 as stated): execution status automaton, observers and
    # execution statistics of monitored processes (ExecStatus*.tla)
    from ..growth import g01_exec_status

    g01_exec_status.run(ck)


if __name__ == "__main__":
    main("C20", run)
