"""C03 - drivers respect the evaluation budget and always return a result.

Driver.tla is the specification of the budget protocol (database entries, evaluation counter, store /
new-iteration listeners, termination causes, result, listener removal, sequential DOE loop, composite
algorithms that swallow a stop) with the optimization algorithm as an unconstrained environment.  TLC
checks it exhaustively on small constants (TypeOK, Budget, BudgetTight, CounterExact, CounterFinal,
AlwaysResult, NoListenerLeak, DoeOrder), with Jacobians stored or not (environment assumption
DriverCompletesPoint, which includes the algorithms that ask a Jacobian before the value at a new point), and
documents the two configurations in which the call budget has no mechanism (Jacobian-only requests that are
not stored; no database).

Binding
  code -> spec (main): every algorithm of OptimizationLibraryFactory and DOELibraryFactory that runs
    offline is executed on its admissible problem classes (unconstrained / inequality / equality / NaN
    region in the objective or in a constraint / raising objective / integer variable; linear problems for
    the linear solvers) x budgets {1,2,3,5,10} x normalisation on/off x one or two consecutive executions
    (counter reset or not, same or fresh library instance) + variants (no database, Jacobians not stored,
    unrounded integers, KKT tolerance, loose x/f tolerances, time limit, finite differences); Jacobians not
    stored x every gradient-based algorithm x problem classes x budgets x normalisation x executions (the
    gradient-first algorithms - NLopt - meet the budget test on the Jacobian side only).  The quick tier runs
    every (algorithm, problem class), every algorithm with each value of the settings that change the
    evaluation path (normalize_design_space, use_database, store_jacobian, round_ints), the gradient-based
    algorithms with Jacobians not stored (budgets 1 and 3) and a seeded sample of the rest.  Every case runs in
    a forked child that is killed after a CPU-time limit.  The recorder (c03_rec.py) logs the
    original calls from inside the wrapped user callables, stores / new iterations from public database
    listeners registered before the driver's own, counter and len(database) snapshots, the stop class, the
    result and the listeners left on the database.  DriverTrace.tla validates every trace: each event must be
    a step of Driver (strict mode) and the clauses are evaluated by TLC in every state; a rejected trace is
    re-run in the lenient mode, where TLC evaluates the clauses on the observed states and names the one that
    broke (otherwise: TraceConformance at the event that is not a step of the specification).
  spec -> code (c03_script.py): behaviours of the exhaustive Driver graph (every kind of transition, completed
    to a final state) are forced on gemseo with a scripted optimization library / CustomDOE, scripted
    outcomes of the user functions, a fake clock; the final abstract state computed by TLC is compared with
    the projection of the real objects.
"""
from __future__ import annotations

import json
import os
import random

from ..core import Check, MachineryError, main
from . import c03_rec as R

INVS = ["TypeOK", "Budget", "BudgetTight", "CounterExact", "CounterFinal", "AlwaysResult", "NoListenerLeak",
        "DoeOrder", "MineClean", "RejectClean"]
ACTIONS = ("Execute", "PreRunDone", "AskOwn", "AskAt", "AskJacFirst", "OrigCall", "Store", "NewIter", "NextSample", "AlgoReturn",
           "BuildResult", "ClearListeners", "PostRun", "SeedEmpty")


def model_cfg(*, points=2, nfuncs=2, maxexec=2, maxn=2, nxs="{2}", usedb="{TRUE}", storejac="{TRUE}",
              nanpt=True, assume="none", composites="{FALSE}", kkts="{TRUE}", obss="{FALSE}", switch=False, invs=INVS, extra=""):
    s = "CONSTANTS\n"
    s += f" Points = {{{', '.join(str(i) for i in range(1, points + 1))}}}\n NFuncs = {nfuncs}\n"
    s += f" MaxExec = {maxexec}\n EnvAssumption = \"{assume}\"\n MaxN = {maxn}\n"
    s += f" NXs = {nxs}\n UseDbs = {usedb}\n StoreJacs = {storejac}\n WithNanPt = {'TRUE' if nanpt else 'FALSE'}\n"
    s += f" Composites = {composites}\n Kkts = {kkts}\n Obss = {obss}\n Switch = {'TRUE' if switch else 'FALSE'}\n"
    s += "SPECIFICATION Spec\nCHECK_DEADLOCK FALSE\n"
    for i in invs:
        s += f"INVARIANT {i}\n"
    return s + extra


def trace_cfg(lenient):
    return ("CONSTANTS\n Points = {1}\n NFuncs = 1\n MaxExec = 99\n EnvAssumption = \"none\"\n MaxN = 1\n"
            " NXs = {2}\n UseDbs = {TRUE}\n StoreJacs = {TRUE}\n WithNanPt = FALSE\n Composites = {FALSE}\n Kkts = {TRUE}\n Obss = {FALSE}\n Switch = TRUE\n"
            f" Lenient = {'TRUE' if lenient else 'FALSE'}\n"
            "INIT TInit\nNEXT Next2\nCONSTRAINT Reach\nPOSTCONDITION Accepted\nCHECK_DEADLOCK FALSE\n")


# ----------------------------------------------------------------------------- admissibility

OPT_EXTRA = {
    "MultiStart": dict(n_start=2, opt_algo_name="SLSQP"),
    "Augmented_Lagrangian_order_0": dict(sub_algorithm_name="NLOPT_COBYLA", sub_algorithm_settings={"max_iter": 6}),
    "Augmented_Lagrangian_order_1": dict(sub_algorithm_name="L-BFGS-B", sub_algorithm_settings={"max_iter": 6}),
}
NO_N_SAMPLES = {
    "OATDOE": lambda: dict(initial_point=[0.5, -0.5]),
    "PYDOE_CCDESIGN": dict,
    "PYDOE_FF2N": dict,
    "PYDOE_PBDESIGN": dict,
}
BUDGETS = (1, 2, 3, 5, 10)
COMPOSITE = ("MultiStart", "Augmented_Lagrangian_order_0", "Augmented_Lagrangian_order_1")
SUBLEVEL_CALLS = ("Augmented_Lagrangian_order_0", "Augmented_Lagrangian_order_1")
NO_OWN_STOP = ("DUAL_ANNEALING", "SHGO", "DIFFERENTIAL_EVOLUTION")
W = int(os.environ.get("C03_TLC_WORKERS", "8"))       # TLC workers of the exhaustive runs (test runs: fewer)
SETTING_VARIANTS = ("nodb", "nojac", "noround")     # use_database / store_jacobian / round_ints = False
MIN_BUDGET = {"MultiStart": 3}   # documented: max_iter must exceed n_start (2 here)


def opt_cases(ck: Check, fo):
    """(algo, problem kind, linear) admissible by the algorithm descriptions; skipped ones with the reason."""
    cases, skipped = [], {}
    for algo in fo.algorithms:
        lib = fo.create(algo)
        d = lib.ALGORITHM_INFOS[algo]
        if getattr(d, "handle_multiobjective", False) and algo == "MNBI":
            skipped[algo] = "needs a multi-objective problem and per-sub-optimization budgets: outside the mono-objective problem classes"
            continue
        kinds = ["unc", "nan"]
        if d.handle_inequality_constraints:
            kinds += ["ineq", "nanc"]
        if d.handle_equality_constraints:
            kinds.append("eq")
        if d.handle_integer_variables:
            kinds.append("int")
        if algo not in SUBLEVEL_CALLS:
            kinds.append("raise")
        else:
            skipped[algo + "/call-clause"] = (
                "the sub-problems call the original functions through their own databases: only the entries, the "
                "counter, the listeners and the result of the main level are validated (no orig events)")
        if algo == "MultiStart":
            kinds = [k for k in kinds if k != "int"]      # its sub-algorithm (SLSQP) does not take integers
        linear = bool(d.for_linear_problems) or algo == "Scipy_MILP"
        if linear:
            # (integer variables for the MILP solver: rounded or not, round_ints)
            kinds = [k for k in kinds if k in ("unc", "ineq", "eq") or (k == "int" and d.handle_integer_variables)]
        for k in kinds:
            cases.append((algo, k, linear, bool(d.require_gradient)))
    return cases, skipped


def doe_settings(algo, fd, n, rng):
    import numpy as np

    if algo == "CustomDOE":
        pool = [[0.0, 0.0], [1.0, 1.0], [2.0, -1.0], [-1.5, 0.5], [1.75, 0.25], [0.5, -0.25]]
        smp = [pool[rng.randrange(len(pool))] for _ in range(n)]  # duplicates on purpose
        return dict(samples=np.array(smp))
    if algo in NO_N_SAMPLES:
        return NO_N_SAMPLES[algo]()
    fields = fd.create(algo).ALGORITHM_INFOS[algo].Settings.model_fields
    if "n_samples" in fields:
        s = dict(n_samples=n)
        if "seed" in fields:
            s["seed"] = 1 + rng.randrange(5)
        return s
    return None


# ----------------------------------------------------------------------------- recording

def record_opt(fo, tid, algo, kind, linear, grad, n, norm, second, variant, rng):
    """One trace: one or two consecutive executions of an optimizer on the same problem."""
    rec = R.Rec()
    R.build_problem(kind, rec, linear=linear)
    rec.noorig = linear
    extra = dict(OPT_EXTRA.get(algo, {}))
    st = dict(max_iter=n, normalize_design_space=norm, **extra)
    if variant == "nodb":
        st["use_database"] = False
    if variant == "nojac":
        st["store_jacobian"] = False
    if variant == "noround":
        st["round_ints"] = False
    if variant == "kkt" and grad:
        st["kkt_tol_abs"] = 1e-3
    if variant == "tol":
        st.update(xtol_abs=0.5, ftol_abs=0.5, stop_crit_n_x=2)
    if variant == "time":
        st["max_time"] = 1e-9
    if variant == "fd":
        rec.problem.differentiation_method = "finite_differences"
        rec.fd = True
    nx = st.get("stop_crit_n_x", 3)
    lib = fo.create(algo)
    meta = dict(kind="opt", algo=algo, problem=kind + ("-lin" if linear else ""), N=n, normalize=norm, second=second,
                variant=variant)
    comp = algo in COMPOSITE
    _, exc = R.execute(rec, lib, "opt", st, grad=grad, nx=nx, kkt=variant == "kkt" and grad, composite=comp)
    if second and exc is None:
        st2 = dict(st)
        if second == "noreset":
            st2["reset_iteration_counters"] = False
            st2["max_iter"] = n + (2 if tid % 2 else 0)
        lib2 = lib if tid % 3 == 0 else fo.create(algo)
        R.execute(rec, lib2, "opt", st2, grad=grad, nx=nx, kkt=variant == "kkt" and grad, composite=comp)
    t = R.trace_of(rec, tid, meta)
    t["noorig"] = bool(linear) or algo in SUBLEVEL_CALLS
    if algo in SUBLEVEL_CALLS:
        # the sub-problems call the original functions through their own databases: at the main level
        # only the entries, the counter, the listeners and the result are held to the specification
        t["events"] = [e for e in t["events"] if e["ev"] != "orig"]
    return t


def record_doe(fd, tid, algo, kind, n, norm, second, variant, rng):
    rec = R.Rec()
    R.build_problem(kind, rec)
    st = doe_settings(algo, fd, n, rng)
    if st is None:
        return None
    st["normalize_design_space"] = norm
    grad = variant in ("jac", "nojac")
    more = {}
    if grad:
        more["eval_jac"] = True
    if variant == "nodb":
        more["use_database"] = False
    if variant == "nojac":
        more["store_jacobian"] = False
    if variant == "noround":
        more["round_ints"] = False
    st.update(more)
    lib = fd.create(algo)
    meta = dict(kind="doe", algo=algo, problem=kind, N=n, normalize=norm, second=second, variant=variant)
    _, exc = R.execute(rec, lib, "doe", st, grad=grad)
    if second and exc is None:
        st2 = doe_settings(algo, fd, n, rng)
        st2["normalize_design_space"] = norm
        st2.update(more)
        if second == "noreset":
            st2["reset_iteration_counters"] = False
        R.execute(rec, lib if tid % 3 == 0 else fd.create(algo), "doe", st2, grad=grad)
    t = R.trace_of(rec, tid, meta)
    t["noorig"] = False
    return t


def record_reuse(fo, fd, tid, fam, algo, kind, linear, grad, n, norm, rng):
    """One driver INSTANCE used on a problem with a new-iteration observable, then on another problem."""
    rec = R.Rec()
    lib = (fo if fam == "opt" else fd).create(algo)
    meta = dict(kind=fam, algo=algo, problem=kind + ("-lin" if linear else ""), N=n, normalize=norm, second="other",
                variant="reuse")
    comp = algo in COMPOSITE
    for observable in (True, False):
        R.build_problem(kind, rec, linear=linear, observable=observable)   # the second call switches the problem
        if fam == "opt":
            st = dict(max_iter=n, normalize_design_space=norm, **OPT_EXTRA.get(algo, {}))
        else:
            st = doe_settings(algo, fd, n, rng)
            st["normalize_design_space"] = norm
        _, exc = R.execute(rec, lib, fam, st, grad=grad, composite=comp)
        if exc is not None:
            break
    t = R.trace_of(rec, tid, meta)
    t["noorig"] = bool(linear) or algo in SUBLEVEL_CALLS
    if algo in SUBLEVEL_CALLS:
        t["events"] = [e for e in t["events"] if e["ev"] != "orig"]
    return t


def record_multistart_levels(fo, tid, n, n_start, per_level, n_processes):
    """MultiStart with explicit per-level budgets, sequential or with sub-optimizations in other processes
    (their original calls are not observable from here: inferred from the stores, as for linear problems)."""
    rec = R.Rec()
    R.build_problem("plain", rec)
    st = dict(max_iter=n, n_start=n_start, opt_algo_max_iter=per_level, n_processes=n_processes,
              opt_algo_name="SLSQP", normalize_design_space=False)
    meta = dict(kind="opt", algo="MultiStart", problem="plain", N=n, normalize=False, second="",
                variant=f"levels-{n_start}x{per_level}-p{n_processes}")
    R.execute(rec, fo.create("MultiStart"), "opt", st, grad=False, composite=True, sub=n_start * per_level)
    t = R.trace_of(rec, tid, meta)
    t["noorig"] = True
    return t


def setting_error(t):
    """An execution refused by the algorithm's own validation of its settings (documented ValueError
    before anything was evaluated): not a run of the driver."""
    ends = [e for e in t["events"] if e["ev"] == "end"]
    return bool(ends) and ends[0]["crashed"] and not ends[0]["userRaise"] and not ends[0].get("refused") and \
        not any(e["ev"] in ("orig", "store") for e in t["events"])


# ----------------------------------------------------------------------------- validation by TLC

def validate(ck: Check, traces, tag):
    """Strict pass on all traces, lenient diagnosis of the rejected ones."""
    if not traces:
        return
    verdict = run_batch(ck, traces, False, tag)
    bad = [t for t in traces if verdict[t["id"]][0] != verdict[t["id"]][1] or verdict[t["id"]][2] != "ok"]
    diag = run_batch(ck, bad, True, tag + "-diag") if bad else {}
    for t in traces:
        reached, total, clause, at = verdict[t["id"]]
        if reached == total and clause == "ok":
            ck.traces += 1
            continue
        m = t["meta"]
        ev = t["events"]
        nxt = ev[reached] if reached < len(ev) else None
        if clause == "ok":
            d = diag.get(t["id"])
            clause = d[2] if d and d[2] != "ok" else "TraceConformance"
            at = d[3] if d and d[2] != "ok" else reached
        sig = {"kind": m["kind"], "algo": m["algo"], "problem": m["problem"], "normalize": m["normalize"],
               "second": m["second"] or "", "variant": m["variant"], "event": nxt["ev"] if nxt else "",
               "exception": next((e["exc"] for e in ev if e["ev"] == "end" and e["crashed"]), ""),
               "detail": next((e["excmsg"] for e in ev if e["ev"] == "end" and e["crashed"]), "")}
        lo = max(0, min(reached, at) - 6)
        ck.violation(clause, sig, {"meta": m, "matched_events": reached, "total_events": total, "clause_at": at,
                                   "next_event": nxt, "events_around": ev[lo:reached + 3], "first_exec": ev[0]})


def run_batch(ck: Check, traces, lenient, tag):
    out = {}
    size = 400
    for k in range(0, len(traces), size):
        chunk = traces[k:k + size]
        f = ck.work / f"c03-{tag}-{k}.json"
        f.write_text(json.dumps([{kk: v for kk, v in t.items() if kk != "meta"} for t in chunk]))
        r = ck.tlc("DriverTrace", trace_cfg(lenient), workers=1, timeout=1500, count=False, coverage=False,
                   env={"TRACE_FILE": str(f)}, depth_first=True)
        for v in r.printed():
            if isinstance(v, tuple) and v and v[0] == "TRACE":
                out[v[1]] = (v[2], v[3], v[4], v[5])
        ck.states += r.distinct
        ck.transitions += r.generated
        for t in chunk:
            if t["id"] not in out:
                raise MachineryError(f"no verdict for trace {t['id']} ({tag})")
    return out


def warm_up(fo, fd):
    """Lazy imports of the libraries are paid once, here, and not by every forked child of the recording."""
    rng = random.Random(0)
    for a in fd.algorithms:
        fd.create(a)
    record_opt(fo, 0, "SLSQP", "ineq", False, True, 2, True, "reset", "std", rng)
    record_opt(fo, 0, "NLOPT_SLSQP", "ineq", False, True, 2, False, None, "nojac", rng)
    record_multistart_levels(fo, 0, 9, 3, 2, 1)
    for a in ("CustomDOE", "OT_LHS", "PYDOE_LHS", "LHS"):
        record_doe(fd, 0, a, "ineq", 3, False, None, "jac", rng)


def make_plan(ck: Check, cases, fd, rng, skipped):
    """The recorded runs of the tier: (family, algorithm, problem class, linear, gradient-based, budget,
    normalisation, second execution, variant) tuples; the size of the full plan."""
    plan = []
    for (algo, kind, linear, grad) in cases:
        for n in BUDGETS:
            if n < MIN_BUDGET.get(algo, 1):
                continue
            for norm in (True, False):
                for second in (None, "reset", "noreset"):
                    plan.append(("opt", algo, kind, linear, grad, n, norm, second, "std"))
        if kind in ("unc", "ineq"):
            for variant in ("nodb", "nojac", "kkt", "tol", "time", "fd"):
                if variant == "fd" and not grad:
                    continue
                if variant == "nodb" and algo in NO_OWN_STOP:
                    skipped[algo + "/use_database=False"] = (
                        "the wrapper disables the library's own stopping criteria and gemseo has none without "
                        "a database: the run would not stop")
                    continue
                for n in (3, 5):
                    plan.append(("opt", algo, kind, linear, grad, n, True, "reset", variant))
    # Jacobians not stored x every gradient-based algorithm (the algorithms that ask a Jacobian at a new iterate
    # before the value - NLopt - meet the budget test on the Jacobian side only): problem classes x budgets x
    # normalisation x executions; quick tier: budgets {1, 3}, two executions with counter reset, all of them run
    always = set()
    for (algo, kind, linear, grad) in cases:
        if grad and kind in ("unc", "ineq", "eq"):
            for n in BUDGETS:
                for norm in (True, False):
                    for second in (None, "reset", "noreset"):
                        c = ("opt", algo, kind, linear, grad, n, norm, second, "nojac")
                        if c not in plan:
                            plan.append(c)
                        if n in (1, 3) and second == "reset" and kind != "eq":
                            always.add(c)
    # integer variables that are not rounded (round_ints=False)
    for (algo, kind, linear, grad) in cases:
        if kind == "int":
            for n in (3, 5):
                for norm in (True, False):
                    plan.append(("opt", algo, kind, linear, grad, n, norm, "reset", "noround"))
    for algo in fd.algorithms:
        for norm in (False, True):
            plan.append(("doe", algo, "int", False, False, 3, norm, "reset", "noround"))
            plan.append(("doe", algo, "ineq", False, False, 3, norm, "reset", "nojac"))
        for kind in ("ineq", "raise", "nan", "int"):
            for n in BUDGETS:
                for norm in (False, True):
                    if norm and (n != 3 or kind != "ineq"):
                        continue          # normalize_design_space=True: one budget and problem class per DOE (D0301)
                    for second in (None, "reset", "noreset"):
                        plan.append(("doe", algo, kind, False, False, n, norm, second, "std"))
            for variant in ("jac", "nodb"):
                plan.append(("doe", algo, kind, False, False, 3, False, "reset", variant))
    # a driver instance reused on another problem after a problem with new-iteration observables
    for (algo, kind, linear, grad) in cases:
        if kind == ("ineq" if any(c[0] == algo and c[1] == "ineq" for c in cases) else "unc"):
            n = max(3, MIN_BUDGET.get(algo, 1))
            for norm in ((True, False) if algo != "MultiStart" else (False,)):
                plan.append(("opt", algo, kind, linear, grad, n, norm, "other", "reuse"))
    for algo in ("CustomDOE", "LHS", "PYDOE_LHS", "OT_LHS", "OT_FULLFACT", "DiagonalDOE"):
        plan.append(("doe", algo, "ineq", False, False, 3, False, "other", "reuse"))
    # MultiStart at the boundary of its documented per-level budgets: 1 + n_start * per_level <= max_iter
    for n_processes in (1, 2):
        for per_level in (3, 2):
            plan.append(("opt", "MultiStart", "plain", False, False, 9, False, "", ("levels", 3, per_level, n_processes)))
    total_plan = len(plan)
    if not ck.thorough:
        # every (algorithm, problem class) at least once; every algorithm with and without normalisation,
        # without database, with Jacobians not stored, with unrounded integers (the driver settings that change
        # the evaluation path) at least once; the Jacobians-not-stored cases of the gradient-based algorithms;
        # then a seeded sample of the rest
        rng.shuffle(plan)
        seen, first, rest = set(), [], []
        for c in plan:
            if c[8] == "reuse" or isinstance(c[8], tuple) or c in always:
                keys = {c}
            else:
                keys = {(c[0], c[1], c[2]), (c[0], c[1], "normalize", c[6])}
                if c[8] in SETTING_VARIANTS:
                    keys = {(c[0], c[1], c[8])}
            (first if keys - seen else rest).append(c)
            seen |= keys
        plan = first + rest[:max(0, 560 - len(first))]
    return plan, total_plan


# ----------------------------------------------------------------------------- main

def run(ck: Check):
    import time as _time

    rng = random.Random(ck.seed)
    walls, t0 = {}, _time.time()
    # ---- 1. the specification satisfies the property (exhaustive, small constants)
    if ck.thorough:
        ck.tlc("Driver", model_cfg(points=2, nfuncs=2, maxexec=2, maxn=2), workers=W, timeout=1500,
               require_actions=ACTIONS + ("KktPass", "KktStop"))
        # a driver instance reused on another problem, with / without new-iteration observables
        ck.tlc("Driver", model_cfg(points=2, nfuncs=1, maxexec=2, maxn=2, obss="{FALSE, TRUE}", switch=True),
               workers=W, timeout=1500, require_actions=ACTIONS + ("SwitchProblem",))
        ck.tlc("Driver", model_cfg(points=2, nfuncs=1, maxexec=1, maxn=2, composites="{TRUE}"), workers=W,
               timeout=1500, require_actions=ACTIONS + ("Resume",))
        ck.tlc("Driver", model_cfg(points=3, nfuncs=1, maxexec=1, maxn=2, nxs="{2, 3}"), workers=W, timeout=1500,
               require_actions=ACTIONS)
        # (3 points, 2 functions, budgets 1..3, one execution: 19 594 504 distinct states, all clauses hold;
        #  32 min on this machine, run by hand once - too long for the tier)
    else:
        # two executions, on the same problem or (SwitchProblem) the driver instance reused on another
        # problem, with / without new-iteration observables
        ck.tlc("Driver", model_cfg(points=2, nfuncs=1, maxexec=2, maxn=2, obss="{FALSE, TRUE}", switch=True,
                                   nanpt=False),
               workers=W, timeout=600, require_actions=ACTIONS + ("KktPass", "KktStop", "SwitchProblem"))
        # composite algorithms: swallowed stops (Resume), refused per-level budgets (phase "rejected")
        ck.tlc("Driver", model_cfg(points=2, nfuncs=1, maxexec=1, maxn=2, composites="{TRUE}", nanpt=False),
               workers=W, timeout=600, require_actions=ACTIONS + ("Resume",))
        ck.tlc("Driver", model_cfg(points=2, nfuncs=2, maxexec=1, maxn=2), workers=W, timeout=600,
               require_actions=ACTIONS)
    # Jacobians not stored: the budget (entries AND distinct points of original calls) holds under the
    # environment assumption DriverCompletesPoint, which includes the gradient-first algorithms (a Jacobian
    # asked at an unseen point, then the value there): once the budget is spent such a request is answered by
    # MaxIter, never by an original call ...
    ck.tlc("Driver", model_cfg(points=2, nfuncs=2, maxexec=1, maxn=2, storejac="{FALSE}", assume="completesPoint"),
           workers=W, timeout=600, require_actions=ACTIONS)
    if ck.thorough:
        ck.tlc("Driver", model_cfg(points=3, nfuncs=1, maxexec=1, maxn=2, storejac="{FALSE}", assume="completesPoint",
                                   nanpt=False), workers=W, timeout=900, require_actions=ACTIONS)
        ck.tlc("Driver", model_cfg(points=2, nfuncs=1, maxexec=2, maxn=2, storejac="{TRUE, FALSE}",
                                   assume="completesPoint", nanpt=False), workers=W, timeout=900,
               require_actions=ACTIONS)
    # ... and TLC documents that without it (Jacobian-only requests, nothing stored) the call budget has no
    # mechanism; likewise without a database (design observations, not findings)
    r = ck.tlc("Driver", model_cfg(points=3, nfuncs=1, maxexec=1, maxn=2, storejac="{FALSE}", invs=["Budget"]),
               workers=1, timeout=600, expect_ok=False, count=False, coverage=False)
    ck.extra["jac_only_requests_unstored_exceed_call_budget"] = r.violated == "Budget"
    if r.violated != "Budget":
        raise MachineryError("expected the documented Budget counterexample with store_jacobian = False")
    ck.assumptions.append("store_jacobian=False: the call budget relies on the algorithm asking the value at every point "
                          "where it asks a Jacobian, before or after (DriverCompletesPoint, model checking only: recorded "
                          "runs are validated without any assumption); TLC exhibits the counterexample without it")
    ck.assumptions.append("use_database=False: gemseo has no budget mechanism (no entries, counter never incremented); "
                          "such runs are validated for AlwaysResult and the protocol only")

    walls["1_model_checking"] = round(_time.time() - t0, 1)
    # ---- 2. code -> spec: every algorithm of the two factories
    import logging
    import warnings

    logging.disable(logging.CRITICAL)
    warnings.filterwarnings("ignore")
    from gemseo.algos.doe.factory import DOELibraryFactory
    from gemseo.algos.opt.factory import OptimizationLibraryFactory

    fo, fd = OptimizationLibraryFactory(), DOELibraryFactory()
    cases, skipped = opt_cases(ck, fo)
    plan, total_plan = make_plan(ck, cases, fd, rng, skipped)
    traces, refused, runaway, killed = [], {}, {}, {}
    warm_up(fo, fd)
    for tid, c in enumerate(plan, 1):
        fam, algo, kind, linear, grad, n, norm, second, variant = c
        if os.environ.get("C03_DEBUG"):
            print("case", tid, c, flush=True)
        if algo in runaway:
            runaway[algo] += 1
            continue
        def one(tid=tid, c=c):
            fam, algo, kind, linear, grad, n, norm, second, variant = c
            crng = random.Random(f"{ck.seed}/{tid}")
            if isinstance(variant, tuple):
                return record_multistart_levels(fo, tid, n, *variant[1:])
            if variant == "reuse":
                return record_reuse(fo, fd, tid, fam, algo, kind, linear, grad, n, norm, crng)
            if fam == "opt":
                return record_opt(fo, tid, algo, kind, linear, grad, n, norm, second, variant, crng)
            return record_doe(fd, tid, algo, kind, n, norm, second, variant, crng)

        # each case in a child process: a run that does not come back from a compiled library is killed
        status, t = R.isolated(one)
        if status == "error":             # harness-side failure to set the case up
            refused[f"{algo}/{kind}"] = f"set-up: {t}"
            continue
        if status in ("killed", "died"):
            meta = dict(kind=fam, algo=algo, problem=kind + ("-lin" if linear else ""), N=n, normalize=norm,
                        second=second or "", variant=variant if isinstance(variant, str) else "levels")
            t = R.unreturned_trace(tid, meta, fam, "Runaway" if status == "killed" else "ProcessDied",
                                   f"no return after {t} s of CPU time" if status == "killed" else f"wait status {t}")
            killed[algo] = killed.get(algo, 0) + 1
            runaway[algo] = 0        # reported once; its other cases are not run
            traces.append(t)
            continue
        if t is None:
            refused[f"{algo}"] = "no settings known for this algorithm on a 2-variable space"
            continue
        if any(e["ev"] == "end" and e["exc"] == "Runaway" for e in t["events"]):
            runaway[algo] = 0        # reported once (below); its other cases are not run
        if setting_error(t):
            e = next(e for e in t["events"] if e["ev"] == "end")
            refused[f"{algo}/{kind}/N={n}"] = f"settings refused before any evaluation: {e['exc']}"
            continue
        traces.append(t)
    for t in traces[:3]:
        ck.sample({"meta": t["meta"], "events": t["events"][:12]})
    walls["2a_recording"] = round(_time.time() - t0 - sum(walls.values()), 1)
    validate(ck, traces, "rec")
    walls["2b_trace_validation"] = round(_time.time() - t0 - sum(walls.values()), 1)
    ck.extra["planned_runs"] = total_plan
    ck.extra["recorded_traces"] = len(traces)
    ck.extra["executions_recorded"] = sum(1 for t in traces for e in t["events"] if e["ev"] == "exec")
    ck.extra["algorithms_run"] = sorted({t["meta"]["algo"] for t in traces})
    ck.extra["algorithms_skipped"] = skipped
    ck.extra["cases_dropped_after_a_run_that_did_not_stop"] = runaway
    ck.extra["runs_killed_after_the_cpu_limit"] = killed
    ck.extra["combinations_refused"] = dict(sorted(refused.items())[:60])
    ck.extra["stop_classes_seen"] = sorted({e["cause"] for t in traces for e in t["events"] if e["ev"] == "end"})
    # what ran of the driver settings that change the evaluation path, per family (library class) of algorithms
    family = {a: type(f.create(a)).__name__ for f in (fo, fd) for a in f.algorithms}
    settings_seen = {}
    for t in traces:
        m = t["meta"]
        fam = settings_seen.setdefault(family.get(m["algo"], m["algo"]), {})
        for name in ("normalize_design_space=" + str(bool(m["normalize"])),
                     {"nodb": "use_database=False", "nojac": "store_jacobian=False",
                      "noround": "round_ints=False"}.get(m["variant"], "")):
            if name:
                fam[name] = fam.get(name, 0) + 1
    ck.extra["driver_settings_recorded_by_family"] = {k: dict(sorted(v.items())) for k, v in sorted(settings_seen.items())}
    # Jacobians not stored x gradient-based algorithms: runs, runs stopped by the budget, and requests of a
    # Jacobian at a point without entry (gradient-first algorithms) that the traces contain
    nojac = {}
    for t in traces:
        m = t["meta"]
        if m["variant"] != "nojac" or m["kind"] != "opt" or not any(e["ev"] == "exec" and e["grad"] for e in t["events"]):
            continue
        d = nojac.setdefault(m["algo"], {"runs": 0, "executions_ended_with_the_budget_spent": 0,
                                         "jacobian_first_requests": 0})
        d["runs"] += 1
        stored, budget = set(), 0
        for e in t["events"]:
            if e["ev"] == "exec":
                budget = e["N"]
            elif e["ev"] == "end":
                d["executions_ended_with_the_budget_spent"] += int(e["cur"] >= budget)    # counter at its maximum
            elif e["ev"] in ("switch",):
                stored = set()
            elif e["ev"] == "store":
                stored.add(e["p"])
            elif e["ev"] == "orig" and e["kind"] == "jac" and e["p"] not in stored:
                d["jacobian_first_requests"] += 1
    ck.extra["jacobians_not_stored_gradient_based"] = dict(sorted(nojac.items()))
    grad_algos = sorted({c[0] for c in cases if c[3]})
    missing = [a for a in grad_algos if a not in nojac]
    if missing:
        raise MachineryError(f"gradient-based algorithms without a recorded run with store_jacobian=False: {missing}")
    if not sum(d["jacobian_first_requests"] for d in nojac.values() if d["executions_ended_with_the_budget_spent"]):
        raise MachineryError("no recorded run with store_jacobian=False asks a Jacobian first and spends its budget")
    if len(ck.extra["algorithms_run"]) < 40:
        raise MachineryError(f"only {len(ck.extra['algorithms_run'])} algorithms produced a trace")
    # ---- 3. spec -> code: scripted environment
    from . import c03_script

    c03_script.run(ck, rng, validate)
    walls["3_scripted_replay"] = round(_time.time() - t0 - sum(walls.values()), 1)
    # ---- 4. failure isolation of the DOE loop over DISCIPLINES (Retry.tla): a sample whose evaluation
    # raises ValueError below the top-level discipline must cost that sample only ("a DOE evaluates each
    # distinct generated sample once and records them"); the other clauses of that module are growth.
    from ..core import Promote
    from ..growth import g04_retry

    g04_retry.run(Promote(ck, {"G04.doe.failure-isolation": ("DoeFailureIsolation", {"what": "doe_inner_discipline_failure"})}))
    walls["4_retry_growth"] = round(_time.time() - t0 - sum(walls.values()), 1)
    ck.extra["wall_by_section_s"] = walls
    ck.exhaustive = False


if __name__ == "__main__":
    main("C03", run)
