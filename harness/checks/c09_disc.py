"""Harness disciplines for C09: leaves with *given* integer partial Jacobians.

Nothing here knows what a composite process should return: the classes only turn the instance chosen
by the specification (names, sizes, integer blocks) into real gemseo disciplines, and build the real
composite (MDOChain / MDOParallelChain / MDOAdditiveChain / MDAChain, nested) from the structure the
specification describes.
"""
from __future__ import annotations

import numpy as np
from scipy.sparse import csr_array


def _classes():
    from gemseo.core.derivatives.jacobian_operator import JacobianOperator
    from gemseo.core.discipline import Discipline

    class Leaf(Discipline):
        """out_o = sum_i P[o][i] @ phi(in_i); phi = identity (linear) or the elementwise square (poly)."""

        def __init__(self, name, ins, outs, mats, sizes, jac_kind="dense", poly=False, full_jac=True):
            super().__init__(name)
            self.ins, self.outs, self.mats, self.sizes = list(ins), list(outs), mats, sizes
            self.jac_kind, self.poly, self.full_jac = jac_kind, poly, full_jac
            self.io.input_grammar.update_from_names(self.ins)
            self.io.output_grammar.update_from_names(self.outs)
            self.io.input_grammar.defaults.update({n: np.zeros(sizes[n]) for n in self.ins})
            self.n_jac_calls = 0

        def _run(self, input_data):
            out = {}
            for o in self.outs:
                acc = np.zeros(self.sizes[o])
                for i in self.ins:
                    x = np.asarray(input_data[i], dtype=float)
                    acc = acc + self.mats[o][i] @ (x * x if self.poly else x)
                out[o] = acc
            return out

        def _wrap(self, m):
            # "<kind>_i": the same matrix with an integer data type (the partials are integers; not for the
            # polynomial leaves whose Jacobian is 2 x diag); the specification's value does not depend on it
            if self.jac_kind.endswith("_i") and not self.poly:
                m = np.array(np.rint(m), dtype=np.int64)
            if self.jac_kind.startswith("sparse"):
                return csr_array(m)
            if self.jac_kind == "operator":
                op = JacobianOperator(dtype=m.dtype, shape=m.shape)
                op._matvec = lambda x, a=m: a @ x
                op._rmatvec = lambda x, a=m: a.T @ x
                return op
            return m.copy()

        def _compute_jacobian(self, input_names=(), output_names=()):
            self.n_jac_calls += 1
            outs = self.outs if (self.full_jac or not output_names) else [o for o in self.outs if o in output_names]
            ins = self.ins if (self.full_jac or not input_names) else [i for i in self.ins if i in input_names]
            jac = {}
            for o in outs:
                jac[o] = {}
                for i in ins:
                    m = self.mats[o][i]
                    if self.poly:
                        m = m * (2.0 * np.asarray(self.io.data[i], dtype=float))[None, :]
                    jac[o][i] = self._wrap(np.array(m, dtype=float))
            self.jac = jac

    return Leaf


_LEAF = None


def leaf_class():
    global _LEAF
    if _LEAF is None:
        _LEAF = _classes()
    return _LEAF


def to_dense(m):
    """Project a returned Jacobian block (ndarray, scipy sparse, JacobianOperator) onto a 2-D ndarray."""
    if hasattr(m, "get_matrix_representation"):
        return np.asarray(m.get_matrix_representation(), dtype=float)
    if hasattr(m, "toarray"):
        return np.asarray(m.toarray(), dtype=float)
    return np.asarray(m, dtype=float)


def build(struct, leaves):
    """struct: ("leaf", k) | (kind, [children]) | ("additive", [children], to_sum) -> real discipline."""
    from gemseo.core.chains.additive_chain import MDOAdditiveChain
    from gemseo.core.chains.chain import MDOChain
    from gemseo.core.chains.parallel_chain import MDOParallelChain
    from gemseo.mda.mda_chain import MDAChain

    kind = struct[0]
    if kind == "leaf":
        return leaves[struct[1]]
    subs = [build(s, leaves) for s in struct[1]]
    if kind == "chain":
        return MDOChain(subs)
    if kind == "parallel":
        return MDOParallelChain(subs, use_threading=True, n_processes=1)
    if kind == "additive":
        return MDOAdditiveChain(subs, sorted(struct[2]), use_threading=True, n_processes=1)
    if kind == "mdachain":
        return MDAChain(subs, chain_linearize=True)
    if kind == "mdachain_parallel":
        return MDAChain(subs, chain_linearize=True, mdachain_parallelize_tasks=True,
                        mdachain_parallel_settings={"use_threading": True, "n_processes": 1})
    raise ValueError(kind)
