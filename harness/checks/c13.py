"""C13 - parallel execution: ParallelExec.tla (PlusCal) checked by TLC, bound to the real executor by
(1) spec->code: every completion order TLC finds is forced on the real thread back-end (gated workers),
(2) code->spec: free-running thread executions recorded at the queues' linearization points and
    validated by ParallelExecTrace.tla, (3) process back-end outcomes checked against the spec's
    terminal states, (4) client equivalences (parallel DOE / chain / linearization / FD vs sequential).
"""
from __future__ import annotations

import itertools
import json
import queue as _queue
import random
import threading
import time
import types

from ..core import Check, MachineryError, main

INVS = ["Positional", "SlotIsolation", "CallbackMatches", "CallbackOnce", "CallbackAll", "RunOnce",
        "RaiseIff", "ReturnXorRaise", "NoLostResult"]


def cfg(nt, nw, *, view=True, liveness=True, orders=False, trace=False):
    s = f"CONSTANTS NTasks = {nt}\n NWorkers = {nw}\n"
    if trace:
        s += "INIT TInit\nNEXT TNext\nCONSTRAINT Reach\nPOSTCONDITION Accepted\nCHECK_DEADLOCK FALSE\n"
    else:
        s += "SPECIFICATION Spec\n"
    for i in INVS:
        s += f"INVARIANT {i}\n"
    if orders:
        s += "INVARIANT Orders\n"
    if view and not trace:
        s += "VIEW View\n"
    if liveness and not trace:
        s += "PROPERTY Liveness\n"
    return s


# ------------------------------------------------------------------ instrumented queue (test double)

class Recorder:
    def __init__(self):
        self.lock = threading.Lock()
        self.events = []
        self.tids = {}
        self.queues = []

    def wid(self):
        t = threading.get_ident()
        with self.lock:
            if t not in self.tids:
                self.tids[t] = len(self.tids)  # main thread registers first -> 0
            return self.tids[t]

    def emit(self, **e):
        with self.lock:
            self.events.append(e)

    def count(self, ev):
        with self.lock:
            return sum(1 for e in self.events if e["ev"] == ev)


def make_queue_ns(rec: Recorder):
    class LoggingQueue(_queue.Queue):
        def __init__(self, *a, **k):
            super().__init__(*a, **k)
            self.role = "in" if not rec.queues else "out"
            rec.queues.append(self)

        # _put/_get run while the queue's mutex is held: the linearization point
        def _put(self, item):
            super()._put(item)
            w = rec.wid()
            if self.role == "in":
                rec.emit(ev="in_put", w=w, i=0 if item is None else item[0] + 1)
            else:
                rec.emit(ev="out_put", w=w, i=item[0] + 1, ok=not isinstance(item[1], BaseException))

        def _get(self):
            item = super()._get()
            w = rec.wid()
            if self.role == "in":
                rec.emit(ev="in_get", w=w, i=0 if item is None else item[0] + 1)
            else:
                rec.emit(ev="out_get", w=w, i=item[0] + 1, ok=not isinstance(item[1], BaseException))
            return item

    return types.SimpleNamespace(Queue=LoggingQueue, Empty=_queue.Empty, Full=_queue.Full)


class Boom(Exception):
    pass


class ReBoom(Exception):
    pass


def run_threads(nt, nw, fails, reraise, order=None, started_sets=None, delays=None, step_timeout=5.0):
    """Run the real executor in thread mode.  order: forced completion order (1-based task ids)."""
    import gemseo.core.parallel_execution.callable_parallel_execution as mod

    rec = Recorder()
    rec.wid()  # main = 0
    gates = [threading.Event() for _ in range(nt)]
    started = [threading.Event() for _ in range(nt)]

    def mk(i):
        def f(x):
            rec.emit(ev="run", w=rec.wid(), i=i + 1)
            started[i].set()
            if order is not None:
                gates[i].wait()
            elif delays:
                time.sleep(delays[i])
            if (i + 1) in reraise:
                raise ReBoom(i + 1)
            if (i + 1) in fails:
                raise Boom(i + 1)
            return 100 + x
        return f

    workers = [mk(i) for i in range(nt)]
    res = {}

    def cb(i, o):
        rec.emit(ev="callback", w=rec.wid(), i=i + 1, val=o if isinstance(o, int) else 0)

    def target():
        rec.tids[threading.get_ident()] = 0
        saved = mod.queue
        mod.queue = make_queue_ns(rec)
        try:
            ex = mod.CallableParallelExecution(workers, n_processes=nw, use_threading=True,
                                               exceptions_to_re_raise=(ReBoom,))
            res["out"] = ex.execute([i + 1 for i in range(nt)], exec_callback=cb)
        except ReBoom as e:
            res["raised"] = e.args[0]
        except BaseException as e:  # noqa: BLE001
            res["error"] = e
        finally:
            mod.queue = saved

    rec.tids.clear()
    th = threading.Thread(target=target)
    import contextlib
    import io
    problems = []
    with contextlib.redirect_stderr(io.StringIO()):
        th.start()
        if order is not None:
            for k, i in enumerate(order):
                if not started[i - 1].wait(step_timeout):
                    problems.append(f"task {i} never started although the specification allows it to finish at step {k}")
                    break
                if started_sets is not None:
                    # wait for quiescence of the set of running tasks, then compare with the spec
                    want = set(started_sets[k])
                    deadline = time.time() + step_timeout
                    done = set(order[:k])
                    while time.time() < deadline:
                        got = {j + 1 for j in range(nt) if started[j].is_set()} - done
                        if got == want:
                            break
                        time.sleep(0.0005)
                    else:
                        problems.append(f"running set before finish #{k}: impl {sorted(got)} spec {sorted(want)}")
                        break
                n0 = rec.count("out_put")
                gates[i - 1].set()
                deadline = time.time() + step_timeout
                while rec.count("out_put") <= n0 and time.time() < deadline:
                    time.sleep(0.0002)
            for g in gates:
                g.set()
        th.join(30)
    if th.is_alive():
        problems.append("execute() did not terminate within 30 s")
    # worker ids: main 0, workers numbered by first appearance 1..W
    return rec.events, res, problems


def norm_out(out):
    return [0 if o is None else o for o in out]


def run_processes(nt, nw, fails, reraise, delays):
    import gemseo.core.parallel_execution.callable_parallel_execution as mod
    import multiprocessing as mp

    cbs = []

    class F:
        def __init__(self, i):
            self.i = i

        def __call__(self, x):
            time.sleep(delays[self.i])
            if (self.i + 1) in reraise:
                raise ReBoom(self.i + 1)
            if (self.i + 1) in fails:
                raise Boom(self.i + 1)
            return 100 + x

    res = {}
    import contextlib
    import io
    with contextlib.redirect_stderr(io.StringIO()):
        try:
            ex = mod.CallableParallelExecution([F(i) for i in range(nt)], n_processes=nw, use_threading=False,
                                               exceptions_to_re_raise=(ReBoom,))
            res["out"] = ex.execute([i + 1 for i in range(nt)], exec_callback=lambda i, o: cbs.append((i + 1, o)))
        except ReBoom as e:
            res["raised"] = e.args[0]
        except BaseException as e:  # noqa: BLE001
            res["error"] = e
    return res, cbs


def run(ck: Check):
    rng = random.Random(ck.seed)
    max_t = 4 if ck.thorough else 3
    grid = [(nt, nw) for nt in range(0, max_t + 1) for nw in (1, 2, 3)]
    if ck.thorough:
        grid += [(5, 2)]
    # ---- 1. exhaustive model checking, safety (VIEW hides observation variables) + liveness
    for nt, nw in grid:
        ck.tlc("ParallelExec", cfg(nt, nw), workers=8, timeout=900,
               require_actions=("Fill", "Collect", "Sentinels", "Join", "Raise") + (("Take", "Run", "Finish") if nt else ()))
    # ---- 2. completion orders from the spec, replayed on the real thread back-end
    n_orders = 0
    replay_grid = [(nt, nw) for nt, nw in grid if nt <= (4 if ck.thorough else 3)]
    for nt, nw in replay_grid:
        r = ck.tlc("ParallelExec", cfg(nt, nw, view=False, liveness=False, orders=True), workers=1,
                   timeout=900, count=False, coverage=False)
        recs = {}
        for v in r.printed():
            if isinstance(v, tuple) and v and v[0] == "ORDER":
                _, fails, reraise, flog, started_at, ordered, cblog, raised = v
                key = (fails, reraise, flog)
                if key in recs:
                    # the running set the implementation reaches at quiescence is the largest one the
                    # specification allows for this completion order (workers take eagerly)
                    old = recs[key]
                    recs[key] = (tuple(a | b for a, b in zip(old[0], started_at)), ordered, cblog, raised)
                else:
                    recs[key] = (started_at, ordered, cblog, raised)
        if not recs:
            raise MachineryError("no ORDER record printed by TLC")
        items = sorted(recs.items(), key=lambda kv: (sorted(kv[0][0]), sorted(kv[0][1]), kv[0][2]))
        # the early-stop path leaves cbLog/ordered schedule-dependent: group all admissible outcomes
        budget = None if ck.thorough else 140
        if budget and len(items) > budget:
            items = rng.sample(items, budget)
        for (fails, reraise, flog), (started_at, ordered, cblog, raised) in items:
            n_orders += 1
            sig = {"what": "forced_order", "n_tasks": nt, "n_workers": nw}
            case = {"n_tasks": nt, "n_workers": nw, "fails": sorted(fails), "reraise": sorted(reraise),
                    "finish_order": list(flog)}
            ck.sample(case)
            events, res, problems = run_threads(nt, nw, fails, reraise, order=list(flog),
                                                started_sets=[set(s) for s in started_at])
            if "error" in res:
                ck.violation("Terminates", dict(sig, n_tasks=nt, exception=type(res["error"]).__name__),
                             dict(case, error=repr(res["error"])))
                continue
            if problems:
                ck.violation("ScheduleAdmissible", sig, dict(case, problems=problems))
                continue
            # outcomes admissible for this (fails, reraise, order): collected from all spec records
            if raised != ("raised" in res):
                ck.violation("RaiseIff", sig, dict(case, spec_raised=raised, impl=str(res)))
                continue
            cb_impl = [(e["i"], e["val"]) for e in events if e["ev"] == "callback"]
            if not raised:
                if norm_out(res["out"]) != list(ordered):
                    ck.violation("Positional", sig, dict(case, spec=list(ordered), impl=res["out"]))
                if cb_impl != [tuple(c) for c in cblog]:
                    ck.violation("CallbackOrder", sig, dict(case, spec=list(cblog), impl=cb_impl))
            else:
                # with an early stop the collected prefix depends on the interleaving of Collect with
                # Finish; the callback log must be a prefix-consistent subsequence of successes
                ok_tasks = [i for i in flog if i not in fails]
                if any(c not in [(i, 100 + i) for i in ok_tasks] for c in cb_impl) or len(set(cb_impl)) != len(cb_impl):
                    ck.violation("CallbackMatches", sig, dict(case, impl=cb_impl))
            ck.traces += 1
    # ---- 3. free-running executions, recorded, validated by ParallelExecTrace
    groups: dict[tuple, list] = {}
    n_free = 400 if ck.thorough else 60
    for k in range(n_free):
        nt = rng.randint(0, 6 if ck.thorough else 5)
        nw = rng.randint(1, 4)
        fails = {i for i in range(1, nt + 1) if rng.random() < 0.25}
        reraise = {i for i in fails if rng.random() < 0.3}
        delays = [rng.choice([0, 0, 0.001, 0.003, 0.008]) for _ in range(nt)]
        events, res, problems = run_threads(nt, nw, fails | reraise, reraise, delays=delays)
        sig = {"what": "free_run", "n_tasks": nt}
        if "error" in res:
            ck.violation("Terminates", dict(sig, exception=type(res["error"]).__name__),
                         {"n_tasks": nt, "n_workers": nw, "error": repr(res["error"])})
            continue
        if problems:
            ck.violation("Terminates", sig, {"problems": problems})
            continue
        if "raised" in res:
            events.append({"ev": "raise", "w": 0, "i": res["raised"]})
        else:
            events.append({"ev": "return", "w": 0, "out": norm_out(res["out"])})
        groups.setdefault((nt, nw), []).append(
            {"id": k, "fails": sorted(fails | reraise), "reraise": sorted(reraise), "events": events})
    validate_traces(ck, groups)
    # ---- 4. process back-end: outcome must be a terminal state of the spec
    n_proc = 24 if ck.thorough else 6
    for k in range(n_proc):
        nt = rng.randint(1, 5)
        nw = rng.randint(1, 3)
        fails = {i for i in range(1, nt + 1) if rng.random() < 0.3}
        delays = [rng.choice([0, 0.01, 0.03]) for _ in range(nt)]
        res, cbs = run_processes(nt, nw, fails, set(), delays)
        sig = {"what": "process_run", "n_tasks": nt}
        case = {"n_tasks": nt, "n_workers": nw, "fails": sorted(fails), "delays": delays}
        if "error" in res:
            ck.violation("Terminates", dict(sig, exception=type(res["error"]).__name__), dict(case, error=repr(res["error"])))
            continue
        want = [0 if i in fails else 100 + i for i in range(1, nt + 1)]
        if norm_out(res["out"]) != want:
            ck.violation("Positional", sig, dict(case, spec=want, impl=res["out"]))
        if sorted(cbs) != sorted((i, 100 + i) for i in range(1, nt + 1) if i not in fails):
            ck.violation("CallbackOnce", sig, dict(case, impl=cbs))
        ck.traces += 1
    ck.extra["forced_orders_replayed"] = n_orders
    ck.extra["free_thread_traces"] = sum(len(v) for v in groups.values())
    ck.extra["process_runs"] = n_proc
    from . import c13_clients
    c13_clients.run(ck, rng)
    ck.exhaustive = False
    ck.assumptions += [
        "queue.Queue is replaced in the harness process by a logging subclass (test double) to observe put/get inside the queue mutex",
        "process back-end: only outcomes are compared (manager queues are not observable without a hook)",
    ]


def validate_traces(ck: Check, groups):
    for (nt, nw), traces in sorted(groups.items()):
        # worker ids in events: map thread numbering (first appearance) onto 1..NW
        for t in traces:
            remap = {0: 0}
            for e in t["events"]:
                if e["w"] not in remap:
                    remap[e["w"]] = len(remap)
                e["w"] = remap[e["w"]]
        f = ck.work / f"pe-traces-{nt}-{nw}.json"
        f.write_text(json.dumps(traces))
        r = ck.tlc("ParallelExecTrace", cfg(nt, nw, trace=True), workers=1, timeout=900, count=False,
                   env={"TRACE_FILE": str(f)}, coverage=False, depth_first=True)
        verdict = {}
        for v in r.printed():
            if isinstance(v, tuple) and v and v[0] == "TRACE":
                verdict[v[1]] = (v[2], v[3])
        for t in traces:
            if t["id"] not in verdict:
                raise MachineryError(f"no verdict for trace {t['id']}")
            reached, total = verdict[t["id"]]
            if reached != total:
                nxt = t["events"][reached] if reached < len(t["events"]) else None
                ck.violation("TraceConformance", {"what": "free_run", "n_tasks": nt, "event": nxt and nxt["ev"]},
                             {"n_tasks": nt, "n_workers": nw, "fails": t["fails"], "reraise": t["reraise"],
                              "matched_prefix": reached, "next_event": nxt, "events": t["events"]})
            else:
                ck.traces += 1
        ck.states += r.distinct
        ck.transitions += r.generated


if __name__ == "__main__":
    main("C13", run)
