"""C13 - parallel execution: ParallelExec.tla (PlusCal) checked by TLC, bound to the real executor by
(1) spec->code: every completion order TLC finds is forced on the real thread back-end (gated workers),
    single executions exhaustively, then HISTORIES of consecutive executions on ONE executor object
    (every terminal state of an execution - normal end, early stop by a re-raised exception with results
    still in flight - followed by further executions), on the thread and on the process back-end,
(2) code->spec: free-running thread executions (several per object) recorded at the queues'
    linearization points and validated by ParallelExecTrace.tla,
(3) process back-end outcomes checked against the spec's terminal states,
(4) client equivalences (parallel DOE / chain / linearization / FD / Jacobi MDA vs sequential).
"""
from __future__ import annotations

import contextlib
import io
import json
import os
import queue as _queue
import random
import threading
import time
import types

from ..core import Check, MachineryError, main

INVS = ["Positional", "SlotIsolation", "CallbackMatches", "CallbackOnce", "CallbackAll", "RunOnce",
        "RaiseIff", "ReturnXorRaise", "NoLostResult", "ExecutionsIndependent"]
_LOCK = threading.Lock()


def cfg(counts, nw, *, nexec=1, persist=False, view=True, liveness=True, orders=False, trace=False, invs=None):
    s = (f"CONSTANTS TaskCounts = {{{', '.join(map(str, sorted(counts)))}}}\n NWorkers = {nw}\n NExec = {nexec}\n"
         f" PersistQueues = {'TRUE' if persist else 'FALSE'}\n")
    if trace:
        s += "INIT TInit\nNEXT TNext\nCONSTRAINT Reach\nPOSTCONDITION Accepted\nCHECK_DEADLOCK FALSE\n"
    else:
        s += "SPECIFICATION Spec\n"
    for i in (INVS if invs is None else invs):
        s += f"INVARIANT {i}\n"
    if orders:
        s += "INVARIANT Orders\n"
    if view and not trace:
        s += "VIEW View\n"
    if liveness and not trace:
        s += "PROPERTY Liveness\n"
    return s


def tlc_many(ck: Check, jobs, width=4):
    """Run TLC jobs (module, cfg, kwargs) `width` at a time; results in the order of the jobs."""
    from concurrent.futures import ThreadPoolExecutor

    def one(job):
        k, (module, text, kw) = job
        kw = dict(kw)
        count = kw.pop("count", True)
        r = ck.tlc(module, text, count=False, tag=f"j{k}-{time.time_ns() % 10 ** 9}", **kw)
        if count:
            with _LOCK:
                ck.states += r.distinct
                ck.transitions += r.generated
        return r

    with ThreadPoolExecutor(width) as pool:
        return list(pool.map(one, list(enumerate(jobs))))


def patience(base=20.0):
    """A generous, load-aware bound on the time a step of a gated replay may take (seconds): the machine
    may be shared, a time-out must never be mistaken for a behaviour of gemseo."""
    try:
        load = os.getloadavg()[0] / (os.cpu_count() or 1)
    except OSError:  # pragma: no cover
        load = 1.0
    return base * max(1.0, load)


# ------------------------------------------------------------------ instrumented queue (test double)

class Recorder:
    def __init__(self):
        self.lock = threading.Lock()
        self.events = []
        self.tids = {}
        self.queues = []

    def wid(self):
        t = threading.get_ident()
        with self.lock:
            if t not in self.tids:
                self.tids[t] = len(self.tids)  # main thread registers first -> 0
            return self.tids[t]

    def emit(self, **e):
        with self.lock:
            self.events.append(e)

    def count(self, ev):
        with self.lock:
            return sum(1 for e in self.events if e["ev"] == ev)


def make_queue_ns(rec: Recorder):
    class LoggingQueue(_queue.Queue):
        def __init__(self, *a, **k):
            super().__init__(*a, **k)
            # `execute` creates its input queue, then its output queue
            self.role = "in" if len(rec.queues) % 2 == 0 else "out"
            rec.queues.append(self)

        # _put/_get run while the queue's mutex is held: the linearization point
        def _put(self, item):
            super()._put(item)
            w = rec.wid()
            if self.role == "in":
                rec.emit(ev="in_put", w=w, i=0 if item is None else item[0] + 1)
            else:
                rec.emit(ev="out_put", w=w, i=item[0] + 1, ok=not isinstance(item[1], BaseException))

        def _get(self):
            item = super()._get()
            w = rec.wid()
            if self.role == "in":
                rec.emit(ev="in_get", w=w, i=0 if item is None else item[0] + 1)
            else:
                rec.emit(ev="out_get", w=w, i=item[0] + 1, ok=not isinstance(item[1], BaseException))
            return item

    return types.SimpleNamespace(Queue=LoggingQueue, Empty=_queue.Empty, Full=_queue.Full)


class ObsQueue:
    """Test double of a managed queue (process back-end): delegates to the real proxy and counts the
    completed puts on the output queue in shared memory, so that the controller releases the next gate
    only when the previous result IS in the queue (the forced completion order is the queue order)."""

    def __init__(self, proxy, role, nput):
        self._proxy = proxy
        self._role = role
        self._nput = nput

    def put(self, item, *a, **k):
        self._proxy.put(item, *a, **k)
        if self._role == "out":
            with self._nput.get_lock():
                self._nput.value += 1

    def get(self, *a, **k):
        return self._proxy.get(*a, **k)

    def task_done(self):
        return self._proxy.task_done()

    def qsize(self):
        return self._proxy.qsize()


class ObsManager:
    def __init__(self, real, nput):
        self._real = real
        self._nput = nput
        self._n = 0

    def Queue(self, *a, **k):  # noqa: N802
        role = "in" if self._n % 2 == 0 else "out"
        self._n += 1
        return ObsQueue(self._real.Queue(*a, **k), role, self._nput)

    def list(self, *a, **k):
        return self._real.list(*a, **k)

    def __getattr__(self, name):
        return getattr(self._real, name)


@contextlib.contextmanager
def observed_processes():
    """Substitute the observing manager inside the harness process; yields the shared put counter."""
    import multiprocessing as mp

    import gemseo.core.parallel_execution.callable_parallel_execution as mod

    nput = mp.get_context("fork").Value("i", 0)
    saved = mod.get_multi_processing_manager
    real = saved()
    man = ObsManager(real, nput)
    mod.get_multi_processing_manager = lambda: man
    try:
        yield nput
    finally:
        mod.get_multi_processing_manager = saved


class Boom(Exception):
    pass


class ReBoom(Exception):
    pass


def _task(k, i, fails, reraise):
    if i in reraise:
        raise ReBoom(i)
    if i in fails:
        raise Boom(i)
    return 100 * k + i


def run_threads(nw, execs, *, max_tasks=None, single_worker=False, cb_form="callable"):
    """Run consecutive executions on ONE real executor object in thread mode.

    execs: list of dicts {n, fails, reraise, order (forced completion order, 1-based) | None, started
    (the running set the specification allows before each finish) | None, delays | None}.
    Returns (events, results per execution, problems)."""
    import gemseo.core.parallel_execution.callable_parallel_execution as mod

    rec = Recorder()
    wait = patience()
    nmax = max_tasks or max([x["n"] for x in execs] + [1])
    gates = {(k, i): threading.Event() for k, x in enumerate(execs, 1) for i in range(1, x["n"] + 1)}
    started = {key: threading.Event() for key in gates}
    begun = [threading.Event() for _ in execs]
    ended = [threading.Event() for _ in execs]

    def body(x):
        k, i = x
        spec = execs[k - 1]
        rec.emit(ev="run", w=rec.wid(), i=i)
        started[(k, i)].set()
        if spec.get("order") is not None:
            gates[(k, i)].wait()
        elif spec.get("delays"):
            time.sleep(spec["delays"][i - 1])
        return _task(k, i, spec["fails"], spec["reraise"])

    def mk():
        return lambda x: body(x)

    workers = [mk()] if single_worker else [mk() for _ in range(nmax)]
    results = [dict() for _ in execs]

    def cb(i, o):
        rec.emit(ev="callback", w=rec.wid(), i=i + 1, val=o if isinstance(o, int) else 0)

    def target():
        saved = mod.queue
        mod.queue = make_queue_ns(rec)
        try:
            ex = mod.CallableParallelExecution(workers, n_processes=nw, use_threading=True,
                                               exceptions_to_re_raise=(ReBoom,))
            for k, spec in enumerate(execs, 1):
                res = results[k - 1]
                # thread numbering restarts at each execution: main 0, workers by first appearance
                with rec.lock:
                    rec.tids.clear()
                    rec.tids[threading.get_ident()] = 0
                rec.emit(ev="start", w=0, n=spec["n"], fails=sorted(spec["fails"]), reraise=sorted(spec["reraise"]))
                begun[k - 1].set()
                try:
                    callbacks = {"callable": cb, "list": [cb], "tuple": (cb,)}[cb_form]
                    res["out"] = ex.execute([(k, i) for i in range(1, spec["n"] + 1)], exec_callback=callbacks)
                    rec.emit(ev="return", w=0, out=norm_out(res["out"]))
                except ReBoom as e:
                    res["raised"] = e.args[0]
                    rec.emit(ev="raise", w=0, i=e.args[0])
                except BaseException as e:  # noqa: BLE001
                    res["error"] = e
                ended[k - 1].set()
                if "error" in res:
                    break
        finally:
            mod.queue = saved
            for ev in begun + ended:
                ev.set()

    th = threading.Thread(target=target, daemon=True)
    problems = []
    with contextlib.redirect_stderr(io.StringIO()):
        th.start()
        for k, spec in enumerate(execs, 1):
            if not begun[k - 1].wait(wait) or problems:
                break
            order = spec.get("order")
            if order is not None:
                for pos, i in enumerate(order):
                    if not started[(k, i)].wait(wait):
                        if ended[k - 1].is_set():
                            break  # the execution is over (an exception of the executor): reported from its result
                        problems.append(f"execution {k}: task {i} never started although the specification allows it to finish at step {pos}")
                        break
                    if spec.get("started") is not None:
                        # wait for quiescence of the set of running tasks, then compare with the spec
                        want = set(spec["started"][pos])
                        done = set(order[:pos])
                        deadline = time.time() + wait
                        got = None
                        while time.time() < deadline:
                            got = {j for j in range(1, spec["n"] + 1) if started[(k, j)].is_set()} - done
                            if got == want:
                                break
                            time.sleep(0.0005)
                        else:
                            problems.append(f"execution {k}: running set before finish #{pos}: impl {sorted(got)} spec {sorted(want)}")
                            break
                    n0 = rec.count("out_put")
                    gates[(k, i)].set()
                    deadline = time.time() + wait
                    while rec.count("out_put") <= n0 and time.time() < deadline and not ended[k - 1].is_set():
                        time.sleep(0.0002)
                for key, g in gates.items():
                    if key[0] == k:
                        g.set()
            if not ended[k - 1].wait(3 * wait):
                problems.append(f"execution {k}: execute() did not terminate within {3 * wait:.0f} s")
                break
        for g in gates.values():
            g.set()
        th.join(wait)
    return rec.events, results, problems


def norm_out(out):
    return [0 if o is None else o for o in out]


class _ProcTask:
    def __init__(self, execs, gates, started):
        self.execs = execs
        self.gates = gates
        self.started = started

    def __call__(self, x):
        k, i = x
        spec = self.execs[k - 1]
        self.started[(k, i)].set()
        if spec.get("order") is not None:
            self.gates[(k, i)].wait(600)
        elif spec.get("delays"):
            time.sleep(spec["delays"][i - 1])
        return _task(k, i, spec["fails"], spec["reraise"])


def run_processes(nw, execs, *, cb_form="callable"):
    """The same on the process back-end (fork): consecutive executions on ONE executor object, forced
    completion orders through inherited events, the queue order observed through ObsQueue."""
    import multiprocessing as mp

    import gemseo.core.parallel_execution.callable_parallel_execution as mod

    ctx = mp.get_context("fork")
    wait = patience()
    gates = {(k, i): ctx.Event() for k, x in enumerate(execs, 1) for i in range(1, x["n"] + 1)}
    started = {key: ctx.Event() for key in gates}
    begun = [threading.Event() for _ in execs]
    ended = [threading.Event() for _ in execs]
    results = [dict() for _ in execs]
    problems = []
    with observed_processes() as nput, contextlib.redirect_stderr(io.StringIO()):
        def target():
            try:
                ex = mod.CallableParallelExecution([_ProcTask(execs, gates, started)], n_processes=nw,
                                                   use_threading=False, exceptions_to_re_raise=(ReBoom,))
                for k, spec in enumerate(execs, 1):
                    res = results[k - 1]
                    res["cb"] = []

                    def cb(i, o, res=res):
                        res["cb"].append((i + 1, o if isinstance(o, int) else 0))

                    begun[k - 1].set()
                    try:
                        callbacks = {"callable": cb, "list": [cb], "tuple": (cb,)}[cb_form]
                        res["out"] = ex.execute([(k, i) for i in range(1, spec["n"] + 1)], exec_callback=callbacks)
                    except ReBoom as e:
                        res["raised"] = e.args[0]
                    except BaseException as e:  # noqa: BLE001
                        res["error"] = e
                    ended[k - 1].set()
                    if "error" in res:
                        break
            finally:
                for ev in begun + ended:
                    ev.set()

        th = threading.Thread(target=target, daemon=True)
        th.start()
        for k, spec in enumerate(execs, 1):
            if not begun[k - 1].wait(wait) or problems:
                break
            order = spec.get("order")
            if order is not None:
                with nput.get_lock():
                    base = nput.value
                for pos, i in enumerate(order):
                    while not started[(k, i)].wait(0.05):
                        if ended[k - 1].is_set():
                            break
                    if ended[k - 1].is_set() and not started[(k, i)].is_set():
                        break
                    gates[(k, i)].set()
                    deadline = time.time() + wait
                    while nput.value < base + pos + 1 and time.time() < deadline and not ended[k - 1].is_set():
                        time.sleep(0.001)
                for key, g in gates.items():
                    if key[0] == k:
                        g.set()
            if not ended[k - 1].wait(6 * wait):
                problems.append(f"execution {k}: execute() did not terminate within {6 * wait:.0f} s")
                break
        for g in gates.values():
            g.set()
        th.join(wait)
    return results, problems


# ------------------------------------------------------------------ histories from the specification

def parse_hists(r):
    """HIST records printed by TLC -> list of histories (tuples of per-execution dicts)."""
    out = []
    seen = set()
    for v in r.printed():
        if isinstance(v, tuple) and len(v) == 2 and v[0] == "HIST":
            h = tuple(v[1])
            key = repr(h)
            if key in seen:
                continue
            seen.add(key)
            out.append(h)
    return out


def exec_key(h):
    return (h["n"], frozenset(h["fails"]), frozenset(h["reraise"]), tuple(h["flog"]))


def compare_exec(ck, sig, case, k, h, res, cb_impl, *, exact_order):
    """One execution of a history against the specification's record h (values computed by TLC)."""
    if "error" in res:
        ck.violation("Terminates", dict(sig, exception=type(res["error"]).__name__), dict(case, execution=k, error=repr(res["error"])))
        return False
    ok = True
    if h["raised"] != ("raised" in res):
        ck.violation("RaiseIff", sig, dict(case, execution=k, spec_raised=h["raised"], impl={a: str(b) for a, b in res.items()}))
        return False
    spec_cb = [tuple(c) for c in h["cb"]]
    if not h["raised"]:
        if norm_out(res["out"]) != list(h["ordered"]):
            ck.violation("Positional", sig, dict(case, execution=k, spec=list(h["ordered"]), impl=res["out"]))
            ok = False
        if (cb_impl != spec_cb) if exact_order else (sorted(cb_impl) != sorted(spec_cb)):
            ck.violation("CallbackOrder" if sorted(cb_impl) == sorted(spec_cb) else "CallbackMatches", sig,
                         dict(case, execution=k, spec=spec_cb, impl=cb_impl))
            ok = False
    else:
        # the queue is FIFO and the collection stops at the first re-raised failure: the callbacks are those
        # of the successes put before it, the exception is that one
        if exact_order:
            if res["raised"] != h["who"]:
                ck.violation("RaiseIff", dict(sig, part="which"), dict(case, execution=k, spec=h["who"], impl=res["raised"]))
                ok = False
            if cb_impl != spec_cb:
                ck.violation("CallbackMatches", sig, dict(case, execution=k, spec=spec_cb, impl=cb_impl))
                ok = False
        else:
            good = {(i, 100 * k + i) for i in range(1, h["n"] + 1) if i not in h["fails"]}
            if res["raised"] not in h["reraise"] or any(c not in good for c in cb_impl) or len(set(cb_impl)) != len(cb_impl):
                ck.violation("CallbackMatches", sig, dict(case, execution=k, raised=res["raised"], impl=cb_impl))
                ok = False
    return ok


def split_callbacks(events):
    """Callback log per execution from a thread-mode event list."""
    out, cur = [], None
    for e in events:
        if e["ev"] == "start":
            cur = []
            out.append(cur)
        elif e["ev"] == "callback" and cur is not None:
            cur.append((e["i"], e["val"]))
    return out


def replay_history(ck, rng, backend, nw, hist, records, sig, *, retries=2):
    """Force a TLC history on one real executor object; compare every execution with the specification."""
    execs = []
    for h in hist:
        st = records.get(nw, {}).get(exec_key(h))
        execs.append({"n": h["n"], "fails": set(h["fails"]), "reraise": set(h["reraise"]), "order": list(h["flog"]),
                      "started": [set(s) for s in st[0]] if (st and backend == "threads") else None})
    case = {"backend": backend, "n_workers": nw,
            "executions": [{"n_tasks": x["n"], "fails": sorted(x["fails"]), "reraise": sorted(x["reraise"]),
                            "finish_order": x["order"]} for x in execs]}
    form = rng.choice(["callable", "list", "tuple"])
    for attempt in range(retries + 1):
        if backend == "threads":
            events, results, problems = run_threads(nw, execs, max_tasks=max([x["n"] for x in execs] + [1]),
                                                    single_worker=rng.random() < 0.5, cb_form=form)
            cbs = split_callbacks(events)
        else:
            results, problems = run_processes(nw, execs, cb_form=form)
            cbs = [r.get("cb", []) for r in results]
        if not problems or any("error" in r for r in results):
            break
    if problems and not any("error" in r for r in results):
        # persistent after retries with load-aware bounds: the real pool cannot follow a schedule of the model
        ck.violation("ScheduleAdmissible", sig, dict(case, problems=problems))
        return False
    ok = True
    for k, (h, res) in enumerate(zip(hist, results), 1):
        if not res:
            ck.violation("Terminates", sig, dict(case, execution=k, problem="the execution did not take place"))
            return False
        cb_impl = cbs[k - 1] if k - 1 < len(cbs) else []
        ok = compare_exec(ck, dict(sig, execution=min(k, 2)), case, k, h, res, cb_impl, exact_order=True) and ok
        if "error" in res:
            break
    if ok:
        ck.traces += 1
    return ok


def run(ck: Check):
    rng = random.Random(ck.seed)
    max_t = 4 if ck.thorough else 3
    counts = list(range(0, max_t + 1))
    # ---- 1. exhaustive model checking, safety (VIEW hides observation variables) + liveness; consecutive
    #         executions on one object; the design that keeps the queues is refuted
    acts = ("Start", "Fill", "Collect", "Sentinels", "Join", "Raise", "Close", "Take", "Run", "Finish")
    jobs = [("ParallelExec", cfg(counts, 1, nexec=3), dict(workers=2, timeout=900, require_actions=acts)),
            ("ParallelExec", cfg(counts, 2, nexec=3 if ck.thorough else 2), dict(workers=2, timeout=900, require_actions=acts)),
            ("ParallelExec", cfg(counts, 3, nexec=2 if ck.thorough else 1), dict(workers=4, timeout=1500, require_actions=acts))]
    if ck.thorough:
        jobs.append(("ParallelExec", cfg([5], 2, nexec=1), dict(workers=2, timeout=900)))
    else:
        jobs.append(("ParallelExec", cfg([0, 1, 2], 3, nexec=2), dict(workers=2, timeout=900)))
    refuted = ("ExecutionsIndependent", "Positional", "CallbackMatches")
    for inv in refuted:
        jobs.append(("ParallelExec", cfg([1, 2, 3], 2, nexec=2, persist=True, liveness=False, invs=[inv]),
                     dict(workers=1, timeout=600, expect_ok=False, count=False, coverage=False)))
    # ---- 2a. completion orders of ONE execution (all numbers of tasks) for each number of workers
    for nw in (1, 2, 3):
        # (without the VIEW every interleaving is a state: 4 tasks on 3 workers are left to the exhaustive runs above)
        jobs.append(("ParallelExec", cfg([c for c in counts if c <= 3 or nw < 3], nw, nexec=1, view=False, liveness=False,
                                         orders=True, invs=["Positional"]),
                     dict(workers=1, timeout=1500, count=False, coverage=False)))
    # ---- 2b. histories of consecutive executions on one object (random behaviours of the model)
    n_sim = 1200 if ck.thorough else 400
    for nw in (2, 3):
        jobs.append(("ParallelExec", cfg([1, 2, 3] if nw == 2 else [2, 3, 4], nw, nexec=3, view=False, liveness=False,
                                         orders=True, invs=["Positional", "ExecutionsIndependent"]),
                     dict(workers=1, timeout=900, count=False, coverage=False, simulate=f"num={n_sim}", depth=400,
                          seed=ck.seed + 11)))
    res = tlc_many(ck, jobs)
    n_ver = len(jobs) - len(refuted) - 5
    for inv, r in zip(refuted, res[n_ver:n_ver + len(refuted)]):
        if r.violated != inv:
            raise MachineryError(f"the design that keeps the queues between executions is not refuted on {inv} (TLC: {r.violated})")
    ck.extra["persistent_queues_refuted_on"] = list(refuted)
    order_runs = res[n_ver + len(refuted):n_ver + len(refuted) + 3]
    sim_runs = res[n_ver + len(refuted) + 3:]
    records = {}
    for nw, r in zip((1, 2, 3), order_runs):
        recs = records.setdefault(nw, {})
        for hist in parse_hists(r):
            h = hist[0]
            key = exec_key(h)
            if key in recs:
                # the running set the implementation reaches at quiescence is the largest one the
                # specification allows for this completion order (workers take eagerly)
                old = recs[key]
                recs[key] = (tuple(a | b for a, b in zip(old[0], h["started"])), h)
            else:
                recs[key] = (tuple(h["started"]), h)
        if not recs:
            raise MachineryError("no HIST record printed by TLC")
    # ---- 2a'. single executions, every completion order, on the thread back-end
    n_orders = 0
    for nw in (1, 2, 3):
        items = sorted(records[nw].items(), key=lambda kv: (kv[0][0], sorted(kv[0][1]), sorted(kv[0][2]), kv[0][3]))
        small = [it for it in items if it[0][0] <= 2]
        big = [it for it in items if it[0][0] > 2]
        budget = None if ck.thorough else 110
        if budget and len(big) > budget:
            big = rng.sample(big, budget)
        for key, (started, h) in small + big:
            n_orders += 1
            sig = {"what": "forced_order", "n_tasks": h["n"], "n_workers": nw}
            ck.sample({"n_tasks": h["n"], "n_workers": nw, "fails": sorted(h["fails"]), "reraise": sorted(h["reraise"]),
                       "finish_order": list(h["flog"])})
            replay_history(ck, rng, "threads", nw, (h,), records, sig)
    # ---- 2b'. histories on one object: threads (many), processes (those whose early stop leaves results behind first)
    n_hist = {"threads": 0, "processes": 0}
    n_left = {"threads": 0, "processes": 0}
    for nw, r in zip((2, 3), sim_runs):
        hists = parse_hists(r)
        if not hists:
            raise MachineryError("no simulated history printed by TLC")
        # interesting first: an execution that is not the last one ends with results still in flight
        left = [h for h in hists if any(x["left"] > 0 for x in h[:-1])]
        rest = [h for h in hists if h not in left]
        ck.extra[f"histories_in_model_nw{nw}"] = len(hists)
        ck.extra[f"histories_with_results_left_behind_nw{nw}"] = len(left)
        if not left:
            raise MachineryError("vacuity: no simulated history stops early with results left in the output queue")
        plan = {"threads": (rng.sample(left, min(len(left), 60 if ck.thorough else 20))
                            + rng.sample(rest, min(len(rest), 60 if ck.thorough else 15))),
                "processes": (rng.sample(left, min(len(left), 12 if ck.thorough else 3))
                              + rng.sample(rest, min(len(rest), 4 if ck.thorough else 1)))}
        for backend, chosen in plan.items():
            for hist in chosen:
                sig = {"what": "history_on_one_object", "backend": backend, "n_workers": nw}
                if n_hist[backend] < 2:
                    ck.sample({"backend": backend, "n_workers": nw,
                               "executions": [{"n_tasks": x["n"], "fails": sorted(x["fails"]), "reraise": sorted(x["reraise"]),
                                               "finish_order": list(x["flog"]), "left_in_queue": x["left"]} for x in hist]}, limit=10)
                replay_history(ck, rng, backend, nw, hist, records, sig)
                n_hist[backend] += 1
                n_left[backend] += any(x["left"] > 0 for x in hist[:-1])
    ck.extra["histories_replayed"] = n_hist
    ck.extra["histories_replayed_with_results_left_behind"] = n_left
    # ---- 3. free-running executions (several per object), recorded, validated by ParallelExecTrace
    groups: dict[int, list] = {}
    n_free = 300 if ck.thorough else 45
    max_free = 6 if ck.thorough else 5
    for k in range(n_free):
        nw = rng.randint(1, 4)
        execs = []
        for _ in range(rng.choice([1, 2, 2, 3])):
            nt = rng.randint(0, max_free)
            fails = {i for i in range(1, nt + 1) if rng.random() < 0.25}
            reraise = {i for i in fails if rng.random() < 0.3}
            execs.append({"n": nt, "fails": fails, "reraise": reraise, "order": None,
                          "delays": [rng.choice([0, 0, 0.001, 0.003, 0.008]) for _ in range(nt)]})
        events, results, problems = run_threads(nw, execs, max_tasks=max_free, single_worker=rng.random() < 0.3,
                                                cb_form=rng.choice(["callable", "list", "tuple"]))
        sig = {"what": "free_run"}
        err = next((r["error"] for r in results if "error" in r), None)
        if err is not None:
            ck.violation("Terminates", dict(sig, exception=type(err).__name__),
                         {"n_workers": nw, "executions": [{"n_tasks": x["n"], "fails": sorted(x["fails"])} for x in execs], "error": repr(err)})
            continue
        if problems:
            ck.violation("Terminates", sig, {"problems": problems})
            continue
        groups.setdefault(nw, []).append({"id": k, "events": events})
    validate_traces(ck, groups, max_free)
    # ---- 4. process back-end, free running: the outcome of every execution must be a terminal state of the spec
    n_proc = 16 if ck.thorough else 4
    for k in range(n_proc):
        nw = rng.randint(1, 3)
        execs = []
        for _ in range(2):
            nt = rng.randint(1, 5)
            fails = {i for i in range(1, nt + 1) if rng.random() < 0.3}
            reraise = {i for i in fails if rng.random() < 0.25}
            execs.append({"n": nt, "fails": fails, "reraise": reraise, "order": None,
                          "delays": [rng.choice([0, 0.01, 0.03]) for _ in range(nt)]})
        results, problems = run_processes(nw, execs, cb_form=rng.choice(["callable", "list", "tuple"]))
        sig = {"what": "process_run"}
        case = {"n_workers": nw, "executions": [{"n_tasks": x["n"], "fails": sorted(x["fails"]), "reraise": sorted(x["reraise"]),
                                                  "delays": x["delays"]} for x in execs]}
        if problems and not any("error" in r for r in results):
            ck.violation("Terminates", sig, dict(case, problems=problems))
            continue
        ok = True
        for kk, (x, res) in enumerate(zip(execs, results), 1):
            # the terminal state of the specification for these tasks (Positional, CallbackAll, RaiseIff:
            # it raises iff a task fails with a re-raised type; otherwise every slot holds its own value)
            h = {"n": x["n"], "fails": x["fails"], "reraise": x["reraise"], "raised": bool(x["reraise"]),
                 "ordered": [0 if i in x["fails"] else 100 * kk + i for i in range(1, x["n"] + 1)],
                 "cb": [(i, 100 * kk + i) for i in range(1, x["n"] + 1) if i not in x["fails"]], "who": None}
            ok = compare_exec(ck, dict(sig, execution=kk), case, kk, h, res, res.get("cb", []), exact_order=False) and ok
            if "error" in res:
                break
        if ok:
            ck.traces += 1
    ck.extra["forced_orders_replayed"] = n_orders
    ck.extra["free_thread_traces"] = sum(len(v) for v in groups.values())
    ck.extra["process_runs"] = n_proc
    from . import c13_clients
    c13_clients.run(ck, rng, records)
    ck.exhaustive = False
    ck.assumptions += [
        "queue.Queue is replaced in the harness process by a logging subclass (test double) to observe put/get inside the queue mutex",
        "process back-end: the managed queues are wrapped by a delegating test double that counts the completed puts "
        "(forced completion orders); free-running process executions are compared by outcome only",
        "time-outs of gated replays are load-aware (20 s x load average per core) and a schedule is retried twice before it is reported",
    ]


def validate_traces(ck: Check, groups, max_tasks):
    jobs, metas = [], []
    for nw, traces in sorted(groups.items()):
        # worker ids in events: thread numbering (first appearance within the execution) onto 1..NW
        for t in traces:
            remap = {0: 0}
            for e in t["events"]:
                if e["ev"] == "start":
                    remap = {0: 0}
                if e["w"] not in remap:
                    remap[e["w"]] = len(remap)
                e["w"] = remap[e["w"]]
        f = ck.work / f"pe-traces-{nw}.json"
        f.write_text(json.dumps(traces))
        jobs.append(("ParallelExecTrace", cfg(range(0, max_tasks + 1), nw, nexec=3, trace=True),
                     dict(workers=1, timeout=900, count=False, env={"TRACE_FILE": str(f)}, coverage=False, depth_first=True)))
        metas.append((nw, traces))
    for (nw, traces), r in zip(metas, tlc_many(ck, jobs)):
        verdict = {}
        for v in r.printed():
            if isinstance(v, tuple) and v and v[0] == "TRACE":
                verdict[v[1]] = (v[2], v[3])
        for t in traces:
            if t["id"] not in verdict:
                raise MachineryError(f"no verdict for trace {t['id']}")
            reached, total = verdict[t["id"]]
            if reached != total:
                nxt = t["events"][reached] if reached < len(t["events"]) else None
                n_exec = sum(1 for e in t["events"][:reached + 1] if e["ev"] == "start")
                ck.violation("TraceConformance", {"what": "free_run", "execution": min(n_exec, 2), "event": nxt and nxt["ev"]},
                             {"n_workers": nw, "matched_prefix": reached, "next_event": nxt, "events": t["events"]})
            else:
                ck.traces += 1
        ck.states += r.distinct
        ck.transitions += r.generated


if __name__ == "__main__":
    main("C13", run)
