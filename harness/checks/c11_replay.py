"""C11 - transport between the HDFStoreImpl state graph and real gemseo Database / HDF5 files.

Nothing here decides what the right content of a file is: the expected database (`db`) and the expected
raw layout (`file`) of every state come from TLC; this module builds real values from the specification's
[kind, val] records, performs the action of an edge on a real `Database`, and projects the real objects
(in-memory database, reloaded database, raw h5py groups) back onto the specification's vocabulary.
"""
from __future__ import annotations

import os
import traceback
from collections import deque
from pathlib import Path

import numpy as np

def preload():
    """import gemseo in the parent so that the forked workers inherit the modules"""
    import h5py  # noqa: F401
    import scipy.sparse  # noqa: F401
    import gemseo.algos.database  # noqa: F401
    import gemseo.algos.design_space  # noqa: F401
    import gemseo.algos.optimization_problem  # noqa: F401
    import gemseo.algos.optimization_result  # noqa: F401
    import gemseo.caches.hdf5_cache  # noqa: F401
    import gemseo.core.mdo_functions.mdo_function  # noqa: F401


# ----------------------------------------------------------------------------- values <-> [kind, val]

# the points: key i of the specification -> a real input vector (float and integer points)
POINTS = {1: np.array([1.0, 0.5]), 2: np.array([2, 7]), 3: np.array([-3.0, 0.25]), 4: np.array([4.0, 4.5]),
          5: np.array([5, -5])}
INT_SCALARS = {"c"}  # names whose scalar value is a Python int (the others are floats)
LIST_VECTORS = {"g"}  # names whose vector value is given as a Python list (the others are ndarrays)


def build(name, kind, val):
    """The real value carrying the specification's value id `val` with the shape of `kind`.
    All numbers are exactly representable, so equality after a round trip is exact."""
    v = float(val)
    if kind == "scalar":
        return int(val) if name in INT_SCALARS else v + 0.5
    if kind == "size1":
        return np.array([v + 0.25])
    if kind == "vector":
        return [v, -v, v + 0.125] if name in LIST_VECTORS else np.array([v, -v, v + 0.125])
    if kind == "matrix":
        return np.array([[v, 1.0, 2.0], [-v, 0.5, v + 0.75]])
    raise ValueError(kind)


def _int_or_raw(x):
    x = float(x)
    return int(x) if x == int(x) and abs(x) < 2**31 else x


def abstract(value):
    """(kind, val) of a real value; a value that is none of the shapes built above is returned raw."""
    if isinstance(value, (np.ndarray, list)):
        a = np.asarray(value)
        if a.ndim == 1 and a.shape == (1,):
            kind, val = "size1", _int_or_raw(a[0] - 0.25)
        elif a.ndim == 1 and a.shape == (3,):
            kind, val = "vector", _int_or_raw(a[0])
        elif a.ndim == 2 and a.shape == (2, 3):
            kind, val = "matrix", _int_or_raw(a[0, 0])
        else:
            return ("array" + str(a.shape), a.tolist())
        if not isinstance(val, int) or not np.array_equal(a, build("", kind, val)):
            return (kind, a.tolist())
        return (kind, val)
    a = np.asarray(value)
    if a.ndim != 0 or a.dtype.kind not in "fiu":
        return (f"{type(value).__name__}{a.shape}", a.tolist())
    x = float(a)
    if x == int(x):
        return ("scalar", int(x))  # an int scalar (name in INT_SCALARS)
    return ("scalar", _int_or_raw(x - 0.5))


def key_id(x):
    a = np.asarray(x)
    for k, p in POINTS.items():
        if a.shape == p.shape and np.array_equal(a, p) and a.dtype.kind == p.dtype.kind:
            return k
    return ("?", a.tolist(), str(a.dtype))


def project_db(database):
    """real Database -> [(key id, {name: (kind, val)})] in storage order."""
    out = []
    for x, outputs in database.items():
        out.append((key_id(x.wrapped_array), {n: abstract(v) for n, v in outputs.items()}))
    return out


def spec_db(state_db):
    """the specification's db -> the same shape as project_db."""
    out = []
    for e in as_seq(state_db):
        outs = e["outs"]
        outs = {} if isinstance(outs, tuple) else outs
        out.append((e["key"], {str(n): (r["kind"], r["val"]) for n, r in outs.items()}))
    return out


def as_seq(x):
    if isinstance(x, tuple):
        return list(x)
    if isinstance(x, dict):
        return [x[i] for i in sorted(x)]
    raise TypeError(x)


def as_map(x):
    """a TLA+ function with integer domain as printed by TLC (tuple when the domain is 1..n)."""
    if isinstance(x, tuple):
        return {i + 1: v for i, v in enumerate(x)}
    return dict(x)


def spec_file(state_file):
    out = {}
    for i, fe in as_map(state_file).items():
        out[i] = (fe["x"], tuple(fe["k"]), tuple(fe["v"]),
                  frozenset((a["idx"], a["kind"], a["val"]) for a in fe["arr"]))
    return out


def read_layout(path, node):
    """The raw layout of the file, in the vocabulary of HDFStoreImpl.file."""
    import h5py

    with h5py.File(path, "r") as f:
        g = f[node] if node else f
        xs, ks, vs = g["x"], g["k"], g["v"]
        out = {}
        seen_k, seen_v = set(), set()
        for name in xs:
            i = int(name)
            x = key_id(np.array(xs[name]))
            k = None
            if name in ks:
                seen_k.add(name)
                k = tuple(s.decode() if isinstance(s, bytes) else str(s) for s in ks[name][()])
            v = ()
            if name in vs:
                seen_v.add(name)
                v = tuple(abstract(t)[1] for t in vs[name][()])
            arr = frozenset()
            if f"arr_{i}" in vs:
                seen_v.add(f"arr_{i}")
                arr = frozenset((int(n),) + tuple(abstract(np.array(d))) for n, d in vs[f"arr_{i}"].items())
            out[i + 1] = (x, k, v, arr)
        stray = sorted(set(ks) - seen_k) + sorted(set(vs) - seen_v)
        if stray:
            out["stray"] = stray
        return out


# ----------------------------------------------------------------------------- problems (projection)

def project_ds(space):
    """DesignSpace -> [(name, size, type, lower bounds, upper bounds, current value | None)]."""
    out = []
    for name in space.variable_names:
        cur = space._current_value.get(name)  # the variables that have a current value
        out.append((name, int(space.get_size(name)), str(space.get_type(name)),
                    [float(v) for v in space.get_lower_bound(name)],
                    [float(v) for v in space.get_upper_bound(name)],
                    None if cur is None else [float(np.real(v)) for v in cur]))
    return out


def _plain(v):
    if isinstance(v, np.ndarray):
        return v.tolist()
    if isinstance(v, (np.floating, np.integer, np.bool_)):
        return v.item()
    if isinstance(v, dict):
        return {str(k): _plain(x) for k, x in v.items() if x is not None}
    if isinstance(v, (list, tuple)):
        return [_plain(x) for x in v]
    if isinstance(v, str):
        return str(v)
    return v


def project_function(f):
    return {k: _plain(v) for k, v in f.to_dict().items()}


def project_problem(problem):
    """What C11 says must survive OptimizationProblem.to_hdf / from_hdf, except the database."""
    sol = problem.solution
    return {
        "objective": project_function(problem.objective),
        # in the order in which the problem lists them: it is the order of the rows of the constraint vector
        # the drivers see (and of the observables in the database)
        "constraints": [[c.name, project_function(c)] for c in problem.constraints],
        "observables": [[c.name, project_function(c)] for c in problem.observables],
        "solution": None if sol is None else {k: _plain(v) for k, v in sol.to_dict().items() if v is not None},
        "settings": {"minimize_objective": bool(problem.minimize_objective),
                     "ineq_tolerance": float(problem.tolerances.inequality),
                     "eq_tolerance": float(problem.tolerances.equality),
                     "differentiation_step": float(problem.differentiation_step),
                     "differentiation_method": str(problem.differentiation_method),
                     "is_linear": bool(problem.is_linear)},
        "design_space": project_ds(problem.design_space),
    }


def problem_diffs(got, want):
    """the differences between two projected problems, as [(what, impl, spec)]: `what` names the part and,
    inside it, the fields (or, for the lists of functions: names / order / <function>.<fields>)"""
    out = []
    for part, w in want.items():
        g = got[part]
        if g == w:
            continue
        if part in ("constraints", "observables"):
            wn, gn = [n for n, _ in w], [n for n, _ in g]
            if sorted(wn) != sorted(gn):
                out.append((part + ":names", gn, wn))
                continue
            if wn != gn:
                out.append((part + ":order", gn, wn))
            gd = dict(map(tuple, g))
            for n, d in w:
                if gd[n] != d:
                    fields = ",".join(sorted(k for k in set(d) | set(gd[n]) if d.get(k) != gd[n].get(k)))
                    out.append((f"{part}:{n}.{fields}", gd[n], d))
        elif isinstance(w, dict) and isinstance(g, dict):
            out.append((part + ":" + ",".join(sorted(k for k in set(w) | set(g) if w.get(k) != g.get(k))), g, w))
        else:
            out.append((part, g, w))
    return out


def problem_text(variant):
    """the alphabet of the names and expressions of the problem's functions"""
    return "non_ascii" if variant % 8 >= 4 else "ascii"


def make_problem(database=None, variant=0):
    """A problem around `database` with an objective, constraints, observables and a solution.
    variant: with / without a solution (bit 0), a namespaced constraint name (bit 1), names and expressions with
    characters outside ASCII (bit 2), constraints and observables added in alphabetical order or not (bit 3)."""
    from gemseo.algos.design_space import DesignSpace
    from gemseo.algos.optimization_problem import OptimizationProblem
    from gemseo.algos.optimization_result import OptimizationResult
    from gemseo.core.mdo_functions.mdo_function import MDOFunction

    wide = problem_text(variant) == "non_ascii"
    space = DesignSpace()
    space.add_variable("x", 2, lower_bound=np.array([-10.0, -np.inf]), upper_bound=10.0, value=np.array([1.0, 0.5]))
    problem = OptimizationProblem(space, database=database)
    problem.objective = MDOFunction(lambda x: float(x @ x), "f", jac=lambda x: 2 * x,
                                    expr="\u2016x\u2016\u00b2 = x\u1d40x" if wide else "x'x", input_names=["x"], dim=1)
    # a namespaced constraint name (":" is the namespace separator) in half of the variants with a solution
    g = "ns:g" if variant % 4 >= 2 else "g"
    constraints = [
        (MDOFunction(lambda x: x[:1] - 1, g, expr="x[0]-1", input_names=["x"], dim=1), {"constraint_type": "ineq"}),
        (MDOFunction(lambda x: x[1:] - 0.5, "c", expr="x[1]\u2212\u00bd" if wide else "x[1]-0.5", input_names=["x"], dim=1),
         {"constraint_type": "eq", "value": 0.25})]
    observables = [MDOFunction(lambda x: x.sum(), "obs_\u03b7" if wide else "obj", input_names=["x"], dim=1),
                   MDOFunction(lambda x: x.prod(), "aux", input_names=["x"], dim=1)]
    if variant % 16 >= 8:
        constraints.sort(key=lambda c: c[0].name)
        observables.sort(key=lambda f: f.name)
    for function, options in constraints:
        problem.add_constraint(function, **options)
    for function in observables:
        problem.add_observable(function)
    problem.tolerances.inequality = 0.0078125
    problem.tolerances.equality = 0.03125
    problem.differentiation_step = 0.001953125
    if variant % 2 == 0:
        problem.solution = OptimizationResult(
            x_0=np.array([1.0, 0.5]), x_opt=np.array([0.25, 0.5]), f_opt=0.3125, status=0, message="done",
            n_obj_call=3, n_grad_call=2, n_constr_call=3, is_feasible=True, optimizer_name="harness",
            constraint_values={g: np.array([-0.75])}, constraints_grad={g: np.array([[1.0, 0.0]])},
            x_0_as_dict={"x": np.array([1.0, 0.5])}, x_opt_as_dict={"x": np.array([0.25, 0.5])}, optimum_index=2)
    return problem


# ----------------------------------------------------------------------------- tours

IO_ACTIONS = ("Export", "Reload", "Update", "UpdateFrom", "ExportProblem", "ReloadProblem")


def canon(x):
    """a text that identifies a parsed TLA+ value independently of set / dict iteration order"""
    if isinstance(x, dict):
        return "[" + ",".join(sorted(f"{canon(k)}:{canon(v)}" for k, v in x.items())) + "]"
    if isinstance(x, (set, frozenset)):
        return "{" + ",".join(sorted(canon(v) for v in x)) + "}"
    if isinstance(x, (tuple, list)):
        return "<" + ",".join(canon(v) for v in x) + ">"
    return repr(x)


def canonicalise(g):
    """TLC numbers the states by fingerprints drawn from a random polynomial and writes the edges in the
    order its workers found them: re-order the graph by the content of states and labels, so that the walks
    (and the sampled ones) are the same for a given VERIF_SEED."""
    key = {sid: canon(st) for sid, st in g.states.items()}
    g.edges.sort(key=lambda e: (key[e[0]], e[2], canon(e[3]), key[e[1]]))
    g.out = {}
    for k, e in enumerate(g.edges):
        g.out.setdefault(e[0], []).append(k)
    g.init.sort(key=key.get)
    g.canon = key
    return g


class Tour:
    """Transition tour of a state graph (harness.core.Graph): long walks that together cover every edge.
    When the walk has no uncovered edge to take it moves (along covered edges) to the nearest state that
    has one; a walk is cut at max_len and the next one restarts from the initial state."""

    def __init__(self, graph):
        self.g = graph
        self.par = graph.bfs_tree()

    def shortest(self, sid):
        return self.g.path_to(sid, self.par)

    def _nearest(self, start, uncovered_at):
        """edge path from start to the nearest state with an uncovered out-edge (None if none reachable)."""
        if uncovered_at.get(start):
            return []
        prev = {start: None}
        q = deque([start])
        while q:
            s = q.popleft()
            for k in self.g.out.get(s, ()):
                d = self.g.edges[k][1]
                if d in prev:
                    continue
                prev[d] = k
                if uncovered_at.get(d):
                    p = []
                    while prev[d] is not None:
                        p.append(prev[d])
                        d = self.g.edges[prev[d]][0]
                    p.reverse()
                    return p
                q.append(d)
        return None

    def walks(self, max_len, want=lambda edge: True, budget=None, rng=None):
        """budget: stop once that many wanted edges are covered (a sampled tour); rng shuffles the order in
        which the uncovered edges of a state are taken (deterministic for a seed)."""
        g = self.g
        uncovered_at: dict[str, list[int]] = {}
        n_want = 0
        for k, e in enumerate(g.edges):
            if e[0] in self.par and want(e):
                uncovered_at.setdefault(e[0], []).append(k)
                n_want += 1
        if rng is not None:
            for s in sorted(uncovered_at, key=lambda sid: getattr(g, "canon", {}).get(sid, sid)):
                rng.shuffle(uncovered_at[s])
        else:
            for lst in uncovered_at.values():
                lst.reverse()  # pop() then takes them in graph order
        init = g.init[0]
        paths = []
        done = 0
        while n_want - done > 0 and (budget is None or done < budget):
            path = []
            cur = init
            while len(path) < max_len:
                lst = uncovered_at.get(cur)
                if lst:
                    k = lst.pop()
                    path.append(k)
                    done += 1
                    cur = g.edges[k][1]
                    continue
                hop = self._nearest(cur, uncovered_at)
                if hop is None:
                    break  # nothing left to cover from here: restart from the initial state (or finished)
                if path and len(path) + len(hop) + 1 > max_len:
                    break
                path += hop
                cur = g.edges[hop[-1]][1]
            if not path:
                break
            paths.append(path)
        return paths, done, n_want


# ----------------------------------------------------------------------------- replay of one walk

def edge_label(act, args):
    """the TLA+ text of a transition, e.g. Store(1,{"@f", "f"}) (parsed back by core.parse_action_label)"""
    from ..tlaval import to_tla

    return act + ("(" + ",".join(to_tla(a) for a in args) + ")" if args else "")


def find_walk(graph, labels):
    """edge ids of the walk from the initial state whose transitions have these labels"""
    from ..core import parse_action_label

    cur = graph.init[0]
    walk = []
    for lab in labels:
        act, args = parse_action_label(lab)
        k = next((k for k in graph.out.get(cur, ()) if graph.edges[k][2] == act and graph.edges[k][3] == args), None)
        if k is None:
            raise ValueError(f"no transition {lab} from the state reached after {len(walk)} steps")
        walk.append(k)
        cur = graph.edges[k][1]
    return walk


def op_name(act, args):
    if act in ("Export", "ExportProblem"):
        return f"{act}({'append' if args[0] else 'full'})"
    return act


class Replayer:
    """Steps a real Database (and real HDF5 files) through one walk of the HDFStoreImpl graph."""

    def __init__(self, graph, workdir, tag, node, with_problem=False, variant=0):
        self.with_problem = with_problem
        self.variant = variant
        self.g = graph
        self.workdir = Path(workdir)
        self.tag = tag
        self.node = node
        self.path = self.workdir / f"{tag}.h5"
        self.full = self.workdir / f"{tag}-full.h5"
        self.other = self.workdir / f"{tag}-other.h5"  # the file of another database (UpdateFrom)
        self.n_foreign = 0
        self.merges = []      # what the other files read between two append exports to a non-empty file brought
        self._merging = []
        self.viol = []
        self.soft = []
        self.soft_seen = set()
        self.n_exports = 0
        self.n_reloads = 0

    def cleanup(self):
        for p in (self.path, self.full, self.other):
            if p.exists():
                os.remove(p)

    def fail(self, clause, what, ops, detail):
        self.viol.append({"clause": clause, "what": what, "ops": list(ops), "detail": detail})

    def guard(self, clause, ops, fn, *a, **k):
        try:
            return True, fn(*a, **k)
        except Exception as ex:  # noqa: BLE001 - an exception on an operation the specification allows
            self.fail(clause, "exception:" + type(ex).__name__, ops,
                      {"exception": repr(ex), "traceback": traceback.format_exc(limit=5)})
            return False, None

    @staticmethod
    def diff_db(real, spec):
        """first difference between two projected databases, as (what, detail)."""
        if [k for k, _ in real] != [k for k, _ in spec]:
            return "keys", {"impl": [k for k, _ in real], "spec": [k for k, _ in spec]}
        for (k, ro), (_, so) in zip(real, spec):
            if set(ro) != set(so):
                return "names", {"key": k, "impl": sorted(ro), "spec": sorted(so)}
            for n in so:
                if ro[n][0] != so[n][0]:
                    return "kind", {"key": k, "name": n, "impl": ro[n], "spec": so[n]}
                if ro[n][1] != so[n][1]:
                    return "value", {"key": k, "name": n, "impl": ro[n], "spec": so[n]}
        return None

    def check_file(self, clause_prefix, ops, state, database):
        """after an export: (a) reload and compare with the specification's db (= Decode(file), checked
        by TLC) and with the in-memory database, (b) raw layout against the specification's file."""
        from gemseo.algos.database import Database

        want_db = spec_db(state["db"])
        ok, back = self.guard("RoundTrip", ops, Database.from_hdf, self.path, hdf_node_path=self.node)
        if not ok:
            return False
        self.n_reloads += 1
        got = project_db(back)
        d = self.diff_db(got, want_db)
        if d:
            self.fail("RoundTrip", d[0], ops, dict(d[1], reloaded=got, spec_db=want_db))
            return False
        d = self.diff_db(got, project_db(database))
        if d:
            self.fail("RoundTrip", "memory:" + d[0], ops, d[1])
            return False
        ok, lay = self.guard("ImplLayout", ops, read_layout, self.path, self.node)
        if not ok:
            return False
        want = spec_file(state["file"])
        if lay != want:
            bad = sorted(str(i) for i in set(lay) | set(want) if lay.get(i) != want.get(i))
            i = next(i for i in list(want) + list(lay) if str(i) == bad[0])
            what = "entries"
            if i in lay and i in want and i != "stray":
                what = next(f for f, a, b in zip(("x", "k", "v", "arr"), lay[i], want[i]) if a != b)
            self.fail("ImplLayout", what, ops, {"entry": bad[0], "impl": lay.get(i), "spec": want.get(i)})
            return False
        if self.with_problem and state["descr"]:
            return self.check_problem(ops)
        return True

    def check_problem(self, ops, loaded=None):
        """the description in the file reloads to the description of the working problem."""
        from gemseo.algos.optimization_problem import OptimizationProblem

        if loaded is None:
            ok, loaded = self.guard("ProblemRoundTrip", ops, OptimizationProblem.from_hdf, self.path,
                                    hdf_node_path=self.node)
            if not ok:
                return False
        ok, got = self.guard("ProblemRoundTrip", ops, project_problem, loaded)
        if not ok:
            return False
        # a difference in the description does not disturb the database: the walk goes on, and each kind
        # of difference is reported once per walk (with the history at which it first showed)
        for what, impl, spec in problem_diffs(got, self.reference):
            if what not in self.soft_seen:
                self.soft_seen.add(what)
                self.soft.append({"clause": "ProblemRoundTrip", "what": what, "ops": list(ops),
                                  "text": problem_text(self.variant), "detail": {"impl": impl, "spec": spec}})
        return True

    def run(self, edge_ids, final=True):
        """returns the number of steps performed; stops at the first violation."""
        from gemseo.algos.database import Database

        g = self.g
        if self.with_problem:
            from gemseo.algos.optimization_problem import OptimizationProblem

            problem = make_problem(variant=self.variant)
            database = problem.database
            self.reference = project_problem(problem)  # abstract object: what the file must give back
        else:
            database = Database()
        ops = []
        state = g.states[g.init[0]]
        steps = 0
        for k in edge_ids:
            src, dst, act, args = g.edges[k]
            self._src = src
            state = g.states[dst]
            ops.append(op_name(act, args))
            if act in ("Store", "StoreMore"):
                key, names = args
                pos = [e["key"] for e in as_seq(state["db"])].index(key)
                outs_spec = as_seq(state["db"])[pos]["outs"]
                outputs = {}
                for n in sorted(names, reverse=True):  # insertion order deliberately not sorted
                    outputs[str(n)] = build(str(n), outs_spec[n]["kind"], outs_spec[n]["val"])
                ok, _ = self.guard("Store", ops, database.store, POINTS[key].copy(), outputs)
            elif act == "Export":
                ok, _ = self.guard("RoundTrip", ops, database.to_hdf, self.path, append=bool(args[0]),
                                   hdf_node_path=self.node)
                if ok:
                    self.n_exports += 1
                    ok = self.check_file("RoundTrip", ops, state, database)
            elif act == "ExportProblem":
                ok, _ = self.guard("ProblemRoundTrip", ops, problem.to_hdf, self.path, append=bool(args[0]),
                                   hdf_node_path=self.node)
                if ok:
                    self.n_exports += 1
                    ok = self.check_file("RoundTrip", ops, state, database)
            elif act == "ReloadProblem":
                ok, new = self.guard("ProblemRoundTrip", ops, OptimizationProblem.from_hdf, self.path,
                                     hdf_node_path=self.node)
                if ok:
                    self.n_reloads += 1
                    problem, database = new, new.database
                    ok = self.check_problem(ops, loaded=new)
            elif act == "Reload":
                ok, new = self.guard("RoundTrip", ops, Database.from_hdf, self.path, hdf_node_path=self.node)
                if ok:
                    self.n_reloads += 1
                    database = new
                    if self.with_problem:
                        problem = make_problem(database=new, variant=self.variant)
            elif act == "Update":
                ok, _ = self.guard("RoundTrip", ops, database.update_from_hdf, self.path, hdf_node_path=self.node)
                if ok:
                    self.n_reloads += 1
            elif act == "UpdateFrom":
                # another file, written by another database whose content is the action's parameter
                # (written by gemseo too: an exception there is an export that failed)
                ok, brought = self.guard("RoundTrip", ops + ["ExportOfTheOtherDatabase"], self.write_other, args[0], state)
                if ok:
                    ops[-1] = "UpdateFrom(" + brought + ")"
                    before = g.states[src]
                    if before["exists"] and len(as_map(before["file"])) > 0:
                        self._merging.append(brought)
                    ok, _ = self.guard("RoundTrip", ops, database.update_from_hdf, self.other, hdf_node_path=self.node)
                if ok:
                    self.n_reloads += 1
            else:
                raise RuntimeError(f"unknown action {act}")
            if not ok:
                return steps, state
            steps += 1
            if act in ("Export", "ExportProblem"):
                if args[0]:
                    self.merges += self._merging
                self._merging = []
            elif act in ("Reload", "ReloadProblem"):
                self._merging = []
            d = self.diff_db(project_db(database), spec_db(state["db"]))
            if d:
                clause = "Store" if act in ("Store", "StoreMore") else "RoundTrip"
                self.fail(clause, "memory:" + d[0], ops, d[1])
                return steps, state
        if final and steps:
            self.final_check(ops, state, database)
        return steps, state

    def write_other(self, d, state):
        """d = <<<<key, names>>, ...>>: a new Database with these entries (values: those of the destination
        state, i.e. Val(key, name) with the kind of the name) written to the other file -- by one full
        export, or incrementally (an append export after every store), alternately.  Returns what the file
        brings to the working database's file, for the signature: new points / new outputs / nothing."""
        from gemseo.algos.database import Database

        src = {e["key"]: e for e in as_seq(self.g.states[self._src]["db"])}
        dst = {e["key"]: e for e in as_seq(state["db"])}
        if self.other.exists():
            os.remove(self.other)
        self.n_foreign += 1
        incremental = (self.variant + self.n_foreign) % 2 == 1
        foreign = Database()
        brings = set()
        for key, names in d:
            outs_spec = dst[key]["outs"]
            outputs = {str(n): build(str(n), outs_spec[n]["kind"], outs_spec[n]["val"]) for n in sorted(names, reverse=True)}
            foreign.store(POINTS[key].copy(), outputs)
            if key not in src:
                brings.add("points")
            elif set(map(str, names)) - set(map(str, () if isinstance(src[key]["outs"], tuple) else src[key]["outs"])):
                brings.add("outputs")
            if incremental:
                foreign.to_hdf(self.other, append=True, hdf_node_path=self.node)
        if not incremental:
            foreign.to_hdf(self.other, append=False, hdf_node_path=self.node)
        return "+".join(sorted(brings)) or "nothing"

    def final_check(self, ops, state, database):
        """AppendEqualsFull: one more append export of the walk's file against one full export of the same
        database into a new file; both must reload to the specification's db."""
        from gemseo.algos.database import Database

        want_db = spec_db(state["db"])
        self.merges += self._merging
        self._merging = []
        ops = ops + ["Export(append)", "FullExport"]
        ok, _ = self.guard("AppendEqualsFull", ops, database.to_hdf, self.path, append=True, hdf_node_path=self.node)
        if not ok:
            return
        ok, _ = self.guard("AppendEqualsFull", ops, database.to_hdf, self.full, append=False, hdf_node_path=self.node)
        if not ok:
            return
        self.n_exports += 2
        ok, a = self.guard("AppendEqualsFull", ops, Database.from_hdf, self.path, hdf_node_path=self.node)
        if not ok:
            return
        ok, b = self.guard("AppendEqualsFull", ops, Database.from_hdf, self.full, hdf_node_path=self.node)
        if not ok:
            return
        self.n_reloads += 2
        pa, pb = project_db(a), project_db(b)
        d = self.diff_db(pa, pb)
        if d:
            self.fail("AppendEqualsFull", d[0], ops, dict(d[1], appended=pa, full=pb))
            return
        d = self.diff_db(pb, want_db)
        if d:
            self.fail("AppendEqualsFull", "full:" + d[0], ops, dict(d[1], full=pb, spec_db=want_db))


# ----------------------------------------------------------------------------- worker (forked)

_G = None  # the graph, inherited by the forked workers
_TOUR = None


def set_graph(graph):
    global _G, _TOUR
    _G = graph
    _TOUR = Tour(graph)


def run_walk(job):
    """job = (index, edge ids, node, workdir).  Returns a summary; on a violation the shortest history
    reaching the failing transition is replayed too and reported when it fails as well (minimisation)."""
    import logging
    import warnings

    logging.disable(logging.CRITICAL)
    warnings.filterwarnings("ignore")
    idx, edge_ids, node, workdir, with_problem = job
    r = Replayer(_G, workdir, f"w{idx}", node, with_problem, variant=idx // 2)
    try:
        steps, _ = r.run(edge_ids)
    finally:
        r.cleanup()
    viol = r.viol
    failing = list(edge_ids[:steps + 1])
    if viol and steps < len(edge_ids):
        k = edge_ids[steps]
        short = _TOUR.shortest(_G.edges[k][0]) + [k]
        if len(short) < steps + 1:
            r2 = Replayer(_G, workdir, f"w{idx}m", node, with_problem, variant=idx // 2)
            try:
                r2.run(short, final=False)
            finally:
                r2.cleanup()
            if r2.viol:
                viol = r2.viol
                failing = short
                for v in viol:
                    v["detail"]["minimised_from_walk_of"] = len(edge_ids)
    for v in viol:
        v["detail"]["steps"] = [edge_label(_G.edges[k][2], _G.edges[k][3]) for k in failing]
    for v in r.soft:
        n = len(v["ops"])
        v["detail"]["steps"] = [edge_label(_G.edges[k][2], _G.edges[k][3]) for k in edge_ids[:n]]
    viol = viol + r.soft
    for v in viol:
        v["node"] = "nested" if node else "root"
        v["detail"]["variant"] = idx // 2
        v["detail"]["node"] = node or "(root)"
    return {"idx": idx, "steps": steps, "len": len(edge_ids), "exports": r.n_exports, "reloads": r.n_reloads,
            "viol": viol, "merges": r.merges}
