"""C05 - discipline caches are transparent.

Specifications: specs/DiscCache.tla (the property: history of body runs, last return, clauses),
specs/DiscCacheImpl.tla (the caches as coded: entry table, storage by copy/by reference, hash index,
discipline Jacobian state; must satisfy the clauses), specs/DiscCacheTrace.tla (clauses evaluated by TLC
on what the real objects returned).

Binding
  spec -> code : the labelled state graph of DiscCacheImpl (one per cache kind x tolerance) is covered by a
                 transition tour; every path is executed on a real harness discipline with the real cache
                 (HDF5 files under ck.work), with the caller's arrays passed by reference and edited in
                 place where the path says MutateCell; after every step the returned outputs/Jacobian
                 (translated to "which lattice point's value", with an uncached twin as value table), the
                 body counters and the entries shown by the cache API are compared with the state the
                 specification computed (conformance to the implementation-shaped model).
  code -> spec : every executed path is also a recorded trace; DiscCacheTrace feeds the observed returns
                 into the property layer and TLC evaluates the clauses (TransparentOut, TransparentJac,
                 AtMostOnce, SimpleKeepsLast, ReopenSame, Uncached) in every state.  A VIOLATION is a clause
                 refuted by TLC on an observed trace; a mere difference with DiscCacheImpl that the
                 property allows is counted as drift and is not an alarm.
  classification: the rules of the code that TLC refutes at specification level (storage by reference in
                 the local-memory cache, tolerance-merge in SimpleCache) are kept as switches of
                 DiscCacheImpl; a violating trace whose returns are exactly those of such a variant is
                 tagged explained_by=<variant> (that is what the known-finding entries match).
"""
from __future__ import annotations

import json
import random
import re

from ..core import Check, Graph, MachineryError, main, run_tlc
from ..tlaval import to_tla

CLAUSES = ["TransparentOut", "TransparentJac", "AtMostOnce", "SimpleKeepsLast", "ReopenSame", "Uncached"]
IMPL_INVS = CLAUSES + ["CallerCannotCorrupt", "Coherent", "DistinctInputs", "Complete", "ITypeOK"]
KINDS = ["none", "simple", "memShared", "memLocal", "hdf5"]
SCALE = 8
TOLN = 2  # tolerance = 2/8 = 0.25
LATTICES = {"Lattice3": (0, 2, 16), "Lattice4": (0, 2, 5, 16), "Lattice5": (0, 2, 5, 8, 12),
            "Lattice6": (0, 1, 2, 5, 8, 16)}
CELLS0 = {"c1": 1, "c2": 2}


def tla_set(xs):
    return "{" + ", ".join(to_tla(x) for x in xs) + "}"


def depth_of(b, kind, tol):
    return b.get("depth_for", {}).get((kind, tol), b["depth"])


def impl_cfg(kind, tol, b, *, ref=False, merge=False, inplace=False, collide=False, invariants=True, anymatch=False,
             selfupd=False, keyafter=False):
    s = (f'CONSTANTS Kind = "{kind}"\n Tol = {tol}\n Scale = {SCALE}\n XV <- {b["lattice"]}\n NZ = {b["nz"]}\n'
         f' Cells = {tla_set(sorted(CELLS0))}\n ZArgs = {tla_set(b["zargs"])}\n MaxDepth = {depth_of(b, kind, tol)}\n'
         f' RefIn = {to_tla(ref)}\n RefOut = {to_tla(ref)}\n SimpleMerge = {to_tla(merge)}\n'
         f' Inplace = {to_tla(inplace)}\n Collide = {to_tla(collide)}\n'
         f' LinModes = {tla_set([] if selfupd else b["linmodes"])}\n SelfUpd = {to_tla(selfupd)}\n'
         f' KeyAfterRun = {to_tla(keyafter)}\n'
         f' ExecFlags = {tla_set(b["execflags"])}\n LitXs = {tla_set(b["litxs"])}\n LinZArgs = {tla_set(b["linzargs"])}\n AnyMatch = {to_tla(anymatch)}\n'
         "INIT Init\nNEXT Next\nCONSTRAINT Bound\nCHECK_DEADLOCK FALSE\n")
    if invariants:
        # "clauses": only the clauses of the property (used to show which of them a refuted rule breaks)
        s += "".join(f"INVARIANT {i}\n" for i in (CLAUSES if invariants == "clauses" else IMPL_INVS))
    return s


def abstract_cfg(kind, tol, depth):
    return (f'CONSTANTS Kind = "{kind}"\n Tol = {tol}\n Scale = {SCALE}\n XV <- Lattice3\n NZ = 1\n'
            f' Cells = {{"c1"}}\n ZArgs = {{"omit"}}\n MaxDepth = {depth}\n'
            "INIT AInit\nNEXT ANext\nCONSTRAINT Bound\nCHECK_DEADLOCK FALSE\n"
            + "".join(f"INVARIANT {i}\n" for i in CLAUSES + ["TypeOK"]))


def trace_cfg(kind, tol, b):
    return (f'CONSTANTS Kind = "{kind}"\n Tol = {tol}\n Scale = {SCALE}\n XV <- {b["lattice"]}\n NZ = {b["nz"]}\n'
            f' Cells = {tla_set(sorted(CELLS0))}\n ZArgs = {tla_set(b["zargs"])}\n MaxDepth = 0\n'
            "INIT TInit\nNEXT TNext\nCONSTRAINT Reach\nPOSTCONDITION Accepted\nCHECK_DEADLOCK FALSE\n")


# ------------------------------------------------------------------ comparing an observation with a state

def _pt(v):
    return tuple(v)


def ret_differs(ev, ret):
    """Fields of the specification's ret that the call made observable, vs the observed event."""
    diffs = []

    def cmp(name, got, want):
        if got != want:
            diffs.append(f"{name}: impl {got} spec {want}")

    cmp("op", ev["op"], str(ret["op"]))
    cmp("x", _pt(ev["x"]), _pt(ret["x"]))
    cmp("ran", ev["ran"], ret["ran"])
    if ret["hasOut"]:
        cmp("src", _pt(ev["src"]), _pt(ret["src"]))
    if ev["op"] == "lin":
        cmp("req", ev["req"], ret["req"])
        cmp("jl", ev["jl"], ret["jl"])
        cmp("jsrc", _pt(ev["jsrc"]), _pt(ret["jsrc"]))
        cmp("lin", ev["lin"], ret["lin"])
    return diffs


def entries_differ(real, model):
    want = [{"in": _pt(e["in"]), "hasOut": e["hasOut"], "osrc": _pt(e["osrc"]) if e["hasOut"] else None,
             "jl": e["jl"], "jsrc": _pt(e["jsrc"]) if e["jl"] else None} for e in model]
    got = [{"in": _pt(e["in"]), "hasOut": e["hasOut"], "osrc": _pt(e["osrc"]) if e["hasOut"] else None,
            "jl": e["jl"], "jsrc": _pt(e["jsrc"]) if e["jl"] else None} for e in real]
    if got != want:
        return [f"entries: impl {got} spec {want}"]
    return []


CALLS = ("Execute", "ExecuteLit", "Linearize", "LinearizeLit")

_COV = re.compile(r"^<(\w+) line \d+, col \d+ to line \d+, col \d+ of module \w+(?: \([\d ]+\))?>: (\d+):(\d+)", re.M)


def tlc_checked(ck, module, cfg, need=(), **kw):
    """ck.tlc + vacuity check on action coverage (TLC appends the position of the sub-action to the
    coverage line of an action that is a quantified call: core's pattern does not match those)."""
    r = ck.tlc(module, cfg, **kw)
    cov = {}
    for m in _COV.finditer(r.out):
        cov[m.group(1)] = cov.get(m.group(1), 0) + int(m.group(3))
    for a in need:
        if not cov.get(a):
            raise MachineryError(f"vacuity: action {a} of {module} never taken")
    ck.tlc_runs[-1]["coverage"] = cov
    return r


def label(action, args):
    return f"{action}({', '.join(map(str, args))})" if args else action


# ------------------------------------------------------------------ replay of a tour (worker processes)

_GRAPHS = {}


def replay_job(job):
    """Executed in a worker process: steps real gemseo objects through a chunk of tour paths.
    -> {"traces": [...], "covered": [edge indices conforming], "exceptions": [...], "steps": n}"""
    import logging
    import traceback
    import warnings
    from pathlib import Path

    logging.disable(logging.CRITICAL)
    warnings.filterwarnings("ignore")
    from .c05_disc import Driver, World

    b = job["bounds"]
    kind, tol, inplace = job["kind"], job["tol"], job["inplace"]
    world = World(LATTICES[b["lattice"]], SCALE, b["nz"], fx=job.get("fx"))
    graph = _GRAPHS[job["config"]]  # parsed by the parent before the fork
    work = Path(job["work"])
    full_entries = kind in ("simple", "memLocal") or job["entries_every_step"]
    out = {"traces": [], "covered": set(), "exceptions": [], "problems": [], "steps": 0, "paths": 0,
           "differing": 0, "sample": None}
    drv = None
    out["colliding_lookups"] = 0
    out["cells_updated_by_body"] = 0
    undo = inject_collisions(world, job["hash_table"], out) if job.get("hash_table") else None
    try:
        _replay_paths(job, graph, world, work, kind, tol, inplace, full_entries, out)
    finally:
        if undo:
            undo()
    out["covered"] = sorted(out["covered"])
    return out


def inject_collisions(world, table, out):
    """Collision injection: xxh3_64 cannot be made to collide, so the branches of BaseFullCache that handle
    several entries under one hash are exercised with a test double of the hash library: the name
    ``hash_data`` used by the full caches is bound, in this worker process only, to the hash table H that
    the specification printed (same collisions in the model and in the implementation)."""
    import gemseo.caches._hdf5_file_singleton as m2
    import gemseo.caches.base_full_cache as m1

    real = m1.hash_data
    codes, points = {}, {}

    def fake(data):
        p = world.point_of_inputs(data)
        if p not in table:
            return real(data)
        code = codes.setdefault(table[p], len(codes) + 1)
        points.setdefault(code, set()).add(p)
        if len(points[code]) > 1:  # this hash value has been returned for another input as well
            out["colliding_lookups"] += 1
        return code

    saved = (m1.hash_data, m2.hash_data)
    m1.hash_data = m2.hash_data = fake

    def undo():
        m1.hash_data, m2.hash_data = saved

    return undo


def _replay_paths(job, graph, world, work, kind, tol, inplace, full_entries, out):
    from .c05_disc import Driver
    import traceback

    drv = None
    keep = set(random.Random(job["seed"]).sample(range(len(job["paths"])), min(job["keep_conforming"], len(job["paths"]))))
    for n, path in enumerate(job["paths"]):
        tid = job["first_id"] + n
        drv = Driver(world, kind, tol / SCALE, inplace, work, f"{job['tag']}", CELLS0, reuse=drv)
        labels, events, drift = [], [], None
        for pos, k in enumerate(path):
            _, dst, action, args = graph.edges[k]
            labels.append(label(action, args))
            try:
                ev, problem = drv.step(action, args)
            except Exception as ex:  # noqa: BLE001  (an exception of gemseo on an allowed operation)
                out["exceptions"].append({"id": tid, "labels": list(labels), "action": action,
                                          "exception": type(ex).__name__, "repr": repr(ex),
                                          "traceback": traceback.format_exc(limit=6)})
                drv = None  # do not reuse a cache left in an unknown state
                break
            events.append(ev)
            out["steps"] += 1
            if job["flavour"] == "selfupd" and ev.get("ran") and ev.get("c") != "lit" and ev["after"] != ev["x"][0]:
                out["cells_updated_by_body"] += 1
            if problem:
                out["problems"].append({"id": tid, "labels": list(labels), "action": action, "problem": problem})
            if drift is None:
                st = graph.states[dst]
                diffs = ret_differs(ev, st["ret"]) if action in CALLS else []
                if kind != "none":
                    last = pos == len(path) - 1
                    if full_entries or last or action in ("Reopen", "ClearCache", "SetCache", "MutateCell"):
                        diffs += entries_differ(drv.entries(), st["entries"])
                    n_e = drv.n_entries()
                    if n_e != len(st["entries"]):
                        diffs.append(f"len(cache): impl {n_e} spec {len(st['entries'])}")
                if diffs:
                    drift = {"step": len(events), "label": labels[-1], "diffs": diffs}
                else:
                    out["covered"].add(k)
        out["paths"] += 1
        out["differing"] += 1 if drift else 0
        trace = {"id": tid, "kind": kind, "tol": tol, "flavour": job["flavour"], "labels": labels, "events": events,
                 "drift": drift}
        if drift or n in keep:  # every differing trace, a seeded sample of the conforming ones
            out["traces"].append(trace)
        if out["sample"] is None and len(events) >= 3:
            out["sample"] = trace
    if drv is not None:
        drv.close()


def follow_variant(graph, index, trace):
    """Does the variant graph (a relation: several successors per label) contain a path with the labels of
    the observed trace that reproduces every observed return?"""
    cur = {graph.init[0]}
    for lab, ev in zip(trace["labels"], trace["events"]):
        nxt = set()
        for s in cur:
            for d in index.get((s, lab), ()):
                if ev["op"] not in ("exec", "lin") or not ret_differs(ev, graph.states[d]["ret"]):
                    nxt.add(d)
        if not nxt:
            return False
        cur = nxt
    return True


def slim(graph, fields):
    """Keep only the state variables the replay compares (the graphs of the thorough tier are large)."""
    for sid, st in graph.states.items():
        graph.states[sid] = {k: st[k] for k in fields}
    return graph


def edge_index(graph):
    idx = {}
    for s, d, a, args in graph.edges:
        idx.setdefault((s, label(a, args)), []).append(d)
    return idx


# ------------------------------------------------------------------ main

def bounds(ck):
    # TLCGet("level") <= depth: histories of depth-1 steps
    if ck.thorough:
        return {"lattice": "Lattice5", "nz": 2, "zargs": ["omit", "dflt", "alt"], "linzargs": ["omit"],
                "depth": 5, "linmodes": ["all", "sub"], "execflags": [True, False], "litxs": [1, 3]}
    return {"lattice": "Lattice4", "nz": 1, "zargs": ["omit", "dflt"], "linzargs": ["omit", "dflt"], "depth": 4,
            "linmodes": ["all", "sub"], "execflags": [True, False], "litxs": [1, 3]}


REQUIRED = ("Execute", "ExecuteLit", "Linearize", "LinearizeLit", "MutateCell", "SetDiff")


class TLCJobs:
    """Several TLC runs side by side (each -workers 1, own work directory); the bookkeeping of ck.tlc is
    done in the main thread when the results are collected."""

    def __init__(self, ck, parallel=6):
        self.ck = ck
        self.parallel = parallel
        self.jobs = []

    def add(self, key, module, cfg, *, need=(), expect_ok=True, count=True, **kw):
        self.jobs.append((key, module, cfg, need, expect_ok, count, kw))

    def run(self):
        from concurrent.futures import ThreadPoolExecutor

        ck = self.ck

        def one(j):
            key, module, cfg, need, expect_ok, count, kw = j
            return run_tlc(module, cfg, ck.work / f"tlc-{key}", workers=1, **kw)

        with ThreadPoolExecutor(self.parallel) as ex:
            results = list(ex.map(one, self.jobs))
        out = {}
        for (key, module, cfg, need, expect_ok, count, kw), r in zip(self.jobs, results):
            cov = {}
            for m in _COV.finditer(r.out):
                cov[m.group(1)] = cov.get(m.group(1), 0) + int(m.group(3))
            ck.tlc_runs.append({"module": module, "run": key, "distinct": r.distinct, "generated": r.generated,
                                "depth": r.depth, "wall_s": round(r.wall, 2), "coverage": cov})
            if r.error or (r.rc != 0 and not r.violated):
                raise MachineryError(f"TLC failed on {module} [{key}]: {r.error or r.out[-2000:]}")
            if count:
                ck.states += r.distinct
                ck.transitions += r.generated
            for a in need:
                if not cov.get(a):
                    raise MachineryError(f"vacuity: action {a} of {module} [{key}] never taken")
            if expect_ok and r.violated:
                raise MachineryError(f"specification {module} [{key}] violates {r.violated}:\n" + r.out[-3000:])
            out[key] = r
        self.jobs = []
        return out


def chunks(xs, n):
    return [xs[i:i + n] for i in range(0, len(xs), n)]


def run(ck: Check):
    import multiprocessing as mp
    import time
    from concurrent.futures import ProcessPoolExecutor

    rng = random.Random(ck.seed)
    b = bounds(ck)
    # (kind, tolerance numerator, hash collisions injected)
    configs = [(k, t, False, False) for k in KINDS for t in ((0,) if k == "none" else (0, TOLN))]
    if ck.thorough:
        # (not the local-memory cache: its known defect D4 is classified with collision-free variant graphs)
        configs += [(k, t, True, False) for k in ("memShared", "hdf5") for t in (0, TOLN)]
    else:
        configs += [("memShared", 0, True, False), ("hdf5", TOLN, True, False)]
    variant_defs = [("memLocal", 0, "byRef", {"ref": True}, (False, True)),
                    ("memLocal", TOLN, "byRef", {"ref": True}, (False, True)),
                    ("simple", TOLN, "simpleMerge", {"merge": True}, (False,))]

    # (kind, tol, False, True): the self-coupled flavour (SDisc: the body updates its input array in place,
    # x <- FX(x)); every cache kind, execution histories; the caller's cell holds FX(x) after a run, so the
    # tours contain "feed the output back" (x, FX(x), x) through the same cell, another cell and literals
    configs += [(k, 0, False, True) for k in KINDS]
    if ck.thorough:
        configs += [(k, TOLN, False, True) for k in KINDS if k != "none"]

    def name(c):
        return f"{c[0]}-{c[1]}" + ("-collide" if c[2] else "") + ("-selfupd" if c[3] else "")

    # ---- 1. TLC.  (a) the clauses alone: satisfiable, not vacuous (the most liberal system);
    #   (b) the implementation-shaped model satisfies every clause, exhaustively within the bounds, and
    #       the same run dumps its labelled state graph; (c) the rules of the code that are switches of
    #       the model: refuted by TLC, and their graph (no invariants) for classification
    jobs = TLCJobs(ck)
    needs = {}
    for kind, tol in (("memShared", TOLN), ("hdf5", 0), ("simple", 0), ("none", 0)):
        jobs.add(f"abs-{kind}-{tol}", "DiscCache", abstract_cfg(kind, tol, 5 if ck.thorough else 4), timeout=900,
                 need=("AExecute", "ALinearize", "AMutate"))
    for c in configs:
        kind, tol, collide, selfupd = c
        need = (REQUIRED if not selfupd else ("Execute", "ExecuteLit", "MutateCell")) \
            + (("ClearCache",) if kind != "none" else ()) + (("Reopen",) if kind == "hdf5" else ()) \
            + (("SetCache",) if kind in ("simple", "memShared", "memLocal") else ())
        # (vacuity is checked below on the edge labels of the dumped graph: -coverage slows large runs down)
        needs[c] = need
        jobs.add(f"impl-{name(c)}", "DiscCacheImpl", impl_cfg(kind, tol, b, collide=collide, selfupd=selfupd), coverage=False,
                 timeout=1700, dump=True)
    for kind, tol, vname, kw, flavours in variant_defs:
        for inplace in flavours:
            jobs.add(f"refute-{vname}-{tol}-{inplace}", "DiscCacheImpl",
                     impl_cfg(kind, tol, b, inplace=inplace, invariants="clauses", **kw),
                     expect_ok=False, count=False, coverage=False, timeout=900)
    # the seeded-change class: entry filed under the self-coupled input as it is after the run
    for kind in KINDS[1:]:
        jobs.add(f"refute-keyAfterRun-{kind}", "DiscCacheImpl",
                 impl_cfg(kind, 0, b, selfupd=True, keyafter=True, invariants="clauses"),
                 expect_ok=False, count=False, coverage=False, timeout=900)
    t0 = time.time()
    res = jobs.run()
    ck.extra["timing"] = {"tlc_models_s": round(time.time() - t0, 1)}
    variants = {}
    for kind, tol, vname, kw, flavours in variant_defs:
        for inplace in flavours:
            r = res[f"refute-{vname}-{tol}-{inplace}"]
            if not r.violated:
                raise MachineryError(f"variant {vname} ({kind}, tol {tol}) is not refuted by TLC: the switch is vacuous")
            ck.extra.setdefault("refuted_variants", []).append(
                {"variant": vname, "kind": kind, "tol": tol, "inplace": inplace, "violates": r.violated,
                 "counterexample": [a.split(" line")[0] for a, _ in r.counterexample()][1:]})
            variants[(kind, tol, inplace)] = (vname, kw, inplace)
            if len(flavours) == 1:  # the variant does not depend on the discipline flavour
                variants[(kind, tol, not inplace)] = variants[(kind, tol, inplace)]
    for kind in KINDS[1:]:
        r = res[f"refute-keyAfterRun-{kind}"]
        if not r.violated:
            raise MachineryError(f"rule keyAfterRun ({kind}) is not refuted by TLC: the self-coupled flavour is vacuous")
        ck.extra["refuted_variants"].append(
            {"variant": "keyAfterRun", "kind": kind, "tol": 0, "violates": r.violated,
             "counterexample": [a.split(" line")[0] for a, _ in r.counterexample()][1:]})
    variant_graphs = {}

    def variant_graph(kind, tol, flavour):
        """Graph of the refuted rule of (kind, tol), built on demand (only when a trace violates a clause)."""
        var = variants.get((kind, tol, flavour == "inplace"))
        if var is None or flavour == "selfupd":
            return None
        vname, kw, inplace = var
        key = (vname, tol, inplace)
        if key not in variant_graphs:
            jobs.add(f"graph-{vname}-{tol}-{inplace}", "DiscCacheImpl",
                     impl_cfg(kind, tol, b, inplace=inplace, invariants=False, anymatch=True, **kw),
                     count=False, coverage=False, timeout=1700, dump=True)
            jobs.run()
            vg = slim(Graph(ck.work / f"tlc-graph-{vname}-{tol}-{inplace}" / "DiscCacheImpl.dot"), ("ret",))
            variant_graphs[key] = (vname, vg, edge_index(vg))
        return variant_graphs[key]

    # ---- 2. spec -> code: transition tours executed on the real objects (worker processes).  The workers
    #         return every trace that differs from DiscCacheImpl somewhere and a seeded sample of the others.
    t0 = time.time()
    n_sample = 10000 if ck.thorough else 1500   # conforming traces kept per (configuration, flavour)
    graphs, rjobs, first_id = {}, [], 1
    for c in configs:
        kind, tol, collide, selfupd = c
        g = slim(Graph(ck.work / f"tlc-impl-{name(c)}" / "DiscCacheImpl.dot"), ("ret", "entries"))
        taken = {a for _, _, a, _ in g.edges}
        for a in needs[c]:
            if a not in taken:
                raise MachineryError(f"vacuity: action {a} of DiscCacheImpl [{name(c)}] never taken")
        # histories of at most depth-1 steps: all their states lie within the level bound of every graph
        # dumped with the same bound (the variant graphs used for classification included)
        steps = depth_of(b, kind, tol) - 1
        paths = [p for p in g.tour(max_len=steps) if len(p) <= steps]
        graphs[c] = (g, paths)
        _GRAPHS[c] = g
        table = None
        if collide:
            tabs = [v[1] for v in res[f"impl-{name(c)}"].printed() if isinstance(v, tuple) and v and v[0] == "HASH"]
            if not tabs:
                raise MachineryError("the specification did not print its hash table")
            table = {tuple(p): tuple(h) for p, h in tabs[0].items()}
            if len(set(table.values())) == len(table):
                raise MachineryError("collision injection requested but the hash table has no collision")
        fx = None
        if selfupd:
            tabs = [v[1] for v in res[f"impl-{name(c)}"].printed() if isinstance(v, tuple) and v and v[0] == "FX"]
            if not tabs:
                raise MachineryError("the specification did not print the state update FX")
            fx = {int(i): int(j) for i, j in (tabs[0].items() if isinstance(tabs[0], dict) else enumerate(tabs[0], 1))}
        for inplace, budget in plan(ck, kind, tol, collide, selfupd):
            sel = paths
            if budget is not None and len(paths) > budget:
                sel = [paths[i] for i in sorted(rng.sample(range(len(paths)), budget))]
            chs = chunks(sel, 250 if not ck.thorough else 2000)
            for ch in chs:
                rjobs.append({"config": c, "kind": kind, "tol": tol, "inplace": inplace, "paths": ch,
                              "bounds": b, "work": str(ck.work), "tag": f"{name(c)}-{len(rjobs)}",
                              "first_id": first_id, "entries_every_step": ck.thorough, "hash_table": table,
                              "fx": fx, "flavour": "selfupd" if selfupd else ("inplace" if inplace else "fresh"),
                              "seed": ck.seed * 100003 + len(rjobs), "keep_conforming": n_sample // len(chs) + 1})
                first_id += len(ch)
    ck.extra["timing"]["graphs_tours_s"] = round(time.time() - t0, 1)
    t0 = time.time()
    # longest jobs first (HDF5 files, manager-backed dictionaries)
    order = sorted(range(len(rjobs)), key=lambda i: {"hdf5": 0, "memShared": 1}.get(rjobs[i]["kind"], 2))
    with ProcessPoolExecutor(8, mp_context=mp.get_context("fork")) as ex:
        outs = list(ex.map(replay_job, [rjobs[i] for i in order]))
    routs = [None] * len(rjobs)
    for i, o in zip(order, outs):
        routs[i] = o
    ck.extra["timing"]["replay_s"] = round(time.time() - t0, 1)
    all_traces = {c: [] for c in configs}
    covered = {c: set() for c in configs}
    n_paths = {c: 0 for c in configs}
    n_differing = {c: 0 for c in configs}
    samples = {}
    exercised = {}
    n_steps = 0
    for job, out in zip(rjobs, routs):
        c = job["config"]
        exercised[c] = exercised.get(c, 0) + out["colliding_lookups"] + out["cells_updated_by_body"]
        n_paths[c] += out["paths"]
        n_differing[c] += out["differing"]
        if out["sample"] and c not in samples:
            samples[c] = out["sample"]
        sig = {"kind": job["kind"], "tolerance": "t" if job["tol"] else "0",
               "discipline": job["flavour"]}
        all_traces[c] += out["traces"]
        covered[c] |= set(out["covered"])
        n_steps += out["steps"]
        for e in out["exceptions"]:
            ck.violation("NoException", dict(sig, action=e["action"], exception=e["exception"]), e)
        for e in out["problems"]:
            ck.violation("BodyCalledOnce", dict(sig, action=e["action"]), e)
    for c in configs:  # vacuity of the two special set-ups: silent loss of the test double / of the in-place body
        if c[2] and not exercised.get(c):
            raise MachineryError(f"collision injection had no effect in {name(c)}: no hash value was shared by two inputs")
        if c[3] and not exercised.get(c):
            raise MachineryError(f"self-coupled flavour had no effect in {name(c)}: the body never updated a caller's array")
    ck.extra["colliding_hash_lookups"] = sum(v for c, v in exercised.items() if c[2])
    ck.extra["caller_arrays_updated_in_place_by_the_body"] = sum(v for c, v in exercised.items() if c[3])
    stats = {}
    for c in configs:
        g, paths = graphs[c]
        tr = all_traces[c]
        stats[name(c)] = {
            "states": len(g.states), "edges": len(g.edges), "tour_paths": len(paths), "paths_run": n_paths[c],
            "edges_conforming": len(covered[c]), "paths_differing": n_differing[c]}
        if c in samples:
            ck.sample({"config": name(c), "labels": samples[c]["labels"], "events": samples[c]["events"]}, limit=14)

    # ---- 3. code -> spec: the clauses evaluated by TLC on the recorded traces: every trace that differs from
    #         DiscCacheImpl somewhere, and the sample of the conforming ones (a conforming trace returns
    #         what the model returns, and TLC has shown that the model satisfies the clauses)
    validated = {}
    tjobs = []
    for c in configs:
        validated[c] = all_traces[c]
        for k, ch in enumerate(chunks(validated[c], 20000) or [[]]):
            f = ck.work / f"c05-traces-{name(c)}-{k}.json"
            f.write_text(json.dumps([{"id": t["id"], "events": t["events"]} for t in ch] or [{"id": 0, "events": []}]))
            jobs.add(f"trace-{name(c)}-{k}", "DiscCacheTrace", trace_cfg(c[0], c[1], b), timeout=1700, coverage=False,
                     env={"TRACE_FILE": str(f)})
            tjobs.append((c, f"trace-{name(c)}-{k}"))
    t0 = time.time()
    res = jobs.run()
    ck.extra["timing"]["tlc_traces_s"] = round(time.time() - t0, 1)
    n_viol = 0
    for c in configs:
        kind, tol, collide, selfupd = c
        reached, bad = {}, {}
        for cc, key in tjobs:
            if cc != c:
                continue
            for v in res[key].printed():
                if isinstance(v, tuple) and v and v[0] == "TRACE":
                    reached[v[1]] = (v[2], v[3])
                elif isinstance(v, tuple) and v and v[0] == "BAD":
                    bad.setdefault(v[1], []).append((v[2], str(v[3])))
        for t in validated[c]:
            if t["id"] not in reached:
                raise MachineryError(f"no verdict for trace {t['id']}")
            got, total = reached[t["id"]]
            if got != total:
                raise MachineryError(f"trace {t['id']} not consumed ({got}/{total}): recorder inconsistent: {t['labels']}")
            if t["id"] not in bad:
                continue
            if not t["drift"]:
                raise MachineryError(f"trace {t['id']} conforms to DiscCacheImpl and violates a clause: {t['labels']}")
            n_viol += 1
            step = min(s for s, _ in bad[t["id"]])
            clauses = sorted({cl for s, cl in bad[t["id"]] if s == step})
            var = None if collide else variant_graph(kind, tol, t["flavour"])
            explained = var[0] if var and follow_variant(var[1], var[2], t) else "none"
            for clause in clauses:
                ck.violation(clause, {"kind": kind, "tolerance": "t" if tol else "0",
                                      "discipline": t["flavour"],
                                      "explained_by": explained},
                             {"labels": t["labels"][:step], "events": t["events"][:step],
                              "first_difference_with_DiscCacheImpl": t["drift"], "collisions_injected": collide,
                              "lattice": list(LATTICES[b["lattice"]]), "scale": SCALE,
                              "tolerance": tol / SCALE})
    ck.traces = sum(n_paths.values())
    ck.extra["replay"] = stats
    ck.extra["paths_replayed"] = ck.traces
    ck.extra["steps_replayed"] = n_steps
    ck.extra["paths_replayed_with_collision_injection"] = sum(n_paths[c] for c in configs if c[2])
    ck.extra["paths_replayed_self_coupled_inplace"] = sum(n_paths[c] for c in configs if c[3])
    ck.extra["paths_differing_from_DiscCacheImpl"] = sum(s["paths_differing"] for s in stats.values())
    ck.extra["traces_validated_by_DiscCacheTrace"] = sum(len(v) for v in validated.values())
    ck.extra["traces_with_refuted_clause"] = n_viol
    ck.exhaustive = all(s["edges_conforming"] == s["edges"] for s in stats.values())
    ck.assumptions += [
        "tolerance relation: reference norm on either side accepted (the code uses the new input, the docstring the cached one)",
        "HDF5Cache.clear() is only offered on a non-empty cache (KeyError on a never-written node, D13, is outside the statement)",
        "linearize(execute=False) is only offered right after a call at the same input (its documented precondition)",
        "outputs/Jacobians are identified with lattice points through an uncached twin (value table of G and J)",
        "between two tour paths the cache object is emptied with clear() and reused (building a full cache costs 15-35 ms)",
        "self-coupled flavour (body updates its input array in place): execution histories only - linearize() re-reads the modified input array, with or without a cache",
        "collision injection: hash_data as imported by base_full_cache/_hdf5_file_singleton is replaced in the worker process by the specification's colliding hash table",
    ]

    # ---- specification growth (outside C05 as stated): the data protocol of Discipline.execute without a cache
    # (specs/DiscIO.tla); disagreements are OBSERVATIONS and never change the exit code
    from ..growth import g05_disc_io

    g05_disc_io.run(ck)


def plan(ck, kind, tol, collide=False, selfupd=False):
    """Discipline flavours (inplace?) and number of tour paths executed per configuration (None = the whole
    tour).  The whole tour on the cheap caches, a seeded sample on the caches that go through a manager
    process or an HDF5 file; quick tier: the buffer-reusing discipline only where a group could be kept by
    reference (SimpleCache, local-memory cache)."""
    if kind == "none":
        return [(False, None)]
    if selfupd:  # small graphs (execution histories): the whole tour but on the HDF5 files in the quick tier
        return [(False, None if ck.thorough or kind != "hdf5" else 600)]
    if ck.thorough:
        n = {"simple": None, "memLocal": None, "memShared": 15000, "hdf5": 8000}[kind]
        if collide:
            n = {"memShared": 8000, "hdf5": 4000}[kind]
        return [(False, n), (True, n)]
    if collide:
        return [(False, None if kind == "memShared" else 400)]
    if kind == "simple":
        return [(False, None), (True, None)]
    if kind == "memLocal":
        return [(False, None), (True, None)]
    if kind == "memShared":
        return [(False, 1200)]
    return [(False, 700)]


if __name__ == "__main__":
    main("C05", run)
