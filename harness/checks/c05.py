"""C05 - discipline caches are transparent.

Specifications: specs/DiscCache.tla (the property: history of body runs, last return, clauses),
specs/DiscCacheImpl.tla (the caches as coded: entry table, storage by copy/by reference, hash index,
discipline Jacobian state; must satisfy the clauses), specs/DiscCacheTrace.tla (clauses evaluated by TLC
on what the real objects returned).

Binding
  spec -> code : the labelled state graph of DiscCacheImpl (one per cache kind x tolerance) is covered by a
                 transition tour; every path is executed on a real harness discipline with the real cache
                 (HDF5 files under ck.work), with the caller's arrays passed by reference and edited in
                 place where the path says MutateCell; after every step the returned outputs/Jacobian
                 (translated to "which lattice point's value", with an uncached twin as value table), the
                 body counters and the entries shown by the cache API are compared with the state the
                 specification computed (conformance to the implementation-shaped model).
  code -> spec : every executed path is also a recorded trace; DiscCacheTrace feeds the observed returns
                 into the property layer and TLC evaluates the clauses (TransparentOut, TransparentJac,
                 AtMostOnce, SimpleKeepsLast, ReopenSame, Uncached) in every state.  A VIOLATION is a clause
                 refuted by TLC on an observed trace; a mere difference with DiscCacheImpl that the
                 property allows is counted as drift and is not an alarm.
  classification: the rules of the code that TLC refutes at specification level (storage by reference in
                 the local-memory cache, tolerance-merge in SimpleCache) are kept as switches of
                 DiscCacheImpl; a violating trace whose returns are exactly those of such a variant is
                 tagged explained_by=<variant> (that is what the known-finding entries match).
"""
from __future__ import annotations

import json
import os
import random
import re
from typing import NamedTuple

from ..core import Check, Graph, MachineryError, main, run_tlc
from ..tlaval import to_tla

CLAUSES = ["TransparentOut", "TransparentJac", "AtMostOnce", "SimpleKeepsLast", "ReopenSame", "Uncached",
           "CallerCannotCorrupt"]
IMPL_INVS = CLAUSES + ["StoredByCopy", "Coherent", "DistinctInputs", "Complete", "ITypeOK"]
KINDS = ["none", "simple", "memShared", "memLocal", "hdf5"]
FULL = ("memShared", "memLocal", "hdf5")
SCALE = 8
TOLN = 2  # tolerance = 2/8 = 0.25
LATTICES = {"Lattice3": (0, 2, 16), "Lattice4": (0, 2, 5, 16), "Lattice5": (0, 2, 5, 8, 12),
            "Lattice6": (0, 1, 2, 5, 8, 16)}
CELLS0 = {"c1": 1, "c2": 2}
# value kinds of the input "x" (DiscCache.tla): the main configurations use 1-D float arrays; the "kinds"
# configurations enumerate the others.  Containers (dict / list holding arrays) are data of a SimpleGrammar
# that no converter turns into an array: the full caches "require NumPy arrays" (base_discipline.py) and are
# not offered them.
VKINDS_ARRAYS = ["int", "complex", "mat", "str", "pystr"]
VKINDS_CONTAINERS = ["dict", "list"]


class Cfg(NamedTuple):
    """One configuration = one labelled state graph of DiscCacheImpl.
    flavour: std | collide (hash collisions injected) | selfupd (self-coupled input updated in place by the
    body) | kinds (value kinds of "x") | chain (process discipline, cache at chain level) | shadow (deeper
    histories on a small alphabet with a tolerance: Jacobian-only entries in the tolerance scan)"""
    kind: str
    tol: int
    flavour: str = "std"

    @property
    def name(self):
        return f"{self.kind}-{self.tol}" + ("" if self.flavour == "std" else f"-{self.flavour}")

    @property
    def vkinds(self):
        if self.flavour != "kinds":
            return ["float"]
        return VKINDS_ARRAYS + (VKINDS_CONTAINERS if self.kind in ("none", "simple") else [])

    @property
    def world_flavour(self):
        return self.flavour if self.flavour in ("selfupd", "kinds", "chain") else "std"

    @property
    def variants(self):
        """The refuted rules (switches of DiscCacheImpl) that can explain a violation in this configuration."""
        v = []
        if self.flavour == "selfupd":
            return v
        if self.flavour == "collide":  # (same hash table in the variant graph: Collide follows the flavour)
            return [("shadowScan", {"shadow": True})] if self.kind in FULL and self.tol else v
        if self.kind == "memLocal" and self.flavour == "std":
            v.append(("byRef", {"ref": True}))
        if self.kind == "simple" and self.tol and self.flavour == "std":
            v.append(("simpleMerge", {"merge": True}))
        if self.kind in FULL and self.tol:
            v.append(("shadowScan", {"shadow": True}))
        if self.flavour == "chain" and self.kind != "none":
            v.append(("staleMembers", {"stale": True}))
        return v


def cells_of(b):
    return sorted(b.get("cells", CELLS0))


def tla_set(xs):
    return "{" + ", ".join(to_tla(x) for x in xs) + "}"


def depth_of(b, kind, tol):
    return b.get("depth_for", {}).get((kind, tol), b["depth"])


def impl_cfg(cfg, b, *, ref=False, merge=False, inplace=False, shadow=False, stale=False, invariants=True,
             anymatch=False, keyafter=False):
    kind, tol = cfg.kind, cfg.tol
    selfupd = cfg.flavour == "selfupd"
    s = (f'CONSTANTS Kind = "{kind}"\n Tol = {tol}\n Scale = {SCALE}\n XV <- {b["lattice"]}\n NZ = {b["nz"]}\n'
         f' Cells = {tla_set(cells_of(b))}\n ZArgs = {tla_set(b["zargs"])}\n MaxDepth = {depth_of(b, kind, tol)}\n'
         f' VKinds = {tla_set(cfg.vkinds)}\n'
         f' RefIn = {to_tla(ref)}\n RefOut = {to_tla(ref)}\n SimpleMerge = {to_tla(merge)}\n'
         f' Inplace = {to_tla(inplace)}\n Collide = {to_tla(cfg.flavour == "collide")}\n'
         f' LinModes = {tla_set([] if selfupd else b["linmodes"])}\n SelfUpd = {to_tla(selfupd)}\n'
         f' KeyAfterRun = {to_tla(keyafter)}\n ShadowScan = {to_tla(shadow)}\n'
         f' Process = {to_tla(cfg.flavour == "chain")}\n StaleMembers = {to_tla(stale)}\n'
         f' Diff0 = {b.get("diff0", 0)}\n'
         f' ExecFlags = {tla_set(b["execflags"])}\n LitXs = {tla_set(b["litxs"])}\n LinZArgs = {tla_set(b["linzargs"])}\n AnyMatch = {to_tla(anymatch)}\n'
         "INIT Init\nNEXT Next\nCONSTRAINT Bound\nCHECK_DEADLOCK FALSE\n")
    if invariants:
        # "clauses": only the clauses of the property (used to show which of them a refuted rule breaks)
        s += "".join(f"INVARIANT {i}\n" for i in (CLAUSES if invariants == "clauses" else IMPL_INVS))
    return s


def abstract_cfg(kind, tol, depth, vkinds=("float",)):
    return (f'CONSTANTS Kind = "{kind}"\n Tol = {tol}\n Scale = {SCALE}\n XV <- Lattice3\n NZ = 1\n'
            f' Cells = {{"c1"}}\n ZArgs = {{"omit"}}\n MaxDepth = {depth}\n VKinds = {tla_set(vkinds)}\n'
            "INIT AInit\nNEXT ANext\nCONSTRAINT Bound\nCHECK_DEADLOCK FALSE\n"
            + "".join(f"INVARIANT {i}\n" for i in CLAUSES + ["TypeOK"]))


def trace_key(cfg, b):
    """The constants DiscCacheTrace depends on: the traces of the configurations that agree on them are
    validated by one TLC run (a trace carries its own value kind; cells it never uses are harmless)."""
    return (cfg.kind, cfg.tol, b["lattice"], b["nz"])


def trace_cfg(key, vkinds):
    kind, tol, lattice, nz = key
    return (f'CONSTANTS Kind = "{kind}"\n Tol = {tol}\n Scale = {SCALE}\n XV <- {lattice}\n NZ = {nz}\n'
            f' Cells = {tla_set(sorted(CELLS0))}\n ZArgs = {{"omit"}}\n MaxDepth = 0\n'
            f' VKinds = {tla_set(sorted(vkinds))}\n'
            "INIT TInit\nNEXT TNext\nCONSTRAINT Reach\nPOSTCONDITION Accepted\nCHECK_DEADLOCK FALSE\n")


# ------------------------------------------------------------------ comparing an observation with a state

def _pt(v):
    return tuple(v)


def ret_differs(ev, ret):
    """Fields of the specification's ret that the call made observable, vs the observed event."""
    diffs = []

    def cmp(name, got, want):
        if got != want:
            diffs.append(f"{name}: impl {got} spec {want}")

    cmp("op", ev["op"], str(ret["op"]))
    cmp("x", _pt(ev["x"]), _pt(ret["x"]))
    cmp("ran", ev["ran"], ret["ran"])
    if ret["hasOut"]:
        cmp("src", _pt(ev["src"]), _pt(ret["src"]))
    if ev["op"] == "lin":
        cmp("req", ev["req"], ret["req"])
        cmp("jl", ev["jl"], ret["jl"])
        cmp("jsrc", _pt(ev["jsrc"]), _pt(ret["jsrc"]))
        cmp("lin", ev["lin"], ret["lin"])
    return diffs


def entries_differ(real, model):
    want = [{"in": _pt(e["in"]), "hasOut": e["hasOut"], "osrc": _pt(e["osrc"]) if e["hasOut"] else None,
             "jl": e["jl"], "jsrc": _pt(e["jsrc"]) if e["jl"] else None} for e in model]
    got = [{"in": _pt(e["in"]), "hasOut": e["hasOut"], "osrc": _pt(e["osrc"]) if e["hasOut"] else None,
            "jl": e["jl"], "jsrc": _pt(e["jsrc"]) if e["jl"] else None} for e in real]
    if got != want:
        return [f"entries: impl {got} spec {want}"]
    return []


CALLS = ("Execute", "ExecuteLit", "Linearize", "LinearizeLit")

_COV = re.compile(r"^<(\w+) line \d+, col \d+ to line \d+, col \d+ of module \w+(?: \([\d ]+\))?>: (\d+):(\d+)", re.M)


def tlc_checked(ck, module, cfg, need=(), **kw):
    """ck.tlc + vacuity check on action coverage (TLC appends the position of the sub-action to the
    coverage line of an action that is a quantified call: core's pattern does not match those)."""
    r = ck.tlc(module, cfg, **kw)
    cov = {}
    for m in _COV.finditer(r.out):
        cov[m.group(1)] = cov.get(m.group(1), 0) + int(m.group(3))
    for a in need:
        if not cov.get(a):
            raise MachineryError(f"vacuity: action {a} of {module} never taken")
    ck.tlc_runs[-1]["coverage"] = cov
    return r


def label(action, args):
    return f"{action}({', '.join(map(str, args))})" if args else action


# ------------------------------------------------------------------ replay of a tour (worker processes)

_GRAPHS = {}


def replay_job(job):
    """Executed in a worker process: steps real gemseo objects through a chunk of tour paths.
    -> {"traces": [...], "covered": [edge indices conforming], "exceptions": [...], "steps": n}"""
    import logging
    import warnings
    from pathlib import Path

    logging.disable(logging.CRITICAL)
    warnings.filterwarnings("ignore")
    from .c05_disc import World

    b = job["bounds"]
    cfg = job["config"]
    worlds = {}

    def world_of(vkind):  # one world (harness discipline + value table of the uncached twin) per value kind
        if vkind not in worlds:
            worlds[vkind] = World(LATTICES[b["lattice"]], SCALE, b["nz"], fx=job.get("fx"),
                                  flavour=cfg.world_flavour, vkind=vkind)
        return worlds[vkind]

    graph = _GRAPHS[cfg]  # parsed by the parent before the fork
    work = Path(job["work"])
    full_entries = cfg.kind in ("simple", "memLocal") or job["entries_every_step"]
    out = {"traces": [], "covered": set(), "exceptions": [], "problems": [], "steps": 0, "paths": 0,
           "differing": 0, "sample": None, "colliding_lookups": 0, "cells_updated_by_body": 0,
           "reopen_then_hit": {}, "inner_cells_edited": 0}
    undo = inject_collisions(world_of("float"), job["hash_table"], out) if job.get("hash_table") else None
    try:
        _replay_paths(job, graph, world_of, work, cfg.kind, cfg.tol, job["inplace"], full_entries, out)
    finally:
        if undo:
            undo()
    out["covered"] = sorted(out["covered"])
    return out


def inject_collisions(world, table, out):
    """Collision injection: xxh3_64 cannot be made to collide, so the branches of BaseFullCache that handle
    several entries under one hash are exercised with a test double of the hash library: the name
    ``hash_data`` used by the full caches is bound, in this worker process only, to the hash table H that
    the specification printed (same collisions in the model and in the implementation)."""
    import gemseo.caches._hdf5_file_singleton as m2
    import gemseo.caches.base_full_cache as m1

    real = m1.hash_data
    codes, points = {}, {}

    def fake(data):
        p = world.point_of_inputs(data)
        if p not in table:
            return real(data)
        code = codes.setdefault(table[p], len(codes) + 1)
        points.setdefault(code, set()).add(p)
        if len(points[code]) > 1:  # this hash value has been returned for another input as well
            out["colliding_lookups"] += 1
        return code

    saved = (m1.hash_data, m2.hash_data)
    m1.hash_data = m2.hash_data = fake

    def undo():
        m1.hash_data, m2.hash_data = saved

    return undo


def path_vkind(graph, path):
    return str(graph.states[graph.edges[path[0]][0]]["vkind"])


def _replay_paths(job, graph, world_of, work, kind, tol, inplace, full_entries, out):
    from .c05_disc import Driver
    import traceback

    drv = None
    keep = set(random.Random(job["seed"]).sample(range(len(job["paths"])), min(job["keep_conforming"], len(job["paths"]))))
    for n, path in enumerate(job["paths"]):
        tid = job["first_id"] + n
        vkind = path_vkind(graph, path)
        drv = Driver(world_of(vkind), kind, tol / SCALE, inplace, work, f"{job['tag']}",
                     {c: CELLS0[c] for c in cells_of(job["bounds"])}, reuse=drv, diff0=job["bounds"].get("diff0", 0))
        labels, events, drift = [], [], None
        reopened = False
        for pos, k in enumerate(path):
            _, dst, action, args = graph.edges[k]
            labels.append(label(action, args))
            try:
                ev, problem = drv.step(action, args)
            except Exception as ex:  # noqa: BLE001  (an exception of gemseo on an allowed operation)
                out["exceptions"].append({"id": tid, "vkind": vkind, "labels": list(labels), "action": action,
                                          "exception": type(ex).__name__, "repr": repr(ex),
                                          "traceback": traceback.format_exc(limit=6)})
                drv.close()  # do not reuse a cache (or a file) left in an unknown state
                drv = None
                break
            events.append(ev)
            out["steps"] += 1
            if job["flavour"] == "selfupd" and ev.get("ran") and ev.get("c") != "lit" and ev["after"] != ev["x"][0]:
                out["cells_updated_by_body"] += 1
            if action == "MutateCell" and vkind in VKINDS_CONTAINERS:
                out["inner_cells_edited"] += 1
            # vacuity of ReopenSame per value kind: a call that the specification serves from the reopened file
            if action == "Reopen":
                reopened = True
            elif reopened and action in CALLS and graph.states[dst]["ret"]["hasOut"] and not graph.states[dst]["ret"]["ran"]:
                out["reopen_then_hit"][vkind] = out["reopen_then_hit"].get(vkind, 0) + 1
            if problem:
                out["problems"].append({"id": tid, "vkind": vkind, "labels": list(labels), "action": action,
                                        "problem": problem})
            if drift is None:
                st = graph.states[dst]
                diffs = ret_differs(ev, st["ret"]) if action in CALLS else []
                if action == "MutateCell" and not ev["same"]:
                    diffs.append("the entries shown by the cache changed with the caller's in-place edit")
                if kind != "none":
                    last = pos == len(path) - 1
                    if full_entries or last or action in ("Reopen", "ClearCache", "SetCache", "MutateCell"):
                        diffs += entries_differ(drv.entries(), st["entries"])
                    n_e = drv.n_entries()
                    if n_e != len(st["entries"]):
                        diffs.append(f"len(cache): impl {n_e} spec {len(st['entries'])}")
                if diffs:
                    drift = {"step": len(events), "label": labels[-1], "diffs": diffs}
                else:
                    out["covered"].add(k)
        out["paths"] += 1
        out["differing"] += 1 if drift else 0
        trace = {"id": tid, "kind": kind, "tol": tol, "flavour": job["flavour"], "vkind": vkind, "labels": labels,
                 "events": events, "drift": drift}
        if drift or n in keep:  # every differing trace, a seeded sample of the conforming ones
            out["traces"].append(trace)
        if out["sample"] is None and len(events) >= 3:
            out["sample"] = trace
    if drv is not None:
        drv.close()


def follow_variant(graph, index, trace):
    """Does the variant graph (a relation: several successors per label) contain a path with the labels of
    the observed trace that reproduces every observed return?"""
    cur = {s for s in graph.init if str(graph.states[s]["vkind"]) == trace["vkind"]}
    for lab, ev in zip(trace["labels"], trace["events"]):
        nxt = set()
        for s in cur:
            for d in index.get((s, lab), ()):
                if ev["op"] not in ("exec", "lin") or not ret_differs(ev, graph.states[d]["ret"]):
                    nxt.add(d)
        if not nxt:
            return False
        cur = nxt
    return True


def slim(graph, fields):
    """Keep only the state variables the replay compares (the graphs of the thorough tier are large)."""
    for sid, st in graph.states.items():
        graph.states[sid] = {k: st[k] for k in fields}
    return graph


def edge_index(graph):
    idx = {}
    for s, d, a, args in graph.edges:
        idx.setdefault((s, label(a, args)), []).append(d)
    return idx


# ------------------------------------------------------------------ main

def bounds(ck, flavour="std"):
    """Alphabet and depth of a configuration (TLCGet("level") <= depth: histories of depth-1 steps)."""
    if flavour == "kinds":
        # every value kind x every action on a small alphabet (one caller cell, edited in place); Jacobians
        # with respect to "z" only ("sub", both levels declared before the history starts)
        if ck.thorough:
            return {"lattice": "Lattice4", "nz": 1, "zargs": ["omit", "dflt"], "linzargs": ["omit"], "depth": 5,
                    "linmodes": ["sub"], "execflags": [True, False], "litxs": [3], "cells": ["c1"], "diff0": 2}
        return {"lattice": "Lattice3", "nz": 1, "zargs": ["omit"], "linzargs": ["omit"], "depth": 4,
                "linmodes": ["sub"], "execflags": [True], "litxs": [3], "cells": ["c1"], "diff0": 2}
    if flavour == "chain":
        if ck.thorough:
            return {"lattice": "Lattice4", "nz": 2, "zargs": ["omit", "alt"], "linzargs": ["omit"], "depth": 5,
                    "linmodes": ["all", "sub"], "execflags": [True, False], "litxs": [3]}
        return {"lattice": "Lattice4", "nz": 1, "zargs": ["omit"], "linzargs": ["omit"], "depth": 4,
                "linmodes": ["all", "sub"], "execflags": [True], "litxs": [3]}
    if flavour == "shadow":
        # 0 ~ 2 ~ 5 but not 0 ~ 5: execute(0); linearize(2) files J under 2; execute(5) twice - 4 steps;
        # fresh literal arrays only (no caller cells), all Jacobians
        return {"lattice": "Lattice4", "nz": 1, "zargs": ["omit"], "linzargs": ["omit"], "depth": 5,
                "linmodes": ["all"], "execflags": [True], "litxs": [1, 2, 3], "cells": [], "diff0": 2}
    if ck.thorough:
        return {"lattice": "Lattice5", "nz": 2, "zargs": ["omit", "dflt", "alt"], "linzargs": ["omit"],
                "depth": 5, "linmodes": ["all", "sub"], "execflags": [True, False], "litxs": [1, 3]}
    return {"lattice": "Lattice4", "nz": 1, "zargs": ["omit", "dflt"], "linzargs": ["omit", "dflt"], "depth": 4,
            "linmodes": ["all", "sub"], "execflags": [True, False], "litxs": [1, 3]}


REQUIRED = ("Execute", "ExecuteLit", "Linearize", "LinearizeLit", "MutateCell", "SetDiff")


def required_actions(cfg):
    if cfg.flavour == "selfupd":
        need = ("Execute", "ExecuteLit", "MutateCell")
    elif cfg.flavour == "kinds":
        need = ("Execute", "ExecuteLit", "Linearize", "MutateCell")
    elif cfg.flavour == "shadow":
        need = ("ExecuteLit", "LinearizeLit")
    else:
        need = REQUIRED
    return need + (("ClearCache",) if cfg.kind != "none" else ()) + (("Reopen",) if cfg.kind == "hdf5" else ()) \
        + (("SetCache",) if cfg.kind in ("simple", "memShared", "memLocal") else ())


# VERIF_C05_PAR=n: at most n TLC runs / replay processes side by side (shared machines)
PAR = int(os.environ.get("VERIF_C05_PAR", "0") or 0)


class TLCJobs:
    """Several TLC runs side by side (each -workers 1, own work directory); the bookkeeping of ck.tlc is
    done in the main thread when the results are collected."""

    def __init__(self, ck, parallel=6):
        self.ck = ck
        self.parallel = min(parallel, PAR) if PAR else parallel
        self.jobs = []

    def add(self, key, module, cfg, *, need=(), expect_ok=True, count=True, **kw):
        self.jobs.append((key, module, cfg, need, expect_ok, count, kw))

    def run(self):
        from concurrent.futures import ThreadPoolExecutor

        ck = self.ck

        def one(j):
            key, module, cfg, need, expect_ok, count, kw = j
            return run_tlc(module, cfg, ck.work / f"tlc-{key}", workers=1, **kw)

        with ThreadPoolExecutor(self.parallel) as ex:
            results = list(ex.map(one, self.jobs))
        out = {}
        for (key, module, cfg, need, expect_ok, count, kw), r in zip(self.jobs, results):
            cov = {}
            for m in _COV.finditer(r.out):
                cov[m.group(1)] = cov.get(m.group(1), 0) + int(m.group(3))
            ck.tlc_runs.append({"module": module, "run": key, "distinct": r.distinct, "generated": r.generated,
                                "depth": r.depth, "wall_s": round(r.wall, 2), "coverage": cov})
            if r.error or (r.rc != 0 and not r.violated):
                raise MachineryError(f"TLC failed on {module} [{key}]: {r.error or r.out[-2000:]}")
            if count:
                ck.states += r.distinct
                ck.transitions += r.generated
            for a in need:
                if not cov.get(a):
                    raise MachineryError(f"vacuity: action {a} of {module} [{key}] never taken")
            if expect_ok and r.violated:
                raise MachineryError(f"specification {module} [{key}] violates {r.violated}:\n" + r.out[-3000:])
            out[key] = r
        self.jobs = []
        return out


def chunks(xs, n):
    return [xs[i:i + n] for i in range(0, len(xs), n)]


def configurations(ck):
    t = ck.thorough
    configs = [Cfg(k, tol) for k in KINDS for tol in ((0,) if k == "none" else (0, TOLN))]
    # hash collisions injected (not the local-memory cache: same code path as the shared one)
    if t:
        configs += [Cfg(k, tol, "collide") for k in ("memShared", "hdf5") for tol in (0, TOLN)]
    else:
        configs += [Cfg("memShared", 0, "collide"), Cfg("hdf5", TOLN, "collide")]
    # the self-coupled flavour (SDisc: the body updates its input array in place, x <- FX(x)); every cache
    # kind, execution histories; the caller's cell holds FX(x) after a run, so the tours contain "feed the
    # output back" (x, FX(x), x) through the same cell, another cell and literals
    configs += [Cfg(k, 0, "selfupd") for k in KINDS]
    if t:
        configs += [Cfg(k, TOLN, "selfupd") for k in KINDS if k != "none"]
    # the value kinds of the input (integer / complex / 2-D / string arrays, plain str, containers of
    # arrays), every cache kind, exact and tolerance-based matching
    configs += [Cfg(k, tol, "kinds") for k in KINDS for tol in ((0,) if k == "none" else (0, TOLN))]
    # a process discipline (MDOChain of two polynomial members) with the cache at chain level
    if t:
        configs += [Cfg(k, tol, "chain") for k in KINDS for tol in ((0,) if k == "none" else (0, TOLN))]
    else:
        configs += [Cfg("none", 0, "chain"), Cfg("simple", 0, "chain"), Cfg("simple", TOLN, "chain"),
                    Cfg("memShared", 0, "chain"), Cfg("memLocal", TOLN, "chain"), Cfg("hdf5", 0, "chain")]
    # deeper histories on a small alphabet, full caches with a tolerance (entries holding a Jacobian only)
    configs += [Cfg(k, TOLN, "shadow") for k in (FULL if t else ("memShared", "hdf5"))]
    return configs


def run(ck: Check):
    import multiprocessing as mp
    import time
    from concurrent.futures import ProcessPoolExecutor

    rng = random.Random(ck.seed)
    B = {f: bounds(ck, f) for f in ("std", "kinds", "chain", "shadow")}
    B["collide"] = B["selfupd"] = B["std"]
    b = B["std"]
    configs = configurations(ck)

    # ---- 1. TLC.  (a) the clauses alone: satisfiable, not vacuous (the most liberal system);
    #   (b) the implementation-shaped model satisfies every clause, exhaustively within the bounds, and
    #       the same run dumps its labelled state graph; (c) the rules of the code that are switches of
    #       the model: refuted by TLC, and their graph (no invariants) for classification
    jobs = TLCJobs(ck)
    for kind, tol, vk in (("memShared", TOLN, ("float", "str")), ("hdf5", 0, ("float",)), ("simple", 0, ("dict",)),
                          ("none", 0, ("float",))):
        jobs.add(f"abs-{kind}-{tol}", "DiscCache", abstract_cfg(kind, tol, 5 if ck.thorough else 4, vk), timeout=900,
                 need=("AExecute", "ALinearize", "AMutate"))
    for c in configs:
        # (vacuity is checked below on the edge labels of the dumped graph: -coverage slows large runs down)
        jobs.add(f"impl-{c.name}", "DiscCacheImpl", impl_cfg(c, B[c.flavour]), coverage=False, timeout=1700, dump=True)
    # the refuted rules: (name, configuration, switches, discipline flavours (buffer-reusing?))
    refutations = [("byRef", Cfg("memLocal", 0), {"ref": True}, (False, True)),
                   ("byRef", Cfg("memLocal", TOLN), {"ref": True}, (False, True)),
                   ("simpleMerge", Cfg("simple", TOLN), {"merge": True}, (False,)),
                   ("shadowScan", Cfg("memShared", TOLN, "shadow"), {"shadow": True}, (False,)),
                   ("staleMembers", Cfg("memShared", 0, "chain"), {"stale": True}, (False,))]
    # the seeded-change class: entry filed under the self-coupled input as it is after the run
    refutations += [("keyAfterRun", Cfg(kind, 0, "selfupd"), {"keyafter": True}, (False,)) for kind in KINDS[1:]]
    for vname, c, kw, flavours in refutations:
        for inplace in flavours:
            jobs.add(f"refute-{vname}-{c.name}-{inplace}", "DiscCacheImpl",
                     impl_cfg(c, B[c.flavour], inplace=inplace, invariants="clauses", **kw),
                     expect_ok=False, count=False, coverage=False, timeout=900)
    t0 = time.time()
    res = jobs.run()
    ck.extra["timing"] = {"tlc_models_s": round(time.time() - t0, 1)}
    for vname, c, kw, flavours in refutations:
        for inplace in flavours:
            r = res[f"refute-{vname}-{c.name}-{inplace}"]
            if not r.violated:
                raise MachineryError(f"rule {vname} ({c.name}) is not refuted by TLC: the switch is vacuous")
            ck.extra.setdefault("refuted_variants", []).append(
                {"variant": vname, "config": c.name, "inplace": inplace, "violates": r.violated,
                 "counterexample": [a.split(" line")[0] for a, _ in r.counterexample()][1:]})

    # ---- 2. spec -> code: transition tours executed on the real objects (worker processes).  The workers
    #         return every trace that differs from DiscCacheImpl somewhere and a seeded sample of the others.
    t0 = time.time()
    n_sample = 10000 if ck.thorough else 1500   # conforming traces kept per (configuration, flavour)
    graphs, rjobs, first_id = {}, [], 1
    for c in configs:
        bc = B[c.flavour]
        g = slim(Graph(ck.work / f"tlc-impl-{c.name}" / "DiscCacheImpl.dot"), ("ret", "entries", "vkind"))
        taken = {a for _, _, a, _ in g.edges}
        for a in required_actions(c):
            if a not in taken:
                raise MachineryError(f"vacuity: action {a} of DiscCacheImpl [{c.name}] never taken")
        if {str(g.states[s]["vkind"]) for s in g.init} != set(c.vkinds):
            raise MachineryError(f"vacuity: the graph of {c.name} does not start in every value kind {c.vkinds}")
        # histories of at most depth-1 steps: all their states lie within the level bound of every graph
        # dumped with the same bound (the variant graphs used for classification included)
        steps = depth_of(bc, c.kind, c.tol) - 1
        paths = [p for p in g.tour(max_len=steps) if len(p) <= steps]
        graphs[c] = (g, paths)
        _GRAPHS[c] = g
        table = None
        if c.flavour == "collide":
            tabs = [v[1] for v in res[f"impl-{c.name}"].printed() if isinstance(v, tuple) and v and v[0] == "HASH"]
            if not tabs:
                raise MachineryError("the specification did not print its hash table")
            table = {tuple(p): tuple(h) for p, h in tabs[0].items()}
            if len(set(table.values())) == len(table):
                raise MachineryError("collision injection requested but the hash table has no collision")
        fx = None
        if c.flavour == "selfupd":
            tabs = [v[1] for v in res[f"impl-{c.name}"].printed() if isinstance(v, tuple) and v and v[0] == "FX"]
            if not tabs:
                raise MachineryError("the specification did not print the state update FX")
            fx = {int(i): int(j) for i, j in (tabs[0].items() if isinstance(tabs[0], dict) else enumerate(tabs[0], 1))}
        for inplace, budget in plan(ck, c):
            sel = paths
            if budget is not None and len(paths) > budget:
                # the paths on which a reopened file must serve a stored input are always run (every value kind)
                must = [i for i, p in enumerate(paths) if must_run(c, g, p)]
                rest = [i for i in range(len(paths)) if i not in set(must)]
                pick = must + rng.sample(rest, max(0, min(len(rest), budget - len(must))))
                sel = [paths[i] for i in sorted(pick)]
            chs = chunks(sel, 250 if not ck.thorough else 2000)
            for ch in chs:
                rjobs.append({"config": c, "inplace": inplace, "paths": ch,
                              "bounds": bc, "work": str(ck.work), "tag": f"{c.name}-{len(rjobs)}",
                              "first_id": first_id, "entries_every_step": ck.thorough, "hash_table": table,
                              "fx": fx,
                              "flavour": c.flavour if c.flavour in ("selfupd", "kinds", "chain")
                              else ("inplace" if inplace else "fresh"),
                              "seed": ck.seed * 100003 + len(rjobs), "keep_conforming": n_sample // len(chs) + 1})
                first_id += len(ch)
    ck.extra["timing"]["graphs_tours_s"] = round(time.time() - t0, 1)
    t0 = time.time()
    # longest jobs first (HDF5 files, manager-backed dictionaries)
    order = sorted(range(len(rjobs)), key=lambda i: {"hdf5": 0, "memShared": 1}.get(rjobs[i]["config"].kind, 2))
    with ProcessPoolExecutor(min(8, PAR) if PAR else 8, mp_context=mp.get_context("fork")) as ex:
        outs = list(ex.map(replay_job, [rjobs[i] for i in order]))
    routs = [None] * len(rjobs)
    for i, o in zip(order, outs):
        routs[i] = o
    ck.extra["timing"]["replay_s"] = round(time.time() - t0, 1)
    all_traces = {c: [] for c in configs}
    covered = {c: set() for c in configs}
    n_paths = {c: 0 for c in configs}
    n_differing = {c: 0 for c in configs}
    samples = {}
    exercised = {}
    reopen_hits = {}
    raised = {}
    n_steps = 0
    for job, out in zip(rjobs, routs):
        c = job["config"]
        exercised[c] = exercised.get(c, 0) + out["colliding_lookups"] + out["cells_updated_by_body"] \
            + out["inner_cells_edited"]
        for vk, n in out["reopen_then_hit"].items():
            reopen_hits.setdefault(c, {})[vk] = reopen_hits.get(c, {}).get(vk, 0) + n
        n_paths[c] += out["paths"]
        n_differing[c] += out["differing"]
        if out["sample"] and c not in samples:
            samples[c] = out["sample"]
        sig = {"kind": c.kind, "tolerance": "t" if c.tol else "0", "discipline": job["flavour"]}
        all_traces[c] += out["traces"]
        covered[c] |= set(out["covered"])
        n_steps += out["steps"]
        for e in out["exceptions"]:
            raised.setdefault(c, set()).add(e["vkind"])
            ck.violation("NoException", dict(sig, vkind=e["vkind"], action=e["action"], exception=e["exception"]), e)
        for e in out["problems"]:
            ck.violation("BodyCalledOnce", dict(sig, vkind=e["vkind"], action=e["action"]), e)
    for c in configs:  # vacuity of the special set-ups: silent loss of the test double / of the in-place body ...
        if c.flavour == "collide" and not exercised.get(c):
            raise MachineryError(f"collision injection had no effect in {c.name}: no hash value was shared by two inputs")
        if c.flavour == "selfupd" and not exercised.get(c):
            raise MachineryError(f"self-coupled flavour had no effect in {c.name}: the body never updated a caller's array")
        if c.flavour == "kinds" and c.kind == "simple" and not exercised.get(c):
            raise MachineryError(f"{c.name}: no array held by a container-valued input was edited in place")
        if c.flavour == "kinds" and c.kind == "hdf5":
            # (a value kind whose calls raise - reported above as NoException - stops its paths there)
            missing = [vk for vk in c.vkinds if not reopen_hits.get(c, {}).get(vk) and vk not in raised.get(c, ())]
            if missing:
                raise MachineryError(f"{c.name}: no call served by a reopened file was replayed for the value kinds {missing}")
    ck.extra["colliding_hash_lookups"] = sum(v for c, v in exercised.items() if c.flavour == "collide")
    ck.extra["caller_arrays_updated_in_place_by_the_body"] = sum(v for c, v in exercised.items() if c.flavour == "selfupd")
    ck.extra["inner_arrays_of_containers_edited_in_place"] = sum(v for c, v in exercised.items() if c.flavour == "kinds")
    ck.extra["calls_served_by_a_reopened_file_per_value_kind"] = {c.name: v for c, v in reopen_hits.items()}
    stats = {}
    for c in configs:
        g, paths = graphs[c]
        stats[c.name] = {
            "states": len(g.states), "edges": len(g.edges), "tour_paths": len(paths), "paths_run": n_paths[c],
            "edges_conforming": len(covered[c]), "paths_differing": n_differing[c]}
        if c in samples:
            ck.sample({"config": c.name, "vkind": samples[c]["vkind"], "labels": samples[c]["labels"],
                       "events": samples[c]["events"]}, limit=14)

    # ---- 3. code -> spec: the clauses evaluated by TLC on the recorded traces: every trace that differs from
    #         DiscCacheImpl somewhere, and the sample of the conforming ones (a conforming trace returns
    #         what the model returns, and TLC has shown that the model satisfies the clauses)
    validated = {c: all_traces[c] for c in configs}
    groups = {}
    for c in configs:
        groups.setdefault(trace_key(c, B[c.flavour]), []).append(c)
    tjobs = []
    for key, cs in groups.items():
        traces = [t for c in cs for t in validated[c]]
        vkinds = {vk for c in cs for vk in c.vkinds}
        gname = "-".join(map(str, key))
        for k, ch in enumerate(chunks(traces, 20000) or [[]]):
            f = ck.work / f"c05-traces-{gname}-{k}.json"
            f.write_text(json.dumps([{"id": t["id"], "vkind": t["vkind"], "events": t["events"]} for t in ch]
                                    or [{"id": 0, "vkind": sorted(vkinds)[0], "events": []}]))
            jobs.add(f"trace-{gname}-{k}", "DiscCacheTrace", trace_cfg(key, vkinds), timeout=1700, coverage=False,
                     env={"TRACE_FILE": str(f)})
            tjobs.append(f"trace-{gname}-{k}")
    t0 = time.time()
    res = jobs.run()
    ck.extra["timing"]["tlc_traces_s"] = round(time.time() - t0, 1)
    reached, bad = {}, {}   # (trace ids are unique over all the configurations)
    for key in tjobs:
        for v in res[key].printed():
            if isinstance(v, tuple) and v and v[0] == "TRACE":
                reached[v[1]] = (v[2], v[3])
            elif isinstance(v, tuple) and v and v[0] == "BAD":
                bad.setdefault(v[1], []).append((v[2], str(v[3])))
    violating = []   # (configuration, trace, first violating step, clauses)
    for c in configs:
        for t in validated[c]:
            if t["id"] not in reached:
                raise MachineryError(f"no verdict for trace {t['id']}")
            got, total = reached[t["id"]]
            if got != total:
                raise MachineryError(f"trace {t['id']} not consumed ({got}/{total}): recorder inconsistent: {t['labels']}")
            if t["id"] not in bad:
                continue
            if not t["drift"]:
                raise MachineryError(f"trace {t['id']} conforms to DiscCacheImpl and violates a clause: {t['labels']}")
            step = min(s for s, _ in bad[t["id"]])
            violating.append((c, t, step, sorted({cl for s, cl in bad[t["id"]] if s == step})))

    # classification: is the violating trace a behaviour of the model under one of the refuted rules (or under
    # all of them together)?  The graphs of those variants (no invariants) are built for the configurations
    # that have a violating trace only, side by side.
    t0 = time.time()
    vgraphs = {}
    for c, t, _, _ in violating:
        inplace = t["flavour"] == "inplace"
        cands = [[v] for v in c.variants] + ([c.variants] if len(c.variants) > 1 else [])
        for combo in cands:
            key = (c, inplace, "+".join(v for v, _ in combo))
            if key not in vgraphs:
                kw = {}
                for _, k in combo:
                    kw.update(k)
                vgraphs[key] = f"graph-{key[2]}-{c.name}-{inplace}"
                jobs.add(vgraphs[key], "DiscCacheImpl",
                         impl_cfg(c, B[c.flavour], inplace=inplace, invariants=False, anymatch=True, **kw),
                         count=False, coverage=False, timeout=1700, dump=True)
    jobs.run()
    for key, run_name in list(vgraphs.items()):
        vg = slim(Graph(ck.work / f"tlc-{run_name}" / "DiscCacheImpl.dot"), ("ret", "vkind"))
        vgraphs[key] = (vg, edge_index(vg))
    ck.extra["timing"]["tlc_variant_graphs_s"] = round(time.time() - t0, 1)
    n_viol = 0
    for c, t, step, clauses in violating:
        n_viol += 1
        inplace = t["flavour"] == "inplace"
        explained = "none"
        for key, (vg, idx) in vgraphs.items():
            if key[0] == c and key[1] == inplace and follow_variant(vg, idx, t):
                explained = key[2]
                break
        for clause in clauses:
            ck.violation(clause, {"kind": c.kind, "tolerance": "t" if c.tol else "0",
                                  "discipline": t["flavour"], "vkind": t["vkind"],
                                  "explained_by": explained},
                         {"labels": t["labels"][:step], "events": t["events"][:step],
                          "first_difference_with_DiscCacheImpl": t["drift"], "collisions_injected": c.flavour == "collide",
                          "lattice": list(LATTICES[B[c.flavour]["lattice"]]), "scale": SCALE,
                          "tolerance": c.tol / SCALE})
    ck.traces = sum(n_paths.values())
    ck.extra["replay"] = stats
    ck.extra["paths_replayed"] = ck.traces
    ck.extra["steps_replayed"] = n_steps
    ck.extra["paths_replayed_with_collision_injection"] = sum(n_paths[c] for c in configs if c.flavour == "collide")
    ck.extra["paths_replayed_self_coupled_inplace"] = sum(n_paths[c] for c in configs if c.flavour == "selfupd")
    ck.extra["paths_replayed_value_kinds"] = sum(n_paths[c] for c in configs if c.flavour == "kinds")
    ck.extra["paths_replayed_process_discipline"] = sum(n_paths[c] for c in configs if c.flavour == "chain")
    ck.extra["paths_differing_from_DiscCacheImpl"] = sum(s["paths_differing"] for s in stats.values())
    ck.extra["traces_validated_by_DiscCacheTrace"] = sum(len(v) for v in validated.values())
    ck.extra["traces_with_refuted_clause"] = n_viol
    ck.exhaustive = all(s["edges_conforming"] == s["edges"] for s in stats.values())
    ck.assumptions += [
        "tolerance relation: reference norm on either side accepted (the code uses the new input, the docstring the cached one)",
        "HDF5Cache.clear() is only offered on a non-empty cache (KeyError on a never-written node, D13, is outside the statement)",
        "linearize(execute=False) is only offered right after a call at the same input (its documented precondition: 'the discipline was executed with the right input data')",
        "outputs/Jacobians are identified with lattice points through an uncached twin (value table of G and J)",
        "between two tour paths the cache object is emptied with clear() and reused (building a full cache costs 15-35 ms)",
        "self-coupled flavour (body updates its input array in place): execution histories only - linearize() re-reads the modified input array, with or without a cache",
        "collision injection: hash_data as imported by base_full_cache/_hdf5_file_singleton is replaced in the worker process by the specification's colliding hash table",
        "value kinds: complex inputs have a zero imaginary part (the HDF5 file keeps real parts only, by construction: to_real); values without a norm (strings, lists) are within a tolerance iff equal; container-valued inputs (dict/list of arrays) are offered to no cache and SimpleCache only (the full caches require data that the grammar converts to arrays); Jacobians of the value-kind flavour are taken with respect to the float input only",
        "process-discipline flavour: the body of a chain is the execution of its members by the chain; members re-executed from inside the assembly of the Jacobian count as linearization work",
    ]

    # ---- specification growth (outside C05 as stated): the data protocol of Discipline.execute without a cache
    # (specs/DiscIO.tla); disagreements are OBSERVATIONS and never change the exit code
    from ..growth import g05_disc_io

    g05_disc_io.run(ck)


def must_run(c, graph, path):
    """Paths that a sample always contains: the shapes of the model state a flavour exists for (criteria on
    the states of the specification, evaluated on the dumped graph)."""
    if c.flavour == "kinds":
        return serves_after_reopen(graph, path)
    if c.flavour == "shadow":
        return partial_entry_then_two_steps(graph, path)
    return False


def partial_entry_then_two_steps(graph, path):
    """An entry holding a Jacobian only exists at least two steps before the end of the path."""
    return any(any(e["jl"] > 0 and not e["hasOut"] for e in graph.states[graph.edges[k][1]]["entries"])
               for k in path[:-2])


def serves_after_reopen(graph, path):
    """The specification serves a call of this path from the file reopened earlier in the path."""
    reopened = False
    for k in path:
        _, dst, action, _ = graph.edges[k]
        if action == "Reopen":
            reopened = True
        elif reopened and action in CALLS:
            r = graph.states[dst]["ret"]
            if r["hasOut"] and not r["ran"]:
                return True
    return False


def plan(ck, c):
    """Discipline flavours (inplace?) and number of tour paths executed per configuration (None = the whole
    tour).  The whole tour on the cheap caches, a seeded sample on the caches that go through a manager
    process or an HDF5 file; quick tier: the buffer-reusing discipline only where a group could be kept by
    reference (SimpleCache, local-memory cache)."""
    kind = c.kind
    if kind == "none":
        return [(False, None if c.flavour in ("std", "selfupd") and (ck.thorough or c.flavour == "std")
                 else 8000 if ck.thorough else 500)]
    if c.flavour == "selfupd":  # small graphs (execution histories): the whole tour but on the HDF5 files in the quick tier
        return [(False, None if ck.thorough or kind != "hdf5" else 600)]
    if c.flavour == "kinds":
        if ck.thorough:
            return [(False, {"memShared": 6000, "hdf5": 4000}.get(kind, 8000))]
        return [(False, {"memShared": 400, "memLocal": 500, "hdf5": 500}.get(kind))]
    if c.flavour == "chain":
        if ck.thorough:
            return [(False, {"memShared": 6000, "hdf5": 4000}.get(kind, 8000))]
        return [(False, {"simple": 800, "memShared": 500, "memLocal": 800, "hdf5": 400}[kind])]
    if c.flavour == "shadow":
        if ck.thorough:
            return [(False, {"memShared": 1000, "hdf5": 800}.get(kind))]
        return [(False, {"memShared": 500, "hdf5": 400}[kind])]
    collide = c.flavour == "collide"
    if ck.thorough:
        n = {"simple": None, "memLocal": None, "memShared": 15000, "hdf5": 8000}[kind]
        if collide:
            n = {"memShared": 8000, "hdf5": 4000}[kind]
        return [(False, n), (True, n)]
    if collide:
        return [(False, None if kind == "memShared" else 400)]
    if kind == "simple":
        return [(False, None), (True, 1000)]
    if kind == "memLocal":
        return [(False, None), (True, 1000)]
    if kind == "memShared":
        return [(False, 1200)]
    return [(False, 700)]


if __name__ == "__main__":
    main("C05", run)
