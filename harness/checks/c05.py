"""C05 - discipline caches are transparent.

Specifications: specs/DiscCache.tla (the property: history of body runs, last return, clauses),
specs/DiscCacheImpl.tla (the caches as coded: entry table, storage by copy/by reference, hash index,
discipline Jacobian state; must satisfy the clauses), specs/DiscCacheTrace.tla (clauses evaluated by TLC
on what the real objects returned).

Binding
  spec -> code : the labelled state graph of DiscCacheImpl (one per cache kind x tolerance) is covered by a
                 transition tour; every path is executed on a real harness discipline with the real cache
                 (HDF5 files under ck.work), with the caller's arrays passed by reference and edited in
                 place where the path says MutateCell; after every step the returned outputs/Jacobian
                 (translated to "which lattice point's value", with an uncached twin as value table), the
                 body counters and the entries shown by the cache API are compared with the state the
                 specification computed (conformance to the implementation-shaped model).
  code -> spec : every executed path is also a recorded trace; DiscCacheTrace feeds the observed returns
                 into the property layer and TLC evaluates the clauses (TransparentOut, TransparentJac,
                 AtMostOnce, SimpleKeepsLast, ReopenSame, Uncached) in every state.  A VIOLATION is a clause
                 refuted by TLC on an observed trace; a mere difference with DiscCacheImpl that the
                 property allows is counted as drift and is not an alarm.
  classification: the rules of the code that TLC refutes at specification level (storage by reference in
                 the local-memory cache, tolerance-merge in SimpleCache) are kept as switches of
                 DiscCacheImpl; a violating trace whose returns are exactly those of such a variant is
                 tagged explained_by=<variant> (that is what the known-finding entries match).
"""
from __future__ import annotations

import json
import random
import re

from ..core import Check, Graph, MachineryError, main
from ..tlaval import to_tla

CLAUSES = ["TransparentOut", "TransparentJac", "AtMostOnce", "SimpleKeepsLast", "ReopenSame", "Uncached"]
IMPL_INVS = CLAUSES + ["CallerCannotCorrupt", "Coherent", "DistinctInputs", "Complete", "ITypeOK"]
KINDS = ["none", "simple", "memShared", "memLocal", "hdf5"]
SCALE = 8
TOLN = 2  # tolerance = 2/8 = 0.25
LATTICES = {"Lattice3": (0, 2, 16), "Lattice4": (0, 2, 5, 16), "Lattice5": (0, 2, 5, 8, 12),
            "Lattice6": (0, 1, 2, 5, 8, 16)}
CELLS0 = {"c1": 1, "c2": 2}


def tla_set(xs):
    return "{" + ", ".join(to_tla(x) for x in xs) + "}"


def impl_cfg(kind, tol, b, *, ref=False, merge=False, inplace=False, collide=False, invariants=True):
    s = (f'CONSTANTS Kind = "{kind}"\n Tol = {tol}\n Scale = {SCALE}\n XV <- {b["lattice"]}\n NZ = {b["nz"]}\n'
         f' Cells = {tla_set(sorted(CELLS0))}\n ZArgs = {tla_set(b["zargs"])}\n MaxDepth = {b["depth"]}\n'
         f' RefIn = {to_tla(ref)}\n RefOut = {to_tla(ref)}\n SimpleMerge = {to_tla(merge)}\n'
         f' Inplace = {to_tla(inplace)}\n Collide = {to_tla(collide)}\n LinModes = {tla_set(b["linmodes"])}\n'
         f' ExecFlags = {tla_set(b["execflags"])}\n LitXs = {tla_set(b["litxs"])}\n'
         "INIT Init\nNEXT Next\nCONSTRAINT Bound\nCHECK_DEADLOCK FALSE\n")
    if invariants:
        s += "".join(f"INVARIANT {i}\n" for i in IMPL_INVS)
    return s


def abstract_cfg(kind, tol, depth):
    return (f'CONSTANTS Kind = "{kind}"\n Tol = {tol}\n Scale = {SCALE}\n XV <- Lattice3\n NZ = 1\n'
            f' Cells = {{"c1"}}\n ZArgs = {{"omit"}}\n MaxDepth = {depth}\n'
            "INIT AInit\nNEXT ANext\nCONSTRAINT Bound\nCHECK_DEADLOCK FALSE\n"
            + "".join(f"INVARIANT {i}\n" for i in CLAUSES + ["TypeOK"]))


def trace_cfg(kind, tol, b):
    return (f'CONSTANTS Kind = "{kind}"\n Tol = {tol}\n Scale = {SCALE}\n XV <- {b["lattice"]}\n NZ = {b["nz"]}\n'
            f' Cells = {tla_set(sorted(CELLS0))}\n ZArgs = {tla_set(b["zargs"])}\n MaxDepth = 0\n'
            "INIT TInit\nNEXT TNext\nCONSTRAINT Reach\nPOSTCONDITION Accepted\nCHECK_DEADLOCK FALSE\n")


# ------------------------------------------------------------------ comparing an observation with a state

def _pt(v):
    return tuple(v)


def ret_differs(ev, ret):
    """Fields of the specification's ret that the call made observable, vs the observed event."""
    diffs = []

    def cmp(name, got, want):
        if got != want:
            diffs.append(f"{name}: impl {got} spec {want}")

    cmp("op", ev["op"], str(ret["op"]))
    cmp("x", _pt(ev["x"]), _pt(ret["x"]))
    cmp("ran", ev["ran"], ret["ran"])
    if ret["hasOut"]:
        cmp("src", _pt(ev["src"]), _pt(ret["src"]))
    if ev["op"] == "lin":
        cmp("req", ev["req"], ret["req"])
        cmp("jl", ev["jl"], ret["jl"])
        cmp("jsrc", _pt(ev["jsrc"]), _pt(ret["jsrc"]))
        cmp("lin", ev["lin"], ret["lin"])
    return diffs


def entries_differ(real, model):
    want = [{"in": _pt(e["in"]), "hasOut": e["hasOut"], "osrc": _pt(e["osrc"]) if e["hasOut"] else None,
             "jl": e["jl"], "jsrc": _pt(e["jsrc"]) if e["jl"] else None} for e in model]
    got = [{"in": _pt(e["in"]), "hasOut": e["hasOut"], "osrc": _pt(e["osrc"]) if e["hasOut"] else None,
            "jl": e["jl"], "jsrc": _pt(e["jsrc"]) if e["jl"] else None} for e in real]
    if got != want:
        return [f"entries: impl {got} spec {want}"]
    return []


CALLS = ("Execute", "ExecuteLit", "Linearize")

_COV = re.compile(r"^<(\w+) line \d+, col \d+ to line \d+, col \d+ of module \w+(?: \([\d ]+\))?>: (\d+):(\d+)", re.M)


def tlc_checked(ck, module, cfg, need=(), **kw):
    """ck.tlc + vacuity check on action coverage (TLC appends the position of the sub-action to the
    coverage line of an action that is a quantified call: core's pattern does not match those)."""
    r = ck.tlc(module, cfg, **kw)
    cov = {}
    for m in _COV.finditer(r.out):
        cov[m.group(1)] = cov.get(m.group(1), 0) + int(m.group(3))
    for a in need:
        if not cov.get(a):
            raise MachineryError(f"vacuity: action {a} of {module} never taken")
    ck.tlc_runs[-1]["coverage"] = cov
    return r


def label(action, args):
    return f"{action}({', '.join(map(str, args))})" if args else action


# ------------------------------------------------------------------ replay of a tour

class Replay:
    def __init__(self, ck, world, b):
        self.ck = ck
        self.world = world
        self.b = b
        self.n_paths = 0
        self.n_steps = 0
        self.n_drift = 0
        self.next_id = 0

    def run_paths(self, graph, paths, kind, tol, inplace, covered, check_entries=True):
        """-> list of traces {id, kind, tol, inplace, labels, events, drift}"""
        from .c05_disc import Driver

        ck = self.ck
        tolv = tol / SCALE
        traces = []
        for path in paths:
            self.next_id += 1
            drv = Driver(self.world, kind, tolv, inplace, ck.work, f"{kind}-{self.next_id}", CELLS0)
            labels, events, drift = [], [], None
            sig = {"kind": kind, "tolerance": "t" if tol else "0", "discipline": "inplace" if inplace else "fresh"}
            try:
                for k in path:
                    _, dst, action, args = graph.edges[k]
                    labels.append(label(action, args))
                    ok, res = ck.guard("NoException", dict(sig, action=action), drv.step, action, args)
                    if not ok:
                        break
                    ev, problem = res
                    events.append(ev)
                    self.n_steps += 1
                    if problem:
                        ck.violation("BodyCalledOnce", dict(sig, action=action), {"labels": labels, "problem": problem})
                    if drift is None:
                        st = graph.states[dst]
                        diffs = ret_differs(ev, st["ret"]) if action in CALLS else []
                        if check_entries and kind != "none":
                            diffs += entries_differ(drv.entries(), st["entries"])
                            n = drv.n_entries()
                            if n != len(st["entries"]):
                                diffs.append(f"len(cache): impl {n} spec {len(st['entries'])}")
                        if diffs:
                            drift = {"step": len(events), "label": labels[-1], "diffs": diffs}
                        else:
                            covered.add(k)
            finally:
                drv.close()
            self.n_paths += 1
            if drift:
                self.n_drift += 1
            traces.append({"id": self.next_id, "kind": kind, "tol": tol, "inplace": inplace, "labels": labels,
                           "events": events, "drift": drift})
        return traces


def follow_variant(graph, index, trace):
    """Does the variant graph reproduce every return of the observed trace (same labels)?"""
    cur = graph.init[0]
    for lab, ev in zip(trace["labels"], trace["events"]):
        nxt = index.get((cur, lab))
        if nxt is None:
            return False
        cur = nxt
        if ev["op"] in ("exec", "lin") and ret_differs(ev, graph.states[cur]["ret"]):
            return False
    return True


def edge_index(graph):
    return {(s, label(a, args)): d for s, d, a, args in graph.edges}


# ------------------------------------------------------------------ main

def bounds(ck):
    if ck.thorough:
        return {"lattice": "Lattice5", "nz": 2, "zargs": ["omit", "dflt", "alt"], "depth": 5,
                "linmodes": ["all", "sub"], "execflags": [True, False], "litxs": [1, 3]}
    return {"lattice": "Lattice4", "nz": 1, "zargs": ["omit", "dflt"], "depth": 4,
            "linmodes": ["all", "sub"], "execflags": [True, False], "litxs": [1]}


REQUIRED = ("Execute", "ExecuteLit", "Linearize", "MutateCell", "SetDiff")


def run(ck: Check):
    from .c05_disc import World

    rng = random.Random(ck.seed)
    b = bounds(ck)
    world = World(LATTICES[b["lattice"]], SCALE, b["nz"])
    rp = Replay(ck, world, b)

    # ---- 0. the clauses alone: satisfiable, not vacuous (most liberal system)
    for kind, tol in (("memShared", TOLN), ("hdf5", 0), ("simple", 0), ("none", 0)):
        tlc_checked(ck, "DiscCache", abstract_cfg(kind, tol, 5 if ck.thorough else 4), workers=8, timeout=600,
                    need=("AExecute", "ALinearize", "AMutate"))

    configs = [(k, t) for k in KINDS for t in ((0,) if k == "none" else (0, TOLN))]
    all_traces = {}
    stats = {}
    for kind, tol in configs:
        # ---- 1. the implementation-shaped model satisfies every clause (exhaustive within the bounds);
        #         the same run dumps the labelled state graph (workers=1: deterministic levels)
        need = REQUIRED + (("ClearCache",) if kind != "none" else ()) + (("Reopen",) if kind == "hdf5" else ()) \
            + (("SetCache",) if kind in ("simple", "memShared", "memLocal") else ())
        tlc_checked(ck, "DiscCacheImpl", impl_cfg(kind, tol, b), need=need, workers=1, timeout=1500, dump=True)
        g = Graph(ck.work / "DiscCacheImpl.dot")
        paths = g.tour(max_len=b["depth"] + 2)
        covered = set()
        traces = []
        flavours = (False, True) if kind != "none" else (False,)
        for inplace in flavours:
            traces += rp.run_paths(g, paths, kind, tol, inplace, covered)
        all_traces[(kind, tol)] = (g, traces)
        stats[f"{kind}/{'t' if tol else '0'}"] = {"states": len(g.states), "edges": len(g.edges), "paths": len(paths),
                                                  "edges_conforming": len(covered),
                                                  "drifting_paths": sum(1 for t in traces if t["drift"])}
        for t in traces[:1]:
            ck.sample({"kind": kind, "tol": tol, "labels": t["labels"], "events": t["events"]})

    # ---- 2. the refuted rules of the code, as variants of the model: refutation + graph for classification
    variants = {}
    for (kind, tol, name, kw) in (("memLocal", 0, "byRef", {"ref": True}), ("memLocal", TOLN, "byRef", {"ref": True}),
                                  ("simple", TOLN, "simpleMerge", {"merge": True})):
        for inplace in (False, True):
            if name == "simpleMerge" and inplace:
                continue
            r = ck.tlc("DiscCacheImpl", impl_cfg(kind, tol, b, inplace=inplace, **kw), workers=1, timeout=900,
                       expect_ok=False, count=False, coverage=False)
            if not r.violated:
                raise MachineryError(f"variant {name} ({kind}, tol {tol}) is not refuted by TLC: the switch is vacuous")
            ck.extra.setdefault("refuted_variants", []).append(
                {"variant": name, "kind": kind, "tol": tol, "inplace": inplace, "violates": r.violated,
                 "counterexample": [a for a, _ in r.counterexample()][1:]})
            ck.tlc("DiscCacheImpl", impl_cfg(kind, tol, b, inplace=inplace, invariants=False, **kw), workers=1,
                   timeout=900, dump=True, count=False, coverage=False)
            vg = Graph(ck.work / "DiscCacheImpl.dot")
            variants[(kind, tol, inplace)] = (name, vg, edge_index(vg))

    # ---- 3. code -> spec: the clauses evaluated by TLC on every recorded trace
    n_viol = 0
    for (kind, tol), (g, traces) in all_traces.items():
        if not traces:
            continue
        f = ck.work / f"c05-traces-{kind}-{tol}.json"
        f.write_text(json.dumps([{"id": t["id"], "events": t["events"]} for t in traces]))
        r = ck.tlc("DiscCacheTrace", trace_cfg(kind, tol, b), workers=1, timeout=1500, count=False, coverage=False,
                   env={"TRACE_FILE": str(f)})
        reached, bad = {}, {}
        for v in r.printed():
            if isinstance(v, tuple) and v and v[0] == "TRACE":
                reached[v[1]] = (v[2], v[3])
            elif isinstance(v, tuple) and v and v[0] == "BAD":
                bad.setdefault(v[1], []).append((v[2], str(v[3])))
        ck.states += r.distinct
        ck.transitions += r.generated
        for t in traces:
            if t["id"] not in reached:
                raise MachineryError(f"no verdict for trace {t['id']}")
            got, total = reached[t["id"]]
            if got != total:
                raise MachineryError(f"trace {t['id']} not consumed ({got}/{total}): recorder inconsistent: {t['labels']}")
            ck.traces += 1
            if t["id"] not in bad:
                continue
            n_viol += 1
            step = min(s for s, _ in bad[t["id"]])
            clauses = sorted({c for s, c in bad[t["id"]] if s == step})
            var = variants.get((kind, tol, t["inplace"]))
            explained = var[0] if var and follow_variant(var[1], var[2], t) else "none"
            for clause in clauses:
                ck.violation(clause, {"kind": kind, "tolerance": "t" if tol else "0",
                                      "discipline": "inplace" if t["inplace"] else "fresh",
                                      "explained_by": explained},
                             {"labels": t["labels"][:step], "events": t["events"][:step],
                              "first_difference_with_DiscCacheImpl": t["drift"],
                              "lattice": list(LATTICES[b["lattice"]]), "scale": SCALE,
                              "tolerance": tol / SCALE})
    ck.extra["replay"] = stats
    ck.extra["paths_replayed"] = rp.n_paths
    ck.extra["steps_replayed"] = rp.n_steps
    ck.extra["paths_differing_from_DiscCacheImpl"] = rp.n_drift
    ck.extra["traces_with_refuted_clause"] = n_viol
    ck.exhaustive = all(s["edges_conforming"] == s["edges"] for s in stats.values())
    ck.assumptions += [
        "tolerance relation: reference norm on either side accepted (the code uses the new input, the docstring the cached one)",
        "HDF5Cache.clear() is only offered on a non-empty cache (KeyError on a never-written node, D13, is outside the statement)",
        "linearize(execute=False) is only offered right after a call at the same input (its documented precondition)",
        "outputs/Jacobians are identified with lattice points through an uncached twin (value table of G and J)",
    ]


if __name__ == "__main__":
    main("C05", run)
