"""C06 helpers: harness linear disciplines built from an instance printed by MDA.tla, the recorder of
their executions, and the (exact) transport of doubles to the dyadic vocabulary of the specification.

Nothing here knows what an MDA should compute: a discipline evaluates the affine map the instance
defines, logs what it received and produced, and numbers are converted without rounding
(`float.as_integer_ratio`).
"""
from __future__ import annotations

import math

import numpy as np

LIMB = 4096


# ------------------------------------------------------------------ exact transport of doubles

def dyadic(v: float):
    """A finite double as the canonical pair (m, e) with v = m / 2**e, e >= 0 (m odd or e = 0)."""
    n, d = float(v).as_integer_ratio()  # d is a power of two
    return n, d.bit_length() - 1


def dyadic_small(v: float):
    """[m, e] when m fits a TLC integer, else the marker [0, -1] (never a value of the specification)."""
    if not math.isfinite(v):
        return [0, -1]
    m, e = dyadic(v)
    if abs(m) >= 2 ** 30 or e > 40:
        return [0, -1]
    return [m, e]


def limbs(n: int):
    out = []
    while n:
        out.append(n % LIMB)
        n //= LIMB
    return out


MAX_EXP = 200


def big_dyadic(v: float):
    """[sign, limbs, e] with v = sign * limbs / 2**e (limbs little-endian, base 4096).

    Exact for every double that is a multiple of 2**-200; a smaller magnitude (round-off residue such as
    1e-70) is truncated to the multiple of 2**-200 below it - a change < 1e-60, 20 orders of magnitude
    under the 2**-40 slack of MDAReport - so that the BigNats stay a few hundred bits long.
    """
    m, e = dyadic(v)
    if e > MAX_EXP:
        m, e = (abs(m) >> (e - MAX_EXP)) * ((m > 0) - (m < 0)), MAX_EXP
        while e > 0 and m % 2 == 0:
            m, e = m // 2, e - 1
    return [(m > 0) - (m < 0), limbs(abs(m)), e]


# ------------------------------------------------------------------ instances

class Instance:
    """The system printed by TLC: sizes, numerators of B over 2**db, c, xc, the two inputs, y0."""

    def __init__(self, rec):
        self.rec = rec
        self.fam = str(rec["fam"])
        self.sz = [int(s) for s in rec["sz"]]
        self.db = int(rec["db"])
        self.B = np.array([[int(v) for v in row] for row in rec["B"]], dtype=float) / 2.0 ** self.db
        self.c = np.array([int(v) for v in rec["c"]], dtype=float)
        self.xc = np.array([int(v) for v in rec["xc"]], dtype=float)
        self.xs = [int(v) for v in rec["xs"]]
        self.y0 = np.array([int(v) for v in rec["y0"]], dtype=float)
        self.nd = len(self.sz)
        self.off = [0]
        for s in self.sz:
            self.off.append(self.off[-1] + s)
        self.dim = self.off[-1]

    def sl(self, i):
        return slice(self.off[i], self.off[i + 1])

    def reads(self, i):
        return [j for j in range(self.nd) if np.any(self.B[self.sl(i), self.sl(j)] != 0)]

    def json(self):
        r = self.rec
        return {"fam": self.fam, "sz": self.sz, "db": self.db,
                "B": [[int(v) for v in row] for row in r["B"]], "c": [int(v) for v in r["c"]],
                "xc": [int(v) for v in r["xc"]], "xs": self.xs, "y0": [int(v) for v in r["y0"]]}

    def key(self):
        return (self.fam, tuple(self.sz), self.db, tuple(tuple(int(v) for v in row) for row in self.rec["B"]),
                tuple(int(v) for v in self.rec["c"]), tuple(self.xs))


def make_disciplines(inst: Instance, log=None, split=False, dtype="float", reuse=False):
    """One gemseo Discipline per block row: y_i = c_i + xc_i * x + sum_j B_ij y_j (1-based names).

    Flavours of the SAME system (the specification does not know them: the data type declared for a coupling
    and the identity of the array objects are not part of the mathematical system):
    dtype "int": the couplings are declared as arrays of INTEGERS in the grammars (built from integer data
      with update_from_data), the defaults and the outputs are integer arrays - only used where the
      specification says that every value of the run is an integer (IntegralOrbit of MDA.tla);
    reuse: a discipline fills and returns THE SAME pre-allocated output array at every execution.

    split: the same system with ONE VARIABLE PER COMPONENT (y<i>_<k>); a discipline then reads exactly the
    components its rows depend on, so that a component may be a coupling read by its own discipline only
    (a private self-coupling inside a larger group) or by nobody - the naming is not part of the system."""
    from gemseo.core.discipline import Discipline

    if split:
        return _make_split(inst, Discipline)

    np_type = np.int64 if dtype == "int" else float

    class Lin(Discipline):
        def __init__(self, i):
            super().__init__(f"D{i + 1}")
            self.i = i
            self.out = f"y{i + 1}"
            self.rd = inst.reads(i)
            self.ins = ["x"] + [f"y{j + 1}" for j in self.rd]
            d = {"x": np.zeros(1)}
            for j in self.rd:
                d[f"y{j + 1}"] = inst.y0[inst.sl(j)].astype(np_type)
            if dtype == "int":
                self.input_grammar.update_from_data(d)
                self.output_grammar.update_from_data({self.out: np.zeros(inst.sz[i], dtype=np_type)})
            else:
                self.input_grammar.update_from_names(self.ins)
                self.output_grammar.update_from_names([self.out])
            self.default_input_data = d
            self.n_run = 0
            self.buf = np.zeros(inst.sz[i], dtype=np_type) if reuse else None
            if log is not None:
                # every execution must reach _run (and the log): no cache on a recording discipline
                self.set_cache(self.CacheType.NONE)

        def _run(self, input_data):
            self.n_run += 1
            x = np.asarray(input_data["x"], dtype=float)
            o = inst.c[inst.sl(self.i)] + inst.xc[inst.sl(self.i)] * x[0]
            for j in self.rd:
                o = o + inst.B[inst.sl(self.i), inst.sl(j)] @ np.asarray(input_data[f"y{j + 1}"], dtype=float)
            if log is not None:
                inp = [float(v) for j in self.rd for v in np.asarray(input_data[f"y{j + 1}"]).real]
                log.append((self.i + 1, inp, [float(v) for v in o]))
            if dtype == "int":
                # transport only: an integer-valued double becomes the same integer (a value that is not an
                # integer is handed over as it is, for the grammar of the discipline to refuse)
                oi = o.astype(np_type)
                o = oi if np.array_equal(oi, o) else o
            if self.buf is not None and o.dtype == self.buf.dtype:
                self.buf[:] = o
                o = self.buf
            return {self.out: o}

        def _compute_jacobian(self, input_names=(), output_names=()):
            jac = {"x": inst.xc[inst.sl(self.i)].reshape(-1, 1).copy()}
            for j in self.rd:
                jac[f"y{j + 1}"] = inst.B[inst.sl(self.i), inst.sl(j)].copy()
            self.jac = {self.out: jac}

    return [Lin(i) for i in range(inst.nd)]


def comp_name(inst: Instance, c):
    """name of the flat component c (0-based) in the split naming"""
    i = max(k for k in range(inst.nd) if inst.off[k] <= c)
    return f"y{i + 1}_{c - inst.off[i] + 1}"


def private_self_couplings(inst: Instance):
    """flat components read by their own discipline only, in a discipline that belongs to a larger group of
    mutually dependent disciplines (instances on which the split naming is worth replaying)"""
    out = []
    for i in range(inst.nd):
        others = [j for j in range(inst.nd) if j != i]
        in_loop = any(i in inst.reads(j) for j in others) and any(j in inst.reads(i) for j in others)
        for c in range(inst.off[i], inst.off[i + 1]):
            own = bool(np.any(inst.B[inst.sl(i), c] != 0))
            foreign = any(np.any(inst.B[inst.sl(j), c] != 0) for j in others)
            if in_loop and own and not foreign:
                out.append(c)
    return out


def _make_split(inst: Instance, Discipline):
    class LinS(Discipline):
        def __init__(self, i):
            super().__init__(f"D{i + 1}")
            self.i = i
            self.rows = list(range(inst.off[i], inst.off[i + 1]))
            self.outs = [comp_name(inst, r) for r in self.rows]
            self.cols = [c for c in range(inst.dim) if np.any(inst.B[inst.sl(i), c] != 0)]
            self.ins = ["x"] + [comp_name(inst, c) for c in self.cols]
            self.input_grammar.update_from_names(self.ins)
            self.output_grammar.update_from_names(self.outs)
            d = {"x": np.zeros(1)}
            for c in self.cols:
                d[comp_name(inst, c)] = inst.y0[c:c + 1].copy()
            self.default_input_data = d

        def _run(self, input_data):
            x = np.asarray(input_data["x"], dtype=float)
            o = inst.c[inst.sl(self.i)] + inst.xc[inst.sl(self.i)] * x[0]
            for c in self.cols:
                o = o + inst.B[inst.sl(self.i), c] * np.asarray(input_data[comp_name(inst, c)], dtype=float)[0]
            return {n: o[k:k + 1] for k, n in enumerate(self.outs)}

        def _compute_jacobian(self, input_names=(), output_names=()):
            self.jac = {}
            for k, n in enumerate(self.outs):
                r = self.rows[k]
                self.jac[n] = {"x": inst.xc[r:r + 1].reshape(1, 1).copy()}
                for c in self.cols:
                    self.jac[n][comp_name(inst, c)] = inst.B[r:r + 1, c:c + 1].copy()

    return [LinS(i) for i in range(inst.nd)]


def coupling_vector(inst: Instance, data, split=False):
    if split:
        return np.array([np.asarray(data[comp_name(inst, c)], dtype=complex).real[0] for c in range(inst.dim)])
    return np.concatenate([np.atleast_1d(np.asarray(data[f"y{i + 1}"], dtype=complex).real) for i in range(inst.nd)])


def reexecution_residual(inst: Instance, data, x, split=False):
    """Each harness discipline re-executed on the returned data: (its outputs) - (the returned outputs)."""
    ds = make_disciplines(inst)
    z = coupling_vector(inst, data, split)
    full = {"x": np.array([float(x)])}
    for i in range(inst.nd):
        full[f"y{i + 1}"] = z[inst.sl(i)].copy()
    rho = np.zeros(inst.dim)
    for i, d in enumerate(ds):
        out = d.execute({k: full[k] for k in d.ins})
        rho[inst.sl(i)] = np.asarray(out[d.out]).real - z[inst.sl(i)]
    return rho
