"""Stand-alone driver of the growth module G06 (not a listed property)."""
from ..core import main
from ..growth.g06_problem_life import run

if __name__ == "__main__":
    main("G06", run)
