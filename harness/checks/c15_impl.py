"""C15 glue: abstract names / atoms / kinds of Grammar.tla <-> concrete gemseo grammars.

Only transport: how an abstract action is *called* on the real object and how the real object is
*projected* onto the abstract state.  What the outcome must be is decided by TLC (Grammar.tla).
"""
from __future__ import annotations

import json
import os
import pickle
from pathlib import Path

import numpy as np

# ------------------------------------------------------------------ abstract <-> concrete
CONCRETE_NAMES = {"a": "a", "b": "bb", "c": "c", "zz": "zz"}


def cname(n: str) -> str:
    """abstract name -> element name ("n_x" is x with the namespace prefix "n")."""
    if n.startswith("n_"):
        return "n:" + cname(n[2:])
    return CONCRETE_NAMES[n]


_ABS = {}
for _a in ("a", "b", "c", "zz"):
    _ABS[cname(_a)] = _a
    _ABS[cname("n_" + _a)] = "n_" + _a


def aname(n: str) -> str:
    return _ABS.get(n, "?" + n)


def anames(names) -> frozenset:
    return frozenset(aname(n) for n in names)


ATOM_TYPES = {"Int": int, "Num": float, "Bool": bool, "Str": str, "Arr": np.ndarray, "Any": None}
ATOM_SCHEMAS = {
    "Int": {"type": "integer"}, "Num": {"type": "number"}, "Bool": {"type": "boolean"},
    "Str": {"type": "string"}, "Arr": {"type": "array"},
    "ArrNum": {"type": "array", "items": {"type": "number"}},
    "ArrInt": {"type": "array", "items": {"type": "integer"}}, "Any": {},
    "Obj": {"type": "object", "properties": {"x": {"type": "integer"}}},
}


def kind_value(k: str):
    """One concrete representative per value kind of Grammar.tla (fresh object each time)."""
    return {
        "int": lambda: 3, "float": lambda: 1.5, "bool": lambda: True, "str": lambda: "s",
        "cplx": lambda: 1.5 + 2j, "farr": lambda: np.array([1.5, 2.5]), "iarr": lambda: np.array([1, 2]),
        "ilist": lambda: [1, 2], "flist": lambda: [1.5], "slist": lambda: ["s"], "tuple": lambda: (1, 2),
        "arr2d": lambda: np.array([[1.5, 2.5]]), "empty": lambda: np.array([]), "dict": lambda: {"k": 1},
        "none": lambda: None,
    }[k]()


def jsonable(v):
    """The value as JSON text sees it after gemseo's documented cast (ndarray/tuple -> list, complex -> real)."""
    if isinstance(v, complex):
        return v.real
    if isinstance(v, np.ndarray):
        return v.real.tolist()
    if isinstance(v, dict):
        return {k: jsonable(x) for k, x in v.items()}
    if isinstance(v, (list, tuple)):
        return [jsonable(x) for x in v]
    if isinstance(v, np.generic):
        return v.item()
    return v


DEFAULT_VALUES = {1: 11, 2: 22}
_DEFAULT_IDS = {v: k for k, v in DEFAULT_VALUES.items()}


def data_of(d) -> dict:
    """abstract probe dictionary (name -> kind) -> concrete data."""
    return {cname(n): kind_value(k) for n, k in dict(d or {}).items()}


def fn(x) -> dict:
    """A TLA+ function value as parsed (the empty function is printed <<>>)."""
    return dict(x) if x else {}


# ------------------------------------------------------------------ the real objects
_CLASSES = {}


def grammar_class(cls: str):
    if cls not in _CLASSES:
        _CLASSES[cls] = _grammar_class(cls)
    return _CLASSES[cls]


def _grammar_class(cls: str):
    if cls == "json":
        from gemseo.core.grammars.json_grammar import JSONGrammar

        return JSONGrammar
    if cls == "simple":
        from gemseo.core.grammars.simple_grammar import SimpleGrammar

        return SimpleGrammar
    from gemseo.core.grammars.pydantic_grammar import PydanticGrammar

    return PydanticGrammar


_IDE = []


def _invalid_data_error():
    if not _IDE:
        from gemseo.core.grammars.errors import InvalidDataError

        _IDE.append(InvalidDataError)
    return _IDE[0]


class Undescribable:
    """A value that no JSON type describes (update_from_data cannot build an element from it)."""


class Rejected(Exception):
    """The documented exception of a Reject* action was not raised."""


class Impl:
    """The real grammar objects of one behaviour (slot -> grammar)."""

    def __init__(self, cls: str, others, work: Path):
        self.cls = cls
        self.G = grammar_class(cls)
        self.others = others  # parsed value of Others in Grammar.tla
        self.work = work
        self.slots = {1: self.G("g")}

    # -- construction of the argument grammars / schemas from the specification's description
    def other(self, o: int):
        rec = self.others[o - 1]
        g = self.G("other")
        elems = fn(rec["elems"])
        for n, t in elems.items():
            (atom,) = tuple(t)
            g.update_from_types({cname(n): ATOM_TYPES[atom]})
        for n in elems:
            if n not in rec["req"]:
                g.required_names.remove(cname(n))
        for n, v in fn(rec["dflt"]).items():
            g.defaults[cname(n)] = DEFAULT_VALUES[v]
        return g

    def schema(self, o: int, bad: bool = False) -> dict:
        """The JSON schema of SchemaOthers[o] (properties in the order of the abstract names); with `bad`, one
        more property of an unknown JSON type between the first property and the others."""
        rec = self.others[o - 1]
        props = {}
        for k, (n, t) in enumerate(sorted(fn(rec["elems"]).items())):
            if bad and k == 1:
                props["bad"] = {"type": "no-such-json-type"}
            (atom,) = tuple(t)
            props[cname(n)] = json.loads(json.dumps(ATOM_SCHEMAS[atom]))
        if bad and "bad" not in props:
            props["bad"] = {"type": "no-such-json-type"}
        sch = {"$schema": "http://json-schema.org/draft-04/schema", "type": "object", "properties": props}
        if rec["req"]:  # draft-04: "required" must be non-empty
            sch["required"] = sorted(cname(n) for n in rec["req"])
        return sch

    def _expect(self, exc, f, *a, **k):
        try:
            f(*a, **k)
        except exc:
            return
        raise Rejected(f"{exc.__name__} was not raised")

    def _edit_required(self, g, op: str, names):
        """One call on the live required-names object of the grammar."""
        rn = g.required_names
        cn = {cname(n) for n in names}
        if op == "add":
            rn.add(*cn)
        elif op == "remove":
            rn.remove(*cn)
        elif op == "discard":
            rn.discard(*cn)
        elif op == "clear":
            rn.clear()
        elif op == "ior":
            rn |= cn
        elif op == "isub":
            rn -= cn
        elif op == "iand":
            rn &= cn
        else:
            raise ValueError(f"unknown required-names operation {op}")
        if rn is not g.required_names:
            raise Rejected("the in-place operation did not return the live required-names object")

    # -- one abstract action = one public call
    def apply(self, action: str, args: tuple):
        if action == "Copy":
            self.slots[2] = self.slots[1].copy()
            return
        if action == "OtherFails":
            self._expect(Exception, self.G("elsewhere").update_from_data, {"p": kind_value("int"), "bad": Undescribable()})
            return
        s = args[0]
        g = self.slots[s]
        a = args[1:]
        if action == "UpdateFromNames":
            g.update_from_names([cname(n) for n in sorted(a[0])], merge=a[1])
        elif action == "UpdateFromTypes":
            g.update_from_types({cname(a[0]): ATOM_TYPES[a[1]]}, merge=a[2])
        elif action == "UpdateFromData":
            g.update_from_data({cname(a[0]): kind_value(a[1])}, merge=a[2])
        elif action == "RejectMerge":
            self._expect(ValueError, g.update_from_types, {cname(a[0]): int}, merge=True)
        elif action == "Update":
            g.update(self.other(a[0]), excluded_names=[cname(n) for n in sorted(a[1])], merge=a[2])
        elif action == "UpdateFromSchema":
            g.update_from_schema(self.schema(a[0]))
        elif action == "RejectSchema":
            self._expect(Exception, g.update_from_schema, self.schema(a[0], bad=True))
        elif action == "RejectData":
            self._expect(Exception, g.update_from_data, {cname(a[0]): kind_value("int"), "bad": Undescribable()})
        elif action == "EditRequired":
            self._edit_required(g, a[0], a[1])
        elif action == "Reload":
            path = self.work / f"reload-{os.getpid()}.json"
            g.to_file(path)
            self.slots[s] = self.G("g", file_path=path)
        elif action == "RestrictTo":
            g.restrict_to([cname(n) for n in sorted(a[0])])
        elif action == "RejectRestrict":
            self._expect(KeyError, g.restrict_to, [cname(a[0])])
        elif action == "Rename":
            g.rename_element(cname(a[0]), cname(a[1]))
        elif action == "Delete":
            del g[cname(a[0])]
        elif action == "RejectDelete":
            self._expect(KeyError, g.__delitem__, cname(a[0]))
        elif action == "AddNamespace":
            g.add_namespace(cname(a[0]), "n")
        elif action == "Clear":
            g.clear()
        elif action == "Pickle":
            self.slots[s] = pickle.loads(pickle.dumps(g))
        elif action == "SetDefault":
            g.defaults[cname(a[0])] = DEFAULT_VALUES[a[1]]
        elif action == "RejectDefault":
            self._expect(KeyError, g.defaults.__setitem__, cname(a[0]), DEFAULT_VALUES[1])
        elif action == "DelDefault":
            del g.defaults[cname(a[0])]
        elif action == "Unrequire":
            g.required_names.remove(cname(a[0]))
        elif action == "Require":
            g.required_names.add(cname(a[0]))
        elif action == "RejectRequire":
            self._expect(KeyError, g.required_names.add, cname(a[0]))
        else:
            raise ValueError(f"unknown action {action}")

    # -- projections
    def observe(self, s: int) -> dict:
        g = self.slots[s]
        keys = anames(g.keys())
        out = {
            "elems": keys,
            "req": anames(g.required_names),
            "dflt": {aname(k): _DEFAULT_IDS.get(v, repr(v)) for k, v in g.defaults.items()},
            "toNs": {aname(k): aname(v) if isinstance(v, str) else repr(v) for k, v in g.to_namespaced.items()},
            "fromNs": {aname(k): aname(v) if isinstance(v, str) else repr(v) for k, v in g.from_namespaced.items()},
        }
        # the other read-only views of the element names must say the same
        views = {"iter": anames(iter(g)), "names": anames(g.names), "len": len(g)}
        if views["iter"] != keys or views["names"] != keys or views["len"] != len(keys):
            out["views"] = views
        return out

    def accepts(self, s: int, data: dict) -> bool:
        g = self.slots[s]
        try:
            g.validate(data)
        except _invalid_data_error():
            return False
        return True

    def export(self, s: int, via: str):
        """(element names, required names or None when the key is absent) of the exported schema."""
        g = self.slots[s]
        sch = json.loads(g.to_json()) if via == "to_json" else g.schema
        req = sch.get("required")
        return anames(sch.get("properties", {})), (None if req is None else anames(req))

    def to_json(self, s: int) -> str:
        return self.slots[s].to_json()
