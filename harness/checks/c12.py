"""C12 - crashed runs leave a loadable prefix backup; restart without rework.

Backup.tla is model-checked (every crash point of every bounded run, both backup modes, repeated crashes);
BackupTrace.tla validates the event traces of real scenarios and PREDICTS the file content at every
discipline execution; child processes are killed (os._exit) inside exactly those executions and the
real file is compared with the prediction; restarted children are recorded and validated again
(NoRework, LoadedKept, exports) and compared with the uninterrupted run.
"""
from __future__ import annotations

import json
import os
import shutil
import subprocess
import sys
from concurrent.futures import ThreadPoolExecutor

from ..core import Check, MachineryError, main
from ..tlaval import seq

OUT_IDS = {"f": 1, "g": 2, "@f": 3, "@g": 4, "o": 5, "@o": 6}
INVS = ["FilePrefix", "FileExactEachCall", "FileAtLastIteration", "LoadedKept", "MemoryAhead"]


def model_cfg(each_call, each_iter, max_stores, max_crashes, points="{1,2,3}", outs="{1,2}"):
    b = lambda x: "TRUE" if x else "FALSE"  # noqa: E731
    s = (f"CONSTANTS Points = {points}\n Outs = {outs}\n EachCall = {b(each_call)}\n EachIter = {b(each_iter)}\n"
         f" MaxStores = {max_stores}\n MaxCrashes = {max_crashes}\nSPECIFICATION Spec\n")
    for i in INVS:
        s += f"INVARIANT {i}\n"
    return s


def trace_cfg(each_call, each_iter, n_points):
    b = lambda x: "TRUE" if x else "FALSE"  # noqa: E731
    pts = "{" + ", ".join(str(i) for i in range(1, n_points + 1)) + "}"
    s = (f"CONSTANTS Points = {pts}\n Outs = {{1, 2, 3, 4, 5, 6}}\n EachCall = {b(each_call)}\n EachIter = {b(each_iter)}\n"
         f" MaxStores = 100000\n MaxCrashes = 0\nINIT TInit\nNEXT TNext\nCONSTRAINT Reach\nPOSTCONDITION Accepted\n"
         "CHECK_DEADLOCK FALSE\n")
    for i in INVS:
        s += f"INVARIANT {i}\n"
    return s


class Runner:
    def __init__(self, ck: Check):
        self.ck = ck
        self.n = 0
        import threading
        self.lock = threading.Lock()
        self.points: dict[tuple, int] = {}

    def pid(self, p):
        key = tuple(float(v) for v in p)  # exact: points 1e-16 apart are different database keys
        if key not in self.points:
            self.points[key] = len(self.points) + 1
        return self.points[key]

    def child(self, cfg, init_file=None):
        """Run one child; returns (returncode, events, result|None, backup path)."""
        with self.lock:
            self.n += 1
            d = self.ck.work / f"run{self.n}"
        d.mkdir()
        path = d / "backup.h5"
        if init_file:
            shutil.copy(init_file, path)
        c = dict(cfg, path=str(path), trace=str(d / "trace.ndjson"), result=str(d / "result.json"))
        (d / "cfg.json").write_text(json.dumps(c))
        env = dict(os.environ, PYTHONHASHSEED="0")
        p = subprocess.run([sys.executable, "-m", "harness.checks.c12_child", str(d / "cfg.json")],
                           cwd=str(self.ck.work.parent.parent), env=env, capture_output=True, text=True, timeout=300)
        events = []
        if (d / "trace.ndjson").exists():
            for line in open(d / "trace.ndjson"):
                line = line.strip()
                if line:
                    events.append(json.loads(line))
        result = json.load(open(d / "result.json")) if (d / "result.json").exists() else None
        return p.returncode, events, result, path, p.stderr[-1500:]

    def dbj(self, entries):
        return [{"pt": self.pid(e["pt"]), "outs": [OUT_IDS[o] for o in e["outs"]]} for e in entries]

    def to_trace(self, tid, events, req):
        """Child events -> BackupTrace events (points and outputs interned)."""
        k = next(i for i, e in enumerate(events) if e["ev"] == "loaded")
        init = self.dbj(events[k]["db"])
        out = []
        prev = None
        for e in events[k + 1:]:
            ev = e["ev"]
            if ev in ("exec_start",):
                out.append({"ev": ev, "p": self.pid(e["p"]), "k": e["k"]})
            elif ev == "exec_end":
                out.append({"ev": ev, "p": self.pid(e["p"])})
            elif ev == "store":
                if any(o not in OUT_IDS for o in e["os"]):
                    raise MachineryError(f"unexpected output names {e['os']}")
                out.append({"ev": ev, "p": self.pid(e["p"]), "os": [OUT_IDS[o] for o in e["os"]]})
            elif ev == "export":
                out.append({"ev": "export", "file": self.dbj(e["file"])})
            elif ev == "done":
                out.append({"ev": "done", "db": self.dbj(e["db"])})
            prev = out[-1]["ev"] if out else None
        return {"id": tid, "init": init, "req": req, "events": out}


def load_file(path):
    """Real backup file -> list of (point, {name: values}); None if absent; raises if unloadable."""
    from gemseo.algos.database import Database
    import numpy as np

    if not os.path.exists(path):
        return None
    d = Database.from_hdf(str(path))
    return [([float(v) for v in k.wrapped_array], {n: np.ravel(np.asarray(v, dtype=float)).tolist() for n, v in e.items()})
            for k, e in d.items()]


def validate(ck, traces, each_call, each_iter, n_points):
    f = ck.work / f"bk-traces-{len(list(ck.work.glob('bk-traces-*')))}.json"
    f.write_text(json.dumps(traces))
    r = ck.tlc("BackupTrace", trace_cfg(each_call, each_iter, n_points), workers=1, timeout=900, count=False,
               env={"TRACE_FILE": str(f)}, coverage=False, expect_ok=False)
    ck.states += r.distinct
    ck.transitions += r.generated
    verdict, crashfile = {}, {}
    for v in r.printed():
        if isinstance(v, tuple) and v and v[0] == "TRACE":
            verdict[v[1]] = (v[2], v[3])
        elif isinstance(v, tuple) and v and v[0] == "CRASHFILE":
            crashfile[(v[1], v[2])] = [(e["pt"], frozenset(e["outs"])) for e in seq(v[3])]
    return r, verdict, crashfile


def run(ck: Check):
    import random

    rng = random.Random(ck.seed)
    # ---- 1. the design: every crash point of every bounded run, both modes, up to 2 crashes
    ms = 5 if ck.thorough else 3
    for ec, ei in ((True, False), (False, True), (True, True)):
        ck.tlc("Backup", model_cfg(ec, ei, ms, 2), workers=8, timeout=1500, deadlock=False,
               require_actions=("ExecStart", "ExecEnd", "Store", "Crash", "Restart"))
    # ---- 2. real scenarios
    R = Runner(ck)
    configs = [
        {"name": "mdo-call", "kind": "mdo", "mode": "call", "max_iter": 5},
        {"name": "mdo-iter", "kind": "mdo", "mode": "iter", "max_iter": 8},
        {"name": "doe-call", "kind": "doe", "mode": "call",
         "samples": [[1.0, 1.0], [0.5, -1.0], [2.0, 0.25], [1.0, 1.0], [-1.5, 3.0]]},
    ]
    S5 = [[1.0, 1.0], [0.5, -1.0], [2.0, 0.25], [1.0, 1.0], [-1.5, 3.0]]
    configs += [
        # at each iteration only: the newest entry of the file holds only the first output
        {"name": "doe-iter", "kind": "doe", "mode": "iter", "samples": S5},
        # objective and constraint computed by separate discipline executions (IDF, no coupling);
        # the constraint raises ValueError at one sample: the DOE skips it, its partial entry stays
        {"name": "doe-call-idf-failing-sample", "kind": "doe", "mode": "call", "samples": S5,
         "system": "uncoupled", "formulation": "IDF", "fail_g": [[0.5, -1.0]]},
    ]
    configs += [
        # an observable computed by its own discipline: it is evaluated by a new-iteration listener, i.e.
        # AFTER the store listeners exported the value just stored (IDF: one discipline per function)
        {"name": "doe-call-idf-observable", "kind": "doe", "mode": "call", "samples": S5[:3],
         "system": "uncoupled_obs", "formulation": "IDF"},
        # a run stopped by GEMSEO's own ftol/xtol criteria (max_iter not binding), restarted with the
        # DEFAULT counter reset: the criteria look at the loaded + new entries, so the history is the same
        {"name": "mdo-call-converged-default-reset", "kind": "mdo", "mode": "call", "max_iter": 100,
         "restart_default_reset": True, "late_crashes": True},
    ]
    if ck.thorough:
        configs += [
            {"name": "mdo-both", "kind": "mdo", "mode": "both", "max_iter": 8},
            {"name": "doe-iter-idf-failing-sample", "kind": "doe", "mode": "iter", "samples": S5,
             "system": "uncoupled", "formulation": "IDF", "fail_g": [[2.0, 0.25]]},
            {"name": "mdo-call-normalized", "kind": "mdo", "mode": "call", "max_iter": 8, "normalize": True},
            {"name": "mdo-iter-normalized", "kind": "mdo", "mode": "iter", "max_iter": 6, "normalize": True},
        ]
    n_children = 0
    for cfg in configs:
        name = cfg["name"]
        ec, ei = cfg["mode"] in ("call", "both"), cfg["mode"] in ("iter", "both")
        sig0 = {"config": name}
        rc, events, ref, _, err = R.child(dict(cfg, crash_at=0, load=False))
        n_children += 1
        if rc != 0 or ref is None:
            raise MachineryError(f"reference run {name} failed: rc={rc} {err}")
        K = ref["n_exec"]
        req_by_pid = {}
        for e in ref["db"]:
            req_by_pid[R.pid(e["pt"])] = sorted(OUT_IDS[o] for o in e["vals"])
        ref_vals = {(R.pid(e["pt"]), n): v for e in ref["db"] for n, v in e["vals"].items()}
        for e in events:
            # an output the run needs at a point but whose computation raises (a DOE skips the sample)
            if e["ev"] == "exec_failed":
                q = R.pid(e["p"])
                req_by_pid[q] = sorted(set(req_by_pid.get(q, [])) | {OUT_IDS[o] for o in e["outs"]})

        def req_list():
            n = len(R.points)
            return [req_by_pid.get(p, []) for p in range(1, n + 1)]

        t_ref = R.to_trace(f"{name}/ref", events, req_list())
        r, verdict, crashfile = validate(ck, [t_ref], ec, ei, len(R.points))
        reached, total = verdict.get(t_ref["id"], (0, -1))
        if r.violated or reached != total:
            nxt = t_ref["events"][reached] if 0 <= reached < len(t_ref["events"]) else None
            ck.violation("TraceConformance" if not r.violated else r.violated,
                         dict(sig0, run="uninterrupted", event=nxt and nxt["ev"]),
                         {"matched_prefix": reached, "of": total, "next_event": nxt, "tlc_tail": r.out[-1500:]})
            continue
        ck.traces += 1
        ck.sample({"config": name, "n_discipline_executions": K, "events": t_ref["events"][:12]})
        ks = list(range(1, K + 1))
        if not ck.thorough:
            if cfg.get("late_crashes"):
                ks = sorted(set([K, K - 1, K - 3, K - 5]) & set(ks))
            else:
                ks = sorted(set([1, K] + rng.sample(ks, min(4 if name == "mdo-call" else 2, len(ks)))))
        # ---- 3. kill a child in the k-th execution; compare the file with the prediction
        def crash_and_restart(k):
            out = {"k": k}
            rc, ev, res, path, err = R.child(dict(cfg, crash_at=k, load=False))
            out["rc"] = rc
            out["path"] = path
            try:
                out["file"] = load_file(path)
            except Exception as ex:  # noqa: BLE001
                out["unloadable"] = repr(ex)
                return out
            # ---- 4. restart with load=True on the crashed file
            rc2, ev2, res2, path2, err2 = R.child(dict(cfg, crash_at=0, load=True), init_file=path if os.path.exists(path) else None)
            out.update(rc2=rc2, ev2=ev2, res2=res2, err2=err2, path2=path2)
            return out

        with ThreadPoolExecutor(max_workers=8) as ex:
            results = list(ex.map(crash_and_restart, ks))
        restart_traces = []
        meta = {}
        for o in results:
            k = o["k"]
            n_children += 2
            sig = dict(sig0, crash_at_class="first" if k == 1 else "later")
            case = {"config": name, "crash_in_execution": k, "of": K}
            if o["rc"] != 99:
                raise MachineryError(f"child {name} k={k} did not die as planned: rc={o['rc']}")
            if "unloadable" in o:
                ck.violation("FileLoadable", sig, dict(case, error=o["unloadable"]))
                continue
            want = crashfile.get((t_ref["id"], k))
            if want is None:
                raise MachineryError(f"no CRASHFILE prediction for {name} k={k}")
            got = o["file"] or []
            got_abs = [(R.pid(p), frozenset(OUT_IDS.get(n, 99) for n in vals)) for p, vals in got]
            if got_abs != want:
                ck.violation("FileExact" if ec else "FileAtLastIteration", sig,
                             dict(case, spec_file=[(p, sorted(s)) for p, s in want], real_file=[(p, sorted(s)) for p, s in got_abs]))
                continue
            bad = [(R.pid(p), n) for p, vals in got for n, v in vals.items() if ref_vals.get((R.pid(p), n)) != v]
            if bad:
                ck.violation("FileValues", sig, dict(case, differing=bad[:5]))
                continue
            ck.traces += 1
            if o["rc2"] != 0 or o["res2"] is None:
                ck.violation("RestartCompletes", dict(sig, rc=o["rc2"]), dict(case, stderr=o["err2"]))
                continue
            t2 = R.to_trace(f"{name}/restart@{k}", o["ev2"], None)
            restart_traces.append(t2)
            meta[t2["id"]] = (k, o)
        for t in restart_traces:
            t["req"] = req_list()
        if restart_traces:
            r2, verdict2, crashfile2 = validate(ck, restart_traces, ec, ei, len(R.points))
            for t in restart_traces:
                k, o = meta[t["id"]]
                sig = dict(sig0, run="restart")
                case = {"config": name, "crash_in_execution": k, "loaded_entries": len(t["init"])}
                reached, total = verdict2.get(t["id"], (0, -1))
                if reached != total:
                    nxt = t["events"][reached] if 0 <= reached < len(t["events"]) else None
                    clause = "NoRework" if nxt and nxt["ev"] == "exec_start" else "TraceConformance"
                    ck.violation(clause, dict(sig, event=nxt and nxt["ev"]),
                                 dict(case, matched_prefix=reached, of=total, next_event=nxt, loaded=t["init"]))
                    continue
                res2 = o["res2"]
                # loaded entries kept (values too), optimum no worse, same history when replay is exact
                loaded = o["file"] or []
                got_db = [(e["pt"], e["vals"]) for e in res2["db"]]
                for (p, vals), (p2, vals2) in zip(loaded, got_db):
                    if R.pid(p) != R.pid(p2) or any(vals2.get(n) != v for n, v in vals.items()):
                        ck.violation("LoadedKept", sig, dict(case, loaded=(p, vals), final=(p2, vals2)))
                        break
                else:
                    if not cfg.get("normalize"):
                        ref_db = [(R.pid(e["pt"]), e["vals"]) for e in ref["db"]]
                        new_db = [(R.pid(e["pt"]), e["vals"]) for e in res2["db"]]
                        if ref_db != new_db:
                            ck.violation("SameHistory", sig, dict(case, reference_points=[p for p, _ in ref_db],
                                                                  restarted_points=[p for p, _ in new_db]))
                            continue
                        if cfg["kind"] == "mdo" and (res2["f_opt"] != ref["f_opt"] or res2["x_opt"] != ref["x_opt"]):
                            ck.violation("SameHistory", dict(sig, part="optimum"), dict(case, ref=ref["f_opt"], restarted=res2["f_opt"]))
                            continue
                    if cfg["kind"] == "mdo" and loaded:
                        feas = [vals["f"][0] for p, vals in loaded if "f" in vals and "g" in vals and vals["g"][0] <= 1e-6]
                        if feas and res2["is_feasible"] and res2["f_opt"] > min(feas) + 1e-12:
                            ck.violation("OptimumNoWorse", sig, dict(case, best_loaded=min(feas), reported=res2["f_opt"]))
                            continue
                    ck.traces += 1
            # ---- 5. a second crash during a restarted run: "file already containing earlier data"
            if restart_traces:
                t = restart_traces[len(restart_traces) // 2]
                k1, o1 = meta[t["id"]]
                n2 = o1["res2"]["n_exec"]
                if n2 >= 1:
                    k2 = max(1, n2 // 2)
                    rc3, ev3, res3, path3, err3 = R.child(dict(cfg, crash_at=k2, load=True),
                                                          init_file=o1["path"] if os.path.exists(o1["path"]) else None)
                    n_children += 1
                    sig = dict(sig0, run="second_crash")
                    case = {"config": name, "first_crash": k1, "second_crash": k2}
                    want = crashfile2.get((t["id"], k2))
                    try:
                        got = load_file(path3) or []
                    except Exception as ex:  # noqa: BLE001
                        ck.violation("FileLoadable", sig, dict(case, error=repr(ex)))
                        got = None
                    if got is not None and want is not None:
                        got_abs = [(R.pid(p), frozenset(OUT_IDS.get(n, 99) for n in vals)) for p, vals in got]
                        if got_abs != want:
                            ck.violation("FileExact" if ec else "FileAtLastIteration", sig,
                                         dict(case, spec_file=[(p, sorted(s)) for p, s in want],
                                              real_file=[(p, sorted(s)) for p, s in got_abs]))
                        else:
                            ck.traces += 1
    ck.extra["child_processes"] = n_children
    ck.extra["configs"] = [c["name"] for c in configs]
    ck.assumptions += [
        "a crash is process death (os._exit) inside Discipline._run; HDF5 writes completed before the death are durable",
        "existing backup file + neither load nor erase is not exercised (behaviour not documented)",
        "eachIter: exactness is demanded at the option's granularity (file = database when the newest iteration was opened), see DESIGN.md C12",
    ]


if __name__ == "__main__":
    main("C12", run)
