"""C12 - crashed runs leave a loadable prefix backup; restart without rework.

Backup.tla is model-checked in two layers.  Layer 1 (unconstrained driver): every crash point of every
bounded run, both backup modes, repeated crashes, restarts under both counter policies.  Layer 2
(deterministic runs replayed exactly): every plan of requests x every verdict of the tolerance testers x
budgets, the uninterrupted run followed by the same scenario crashed at every discipline execution and
restarted under either counter policy; SameHistory is a theorem for every (termination cause of the
uninterrupted run: budget | GEMSEO ftol/xtol | the algorithm's own convergence) x (counter policy of the
restart: reset | kept) except budget x reset, where the uninterrupted history is a prefix (TLC refutes the
unconditional statement, and refutes SameHistory for testers guarded by the evaluation counter).

BackupTrace.tla validates the event traces of real scenarios and PREDICTS the file content at every
discipline execution; child processes are killed (os._exit) inside exactly those executions and the
real file is compared with the prediction; restarted children (one per counter policy) are recorded and
validated again (NoRework, LoadedKept, exports) and TLC judges their final history against the
uninterrupted run with the rule proved on the model (SameHistory / RefIsPrefix).
"""
from __future__ import annotations

import json
import os
import shutil
import subprocess
import sys
import threading
from concurrent.futures import ThreadPoolExecutor

from ..core import Check, MachineryError, main
from ..tlaval import seq

OUT_IDS = {"f": 1, "g": 2, "@f": 3, "@g": 4, "o": 5, "@o": 6}
INVS = ["FilePrefix", "FileExactEachCall", "FileAtLastIteration", "LoadedKept", "MemoryAhead", "CounterCounts"]
RUN_INVS = INVS + ["NoRework", "SameHistory", "RefIsPrefix"]
# the named actions of the run layer: every (cause of the uninterrupted run) x (counter policy) must be reached,
# with crashes at late and at early points
RUN_ACTIONS = ("RServe", "RBudget", "RExecStart", "RExecEnd", "RStore", "StartOver", "RRestart", "FinishRef",
               "FinishUncrashed", "FinishBudgetReset", "FinishBudgetKept", "FinishTolReset", "FinishTolKept",
               "FinishAlgoReset", "FinishAlgoKept", "CrashLate", "CrashEarly")
N_LAST = 3  # stop_crit_n_x of the real drivers (default), used to tell the late crash points
WORKERS = int(os.environ.get("VERIF_WORKERS", "8") or 8)


def _b(x):
    return "TRUE" if x else "FALSE"


def _consts(each_call, each_iter, max_stores, max_crashes, points, outs, policies='{"reset", "kept"}', n_last=2,
            plan_len=0, max_iters="{0}", guard="database"):
    return (f"CONSTANTS Points = {points}\n Outs = {outs}\n EachCall = {_b(each_call)}\n EachIter = {_b(each_iter)}\n"
            f" MaxStores = {max_stores}\n MaxCrashes = {max_crashes}\n Policies = {policies}\n NLast = {n_last}\n"
            f" PlanLen = {plan_len}\n MaxIters = {max_iters}\n TesterGuard = \"{guard}\"\n")


def model_cfg(each_call, each_iter, max_stores, max_crashes, points="{1,2,3}", outs="{1,2}", policies='{"reset", "kept"}'):
    s = _consts(each_call, each_iter, max_stores, max_crashes, points, outs, policies=policies) + "SPECIFICATION Spec\n"
    for i in INVS:
        s += f"INVARIANT {i}\n"
    return s


def run_cfg(each_call, each_iter, plan_len, max_crashes, n_last=2, max_iters="{0, 2, 3}", guard="database",
            policies='{"reset", "kept"}', invs=RUN_INVS, points="{1,2,3}"):
    s = _consts(each_call, each_iter, 100000, max_crashes, points, "{1,2}", policies=policies, n_last=n_last,
                plan_len=plan_len, max_iters=max_iters, guard=guard) + "SPECIFICATION RunSpec\n"
    for i in invs:
        s += f"INVARIANT {i}\n"
    return s


def trace_cfg(each_call, each_iter, n_points):
    pts = "{" + ", ".join(str(i) for i in range(1, n_points + 1)) + "}"
    s = (_consts(each_call, each_iter, 100000, 0, pts, "{1, 2, 3, 4, 5, 6}", n_last=N_LAST)
         + "INIT TInit\nNEXT TNext\nCONSTRAINT Reach\nPOSTCONDITION Accepted\nCHECK_DEADLOCK FALSE\n")
    for i in INVS:
        s += f"INVARIANT {i}\n"
    return s


class Runner:
    def __init__(self, ck: Check):
        self.ck = ck
        self.n = 0
        self.lock = threading.Lock()
        self.points: dict[tuple, int] = {}

    def pid(self, p):
        key = tuple(float(v) for v in p)  # exact: points 1e-16 apart are different database keys
        if key not in self.points:
            self.points[key] = len(self.points) + 1
        return self.points[key]

    def child(self, cfg, init_file=None):
        """Run one child; returns (returncode, events, result|None, backup path, stderr tail)."""
        with self.lock:
            self.n += 1
            d = self.ck.work / f"run{self.n}"
        d.mkdir()
        path = d / "backup.h5"
        if init_file:
            shutil.copy(init_file, path)
        c = dict(cfg, path=str(path), trace=str(d / "trace.ndjson"), result=str(d / "result.json"))
        (d / "cfg.json").write_text(json.dumps(c))
        env = dict(os.environ, PYTHONHASHSEED="0")
        p = subprocess.run([sys.executable, "-m", "harness.checks.c12_child", str(d / "cfg.json")],
                           cwd=str(self.ck.work.parent.parent), env=env, capture_output=True, text=True, timeout=600)
        events = []
        if (d / "trace.ndjson").exists():
            for line in open(d / "trace.ndjson"):
                line = line.strip()
                if line:
                    events.append(json.loads(line))
        result = json.load(open(d / "result.json")) if (d / "result.json").exists() else None
        return p.returncode, events, result, path, p.stderr[-1500:]

    def dbj(self, entries):
        return [{"pt": self.pid(e["pt"]), "outs": [OUT_IDS[o] for o in e["outs"]]} for e in entries]

    def to_trace(self, tid, events, req, policy="fresh", maxiter=0, exact=1, ref=(), refcause="none"):
        """Child events -> BackupTrace events (points and outputs interned)."""
        k = next(i for i, e in enumerate(events) if e["ev"] == "loaded")
        init = self.dbj(events[k]["db"])
        out = []
        for e in events[k + 1:]:
            ev = e["ev"]
            if ev in ("exec_start",):
                out.append({"ev": ev, "p": self.pid(e["p"]), "k": e["k"]})
            elif ev == "exec_end":
                out.append({"ev": ev, "p": self.pid(e["p"])})
            elif ev == "store":
                if any(o not in OUT_IDS for o in e["os"]):
                    raise MachineryError(f"unexpected output names {e['os']}")
                out.append({"ev": ev, "p": self.pid(e["p"]), "os": [OUT_IDS[o] for o in e["os"]]})
            elif ev == "export":
                out.append({"ev": "export", "file": self.dbj(e["file"])})
            elif ev == "done":
                out.append({"ev": "done", "db": self.dbj(e["db"]), "counter": int(e["counter"]), "cause": e["cause"]})
        return {"id": tid, "init": init, "req": req, "events": out, "policy": policy, "maxiter": int(maxiter),
                "exact": int(exact), "ref": list(ref), "refcause": refcause}


def load_file(path):
    """Real backup file -> list of (point, {name: values}); None if absent; raises if unloadable."""
    from gemseo.algos.database import Database
    import numpy as np

    if not os.path.exists(path):
        return None
    d = Database.from_hdf(str(path))
    return [([float(v) for v in k.wrapped_array], {n: np.ravel(np.asarray(v, dtype=float)).tolist() for n, v in e.items()})
            for k, e in d.items()]


def validate(ck, traces, each_call, each_iter, n_points):
    f = ck.work / f"bk-traces-{len(list(ck.work.glob('bk-traces-*')))}.json"
    f.write_text(json.dumps(traces))
    r = ck.tlc("BackupTrace", trace_cfg(each_call, each_iter, n_points), workers=1, timeout=900, count=False,
               env={"TRACE_FILE": str(f)}, coverage=False, expect_ok=False)
    ck.states += r.distinct
    ck.transitions += r.generated
    verdict, crashfile, done = {}, {}, {}
    for v in r.printed():
        if isinstance(v, tuple) and v and v[0] == "TRACE":
            verdict[v[1]] = (v[2], v[3])
        elif isinstance(v, tuple) and v and v[0] == "CRASHFILE":
            crashfile[(v[1], v[2])] = [(e["pt"], frozenset(e["outs"])) for e in seq(v[3])]
        elif isinstance(v, tuple) and v and v[0] == "DONE":
            done[v[1]] = dict(v[2])
    return r, verdict, crashfile, done


def final_state(r):
    """The string-valued variables of the last state of TLC's counterexample."""
    import re

    ce = r.counterexample()
    if not ce:
        return {}
    st = ce[-1][1]
    if isinstance(st, dict):
        return {k: v for k, v in st.items() if isinstance(v, str)}
    return dict(re.findall(r'/\\ (\w+) = "(\w*)"', st))


def check_design(ck: Check):
    """Backup.tla satisfies its own properties (TLC); the expected refutations (non-vacuity)."""
    # ---- layer 1: every crash point of every bounded run, both modes, up to 2 crashes, both counter policies
    # (the file clauses do not depend on the counter policy: both policies are explored together in one backup
    # mode, the deepest bound is explored with one policy per mode)
    both, kept, reset = '{"reset", "kept"}', '{"kept"}', '{"reset"}'
    if ck.thorough:
        layer1 = [((True, False), 5, kept), ((False, True), 5, reset), ((True, True), 4, both)]
    else:
        layer1 = [((True, False), 3, both), ((False, True), 3, reset), ((True, True), 3, kept)]
    for (ec, ei), ms, pols in layer1:
        ck.tlc("Backup", model_cfg(ec, ei, ms, 2, policies=pols), workers=WORKERS, timeout=1500, deadlock=False,
               require_actions=("FreeExecStart", "FreeExecEnd", "FreeStore", "FreeCrash", "FreeRestart"))
    # ---- layer 2: deterministic runs: (cause of the uninterrupted run) x (counter policy) x every crash point
    # (backup mode, PlanLen, MaxCrashes, NLast, budgets, points)
    if ck.thorough:
        runs = [((True, False), 4, 2, 2, "{0, 2, 3}", "{1,2,3}"), ((False, True), 4, 2, 2, "{0, 2, 3}", "{1,2,3}"),
                ((True, True), 4, 1, 2, "{0, 2, 3}", "{1,2,3}"), ((True, False), 4, 1, 3, "{0, 3, 4}", "{1,2,3,4}")]
    else:
        runs = [((True, False), 4, 1, 2, "{0, 2}", "{1,2,3}"), ((False, True), 3, 1, 2, "{0, 2}", "{1,2,3}"),
                ((True, True), 3, 1, 2, "{0, 2}", "{1,2,3}")]
    for (ec, ei), plan_len, crashes, n_last, budgets, pts in runs:
        ck.tlc("Backup", run_cfg(ec, ei, plan_len, crashes, n_last=n_last, max_iters=budgets, points=pts), workers=WORKERS,
               timeout=1500, deadlock=False, require_actions=RUN_ACTIONS)
    # ---- refuted, as it must be: the unconditional SameHistory (a restart that resets the counter gives a
    # budget-terminated run a fresh budget) ...
    r = ck.tlc("Backup", run_cfg(True, False, 3, 1, policies='{"reset"}',
                                 invs=["SameHistoryAlways"]), workers=WORKERS, timeout=900, deadlock=False,
               expect_ok=False, coverage=False, count=False)
    last = final_state(r)
    if r.violated != "SameHistoryAlways" or last.get("refcause") != "budget" or last.get("policy") != "reset":
        raise MachineryError("Backup.tla: SameHistoryAlways should be refuted by a budget-terminated run restarted "
                             f"with a reset counter; got {r.violated} {last}")
    # ... and SameHistory itself when the testers are guarded by the evaluation counter instead of looking at the
    # database only: a tolerance-stopped run restarted from a late crash point with a reset counter goes on
    r = ck.tlc("Backup", run_cfg(True, False, 3, 1, guard="counter", invs=["SameHistory"]), workers=WORKERS,
               timeout=900, deadlock=False, expect_ok=False, coverage=False, count=False)
    last = final_state(r)
    if r.violated != "SameHistory" or last.get("refcause") != "tol" or last.get("policy") != "reset":
        raise MachineryError("Backup.tla: SameHistory should be refuted for counter-guarded testers by a "
                             f"tolerance-stopped run restarted with a reset counter; got {r.violated} {last}")
    # ... or wait for N_LAST entries stored by the current process: refuted whatever the counter policy
    r = ck.tlc("Backup", run_cfg(True, False, 3, 1, guard="new", policies='{"kept"}', invs=["SameHistory"]),
               workers=WORKERS, timeout=900, deadlock=False, expect_ok=False, coverage=False, count=False)
    last = final_state(r)
    if r.violated != "SameHistory" or last.get("refcause") != "tol" or last.get("policy") != "kept":
        raise MachineryError("Backup.tla: SameHistory should be refuted for testers that wait for new entries by a "
                             f"tolerance-stopped run restarted with the counter kept; got {r.violated} {last}")
    ck.extra["refuted_as_expected"] = ["SameHistoryAlways (budget x reset)", "SameHistory under TesterGuard=counter (tol x reset)",
                                       "SameHistory under TesterGuard=new (tol x kept)"]


def scenario_configs(ck: Check):
    S5 = [[1.0, 1.0], [0.5, -1.0], [2.0, 0.25], [1.0, 1.0], [-1.5, 3.0]]
    both = ["kept", "reset"]
    configs = [
        # ended by the budget (max_iter binding)
        {"name": "mdo-call", "kind": "mdo", "mode": "call", "max_iter": 5, "policies": both, "expect_cause": "budget",
         "n_early": 1},
        {"name": "mdo-iter", "kind": "mdo", "mode": "iter", "max_iter": 8, "policies": both if ck.thorough else ["kept"],
         "n_early": 2},
        {"name": "doe-call", "kind": "doe", "mode": "call", "samples": S5, "n_early": 2},
        # at each iteration only: the newest entry of the file holds only the first output
        {"name": "doe-iter", "kind": "doe", "mode": "iter", "samples": S5, "n_early": 2},
        # objective and constraint computed by separate discipline executions (IDF, no coupling);
        # the constraint raises ValueError at one sample: the DOE skips it, its partial entry stays
        {"name": "doe-call-idf-failing-sample", "kind": "doe", "mode": "call", "samples": S5,
         "system": "uncoupled", "formulation": "IDF", "fail_g": [[0.5, -1.0]], "n_early": 2},
        # an observable computed by its own discipline: it is evaluated by a new-iteration listener, i.e.
        # AFTER the store listeners exported the value just stored (IDF: one discipline per function)
        {"name": "doe-call-idf-observable", "kind": "doe", "mode": "call", "samples": S5[:3],
         "system": "uncoupled_obs", "formulation": "IDF", "n_early": 2},
        # ended by the algorithm's own convergence test (SLSQP's, on a quadratic programme; max_iter not binding)
        {"name": "mdo-call-converged", "kind": "mdo", "mode": "call", "max_iter": 100, "policies": both,
         "expect_cause": "algo", "n_early": 0},
        # ended by GEMSEO's ftol/xtol testers (default tolerances, non-quadratic problem: well before SLSQP's own
        # convergence; max_iter not binding): the testers look at the last entries of the database, loaded or
        # not, so a restart from ANY crash point - the last ones included - stops where the uninterrupted run did
        {"name": "mdo-call-tolerance-stopped", "kind": "mdo", "mode": "call", "max_iter": 100, "system": "curved",
         "policies": both, "expect_cause": "tol", "n_early": 1},
    ]
    if ck.thorough:
        configs += [
            {"name": "mdo-both", "kind": "mdo", "mode": "both", "max_iter": 8, "policies": both},
            {"name": "doe-iter-idf-failing-sample", "kind": "doe", "mode": "iter", "samples": S5,
             "system": "uncoupled", "formulation": "IDF", "fail_g": [[2.0, 0.25]]},
            {"name": "mdo-call-normalized", "kind": "mdo", "mode": "call", "max_iter": 8, "normalize": True, "policies": both},
            {"name": "mdo-iter-normalized", "kind": "mdo", "mode": "iter", "max_iter": 6, "normalize": True, "policies": ["kept"]},
            {"name": "mdo-iter-tolerance-stopped", "kind": "mdo", "mode": "iter", "max_iter": 100, "system": "curved",
             "policies": both, "expect_cause": "tol"},
            {"name": "mdo-call-tolerance-stopped-xtol", "kind": "mdo", "mode": "call", "max_iter": 100, "system": "curved",
             "settings": {"xtol_rel": 1e-4, "xtol_abs": 1e-4}, "policies": both, "expect_cause": "tol"},
        ]
    for c in configs:
        c.setdefault("policies", ["reset"] if c["kind"] == "doe" else ["kept"])  # a DOE restarts with the default
    return configs


def child_cfg(cfg, **kw):
    c = {k: v for k, v in cfg.items() if k not in ("policies", "expect_cause", "n_early")}
    c.update(kw)
    return c


def run(ck: Check):
    import random

    rng = random.Random(ck.seed)
    check_design(ck)
    # ---- 2. real scenarios
    R = Runner(ck)
    configs = scenario_configs(ck)
    n_children = 0
    modes = lambda cfg: (cfg["mode"] in ("call", "both"), cfg["mode"] in ("iter", "both"))  # noqa: E731
    # ---- 2a. the uninterrupted run of every configuration
    with ThreadPoolExecutor(max_workers=WORKERS) as ex:
        refs = list(ex.map(lambda cfg: R.child(child_cfg(cfg, crash_at=0, load=False)), configs))
    n_children += len(configs)
    state = {}
    for cfg, (rc, events, ref, _, err) in zip(configs, refs):
        name = cfg["name"]
        if rc != 0 or ref is None:
            raise MachineryError(f"reference run {name} failed: rc={rc} {err}")
        req_by_pid = {}
        for e in ref["db"]:
            req_by_pid[R.pid(e["pt"])] = sorted(OUT_IDS[o] for o in e["vals"])
        for e in events:
            # an output the run needs at a point but whose computation raises (a DOE skips the sample)
            if e["ev"] == "exec_failed":
                q = R.pid(e["p"])
                req_by_pid[q] = sorted(set(req_by_pid.get(q, [])) | {OUT_IDS[o] for o in e["outs"]})
        state[name] = {"cfg": cfg, "ref": ref, "events": events, "req_by_pid": req_by_pid, "K": ref["n_exec"],
                       "ref_vals": {(R.pid(e["pt"]), n): v for e in ref["db"] for n, v in e["vals"].items()},
                       "ref_hist": R.dbj([{"pt": e["pt"], "outs": sorted(e["vals"])} for e in ref["db"]]),
                       "sig0": {"config": name}}

    def req_list(st):
        return [st["req_by_pid"].get(p, []) for p in range(1, len(R.points) + 1)]

    # ---- 2b. TLC validates them and predicts the file at every discipline execution (one TLC run per backup mode)
    crashfile = {}
    for mode in sorted({modes(c) for c in configs}):
        group = [st for st in state.values() if modes(st["cfg"]) == mode]
        for st in group:
            st["t_ref"] = R.to_trace(f"{st['cfg']['name']}/ref", st["events"], req_list(st),
                                     maxiter=st["cfg"].get("max_iter", 0))
        r, verdict, cf, _ = validate(ck, [st["t_ref"] for st in group], mode[0], mode[1], len(R.points))
        crashfile.update(cf)
        for st in group:
            t_ref = st["t_ref"]
            reached, total = verdict.get(t_ref["id"], (0, -1))
            if r.violated or reached != total:
                nxt = t_ref["events"][reached] if 0 <= reached < len(t_ref["events"]) else None
                ck.violation("TraceConformance" if not r.violated else r.violated,
                             dict(st["sig0"], run="uninterrupted", event=nxt and nxt["ev"]),
                             {"matched_prefix": reached, "of": total, "next_event": nxt, "tlc_tail": r.out[-1500:]})
                st["skip"] = True
                continue
            ck.traces += 1
            ck.sample({"config": st["cfg"]["name"], "n_discipline_executions": st["K"], "ended_by": st["ref"]["cause"],
                       "events": t_ref["events"][:12]})
    # ---- 3. kill a child in the k-th execution, restart it with load=True under each counter policy
    jobs = []
    for st in state.values():
        if st.get("skip"):
            continue
        cfg, K, name = st["cfg"], st["K"], st["cfg"]["name"]
        N = len(st["ref"]["db"])
        ks = list(range(1, K + 1))
        # the late crash points: the file the specification predicts there holds all but the last N_LAST - 1
        # entries of the uninterrupted history, or more (Backup!LateFile)
        st["late"] = {k for k in ks if len(crashfile.get((st["t_ref"]["id"], k), ())) + N_LAST > N}
        if not ck.thorough:
            early = [k for k in ks if k not in st["late"] and k != 1]
            ks = sorted(st["late"] | {1, K} | set(rng.sample(early, min(cfg.get("n_early", 2), len(early)))))
            if cfg["kind"] == "doe":  # a DOE has no stopping test that looks back: two of the late points
                ks = sorted({1, K} | set(rng.sample(range(1, K + 1), min(2, K))))
        jobs += [(st, k) for k in ks]

    def crash_and_restart(job):
        st, k = job
        cfg = st["cfg"]
        out = {"k": k, "restarts": {}}
        rc, ev, res, path, err = R.child(child_cfg(cfg, crash_at=k, load=False))
        out["rc"] = rc
        out["path"] = path
        try:
            out["file"] = load_file(path)
        except Exception as ex:  # noqa: BLE001
            out["unloadable"] = repr(ex)
            return out
        # ---- 4. restart with load=True on the crashed file, once per counter policy
        for pol in cfg["policies"]:
            rc2, ev2, res2, path2, err2 = R.child(child_cfg(cfg, crash_at=0, load=True, policy=pol),
                                                  init_file=path if os.path.exists(path) else None)
            out["restarts"][pol] = dict(rc2=rc2, ev2=ev2, res2=res2, err2=err2, path2=path2)
        return out

    with ThreadPoolExecutor(max_workers=WORKERS) as ex:
        results = list(ex.map(crash_and_restart, jobs))
    for (st, k), o in zip(jobs, results):
        cfg, name, K = st["cfg"], st["cfg"]["name"], st["K"]
        ec, ei = modes(cfg)
        n_children += 1 + len(o["restarts"])
        sig = dict(st["sig0"], crash_at_class="first" if k == 1 else "later")
        case = {"config": name, "crash_in_execution": k, "of": K}
        if o["rc"] != 99:
            raise MachineryError(f"child {name} k={k} did not die as planned: rc={o['rc']}")
        if "unloadable" in o:
            ck.violation("FileLoadable", sig, dict(case, error=o["unloadable"]))
            continue
        want = crashfile.get((st["t_ref"]["id"], k))
        if want is None:
            raise MachineryError(f"no CRASHFILE prediction for {name} k={k}")
        got = o["file"] or []
        got_abs = [(R.pid(p), frozenset(OUT_IDS.get(n, 99) for n in vals)) for p, vals in got]
        if got_abs != want:
            ck.violation("FileExact" if ec else "FileAtLastIteration", sig,
                         dict(case, spec_file=[(p, sorted(s)) for p, s in want], real_file=[(p, sorted(s)) for p, s in got_abs]))
            continue
        bad = [(R.pid(p), n) for p, vals in got for n, v in vals.items() if st["ref_vals"].get((R.pid(p), n)) != v]
        if bad:
            ck.violation("FileValues", sig, dict(case, differing=bad[:5]))
            continue
        ck.traces += 1
        for pol, rs in o["restarts"].items():
            if rs["rc2"] != 0 or rs["res2"] is None:
                ck.violation("RestartCompletes", dict(sig, rc=rs["rc2"], policy=pol), dict(case, stderr=rs["err2"]))
                continue
            t2 = R.to_trace(f"{name}/restart@{k}/{pol}", rs["ev2"], None, policy=pol, maxiter=cfg.get("max_iter", 0),
                            exact=0 if cfg.get("normalize") else 1, ref=st["ref_hist"], refcause=st["ref"]["cause"])
            st.setdefault("restart_traces", []).append(t2)
            st.setdefault("meta", {})[t2["id"]] = (k, pol, o, rs)
    matrix = {}
    crashfile2 = {}
    for mode in sorted({modes(c) for c in configs}):
        group = [st for st in state.values() if modes(st["cfg"]) == mode and st.get("restart_traces")]
        traces = []
        for st in group:
            for t in st["restart_traces"]:
                t["req"] = req_list(st)
                traces.append(t)
        if not traces:
            continue
        r2, verdict2, cf2, done2 = validate(ck, traces, mode[0], mode[1], len(R.points))
        crashfile2.update(cf2)
        for st in group:
            cfg, name, ref = st["cfg"], st["cfg"]["name"], st["ref"]
            for t in st["restart_traces"]:
                k, pol, o, rs = st["meta"][t["id"]]
                sig = dict(st["sig0"], run="restart", policy=pol)
                case = {"config": name, "crash_in_execution": k, "of": st["K"], "loaded_entries": len(t["init"]),
                        "counter_policy": pol, "uninterrupted_run_ended_by": ref["cause"]}
                reached, total = verdict2.get(t["id"], (0, -1))
                if reached != total:
                    nxt = t["events"][reached] if 0 <= reached < len(t["events"]) else None
                    clause = "NoRework" if nxt and nxt["ev"] == "exec_start" else "TraceConformance"
                    ck.violation(clause, dict(sig, event=nxt and nxt["ev"]),
                                 dict(case, matched_prefix=reached, of=total, next_event=nxt, loaded=t["init"]))
                    continue
                res2 = rs["res2"]
                judged = done2.get(t["id"])
                if judged is None:
                    raise MachineryError(f"no DONE verdict for {t['id']}")
                case.update(restarted_run_ended_by=judged["cause"], entries=judged["entries"])
                # loaded entries kept (values too), same history when TLC says it is due, optimum no worse
                loaded = o["file"] or []
                got_db = [(e["pt"], e["vals"]) for e in res2["db"]]
                kept = True
                for (p, vals), (p2, vals2) in zip(loaded, got_db):
                    if R.pid(p) != R.pid(p2) or any(vals2.get(n) != v for n, v in vals.items()):
                        ck.violation("LoadedKept", sig, dict(case, loaded=(p, vals), final=(p2, vals2)))
                        kept = False
                        break
                if not kept:
                    continue
                ref_db = [(R.pid(e["pt"]), e["vals"]) for e in ref["db"]]
                new_db = [(R.pid(e["pt"]), e["vals"]) for e in res2["db"]]
                hist = dict(case, reference_points=[p for p, _ in ref_db], restarted_points=[p for p, _ in new_db])
                if judged["due"]:
                    # TLC: same points, same outputs, same order; here: the values themselves
                    if not judged["same"] or ref_db != new_db:
                        ck.violation("SameHistory", dict(sig, ref_ended_by=ref["cause"]), hist)
                        continue
                    if cfg["kind"] == "mdo" and (res2["f_opt"] != ref["f_opt"] or res2["x_opt"] != ref["x_opt"]):
                        ck.violation("SameHistory", dict(sig, ref_ended_by=ref["cause"], part="optimum"),
                                     dict(case, ref=ref["f_opt"], restarted=res2["f_opt"]))
                        continue
                elif t["exact"]:
                    # budget-terminated run restarted with a fresh budget: the uninterrupted history is kept
                    # and continued
                    if not judged["prefix"] or any(v2.get(n) != v for (_, vs), (_, v2) in zip(ref_db, new_db)
                                                   for n, v in vs.items()):
                        ck.violation("RefIsPrefix", dict(sig, ref_ended_by=ref["cause"]), hist)
                        continue
                if cfg["kind"] == "mdo" and loaded:
                    feas = [vals["f"][0] for p, vals in loaded if "f" in vals and "g" in vals and vals["g"][0] <= 1e-6]
                    if feas and res2["is_feasible"] and res2["f_opt"] > min(feas) + 1e-12:
                        ck.violation("OptimumNoWorse", sig, dict(case, best_loaded=min(feas), reported=res2["f_opt"]))
                        continue
                ck.traces += 1
                if not judged["count"]:
                    ck.extra["counter_differs_from_model"] = ck.extra.get("counter_differs_from_model", 0) + 1
                if t["exact"] and cfg["kind"] == "mdo":
                    key = f"{ref['cause']}/{pol}/{'late' if k in st['late'] else 'early'}"
                    matrix[key] = matrix.get(key, 0) + 1
    # ---- 5. a second crash during a restarted run: "file already containing earlier data"
    second = []
    for st in state.values():
        ts = st.get("restart_traces") or []
        if ts:
            t = ts[len(ts) // 2]
            k1, pol, o1, rs = st["meta"][t["id"]]
            n2 = rs["res2"]["n_exec"]
            if n2 >= 1:
                second.append((st, t, k1, pol, o1, max(1, n2 // 2)))

    def second_crash(job):
        st, t, k1, pol, o1, k2 = job
        return R.child(child_cfg(st["cfg"], crash_at=k2, load=True, policy=pol),
                       init_file=o1["path"] if os.path.exists(o1["path"]) else None)

    with ThreadPoolExecutor(max_workers=WORKERS) as ex:
        results = list(ex.map(second_crash, second))
    for (st, t, k1, pol, o1, k2), (rc3, ev3, res3, path3, err3) in zip(second, results):
        n_children += 1
        ec, ei = modes(st["cfg"])
        sig = dict(st["sig0"], run="second_crash")
        case = {"config": st["cfg"]["name"], "first_crash": k1, "second_crash": k2, "counter_policy": pol}
        want = crashfile2.get((t["id"], k2))
        try:
            got = load_file(path3) or []
        except Exception as ex:  # noqa: BLE001
            ck.violation("FileLoadable", sig, dict(case, error=repr(ex)))
            got = None
        if got is not None and want is not None:
            got_abs = [(R.pid(p), frozenset(OUT_IDS.get(n, 99) for n in vals)) for p, vals in got]
            if got_abs != want:
                ck.violation("FileExact" if ec else "FileAtLastIteration", sig,
                             dict(case, spec_file=[(p, sorted(s)) for p, s in want],
                                  real_file=[(p, sorted(s)) for p, s in got_abs]))
            else:
                ck.traces += 1
    ck.extra["child_processes"] = n_children
    ck.extra["configs"] = {c["name"]: {"ended_by": state[c["name"]]["ref"]["cause"], "discipline_executions": state[c["name"]]["K"],
                                       "iterations": len(state[c["name"]]["ref"]["db"]), "policies": c["policies"]}
                           for c in configs}
    ck.extra["restarts_judged_by_cause_policy_crashpoint"] = matrix
    # ---- vacuity (only meaningful when nothing was reported): the configurations end for the cause they are
    # there for, and every cause x policy was restarted from late crash points
    if not ck.violations:
        for c in configs:
            got = state[c["name"]]["ref"]["cause"]
            if c.get("expect_cause") and got != c["expect_cause"]:
                raise MachineryError(f"vacuity: the uninterrupted run of {c['name']} was ended by '{got}' "
                                     f"({state[c['name']]['ref']['message']!r}), not by '{c['expect_cause']}'")
        for cause in ("budget", "tol", "algo"):
            for pol in ("reset", "kept"):
                if not matrix.get(f"{cause}/{pol}/late"):
                    raise MachineryError(f"vacuity: no restart judged for {cause}/{pol}/late: {matrix}")
        late = state["mdo-call-tolerance-stopped"]["late"]
        n_tol_late = sum(1 for (st, k) in jobs if st["cfg"]["name"] == "mdo-call-tolerance-stopped" and k in late)
        if n_tol_late != len(late):
            raise MachineryError("vacuity: not every late crash point of the tolerance-stopped run was replayed")
    ck.assumptions += [
        "a crash is process death (os._exit) inside Discipline._run; HDF5 writes completed before the death are durable",
        "existing backup file + neither load nor erase is not exercised (behaviour not documented)",
        "eachIter: exactness is demanded at the option's granularity (file = database when the newest iteration was opened), see DESIGN.md C12",
        "SameHistory is demanded for every (cause of the uninterrupted run) x (counter policy of the restart) except "
        "budget x reset (documented: a fresh budget), where the uninterrupted history must be a prefix (Backup!SameHistoryDue)",
    ]


if __name__ == "__main__":
    main("C12", run)
