"""C01 - problem evaluations are faithful, memoized and recorded in physical space.

specs/ProblemEval.tla is checked by TLC (state invariants + action properties) and bound to gemseo
spec->code:
 (1) the complete state graph of the bounded model (every preprocessing configuration x design space of
     the catalogue x every history of <= MaxLevel-1 public calls) is dumped; a transition tour replays
     EVERY transition on a real OptimizationProblem built for the initial state (harness MDOFunction /
     MDOLinearFunction with call logs inside the callables) and compares, after every call, the returned
     values / Jacobians, the whole database (keys, order, names, values, recorded Jacobians) and the logs
     of the original calls with the state TLC computed;
 (2) `tlc -simulate` behaviours (longer histories, 3 request points, the other function pair) are
     replayed the same way;
 (2b) the Repreprocess action is replayed as problem.reset() + a new preprocess_functions(c) on the SAME
     original function objects (second run on a problem); after every call the original function objects
     (values, Jacobians, coefficients of the linear ones: dense, csr_array or csr_matrix depending on the
     variant) are compared with the specification's F / DF (clause OriginalIntact);
 (2c) caller-owned arrays (specs/ProblemEvalRef.tla, EXTENDS ProblemEval): the array given to a call and the
     arrays a call returns are cells of the caller; the actions MutateArg (arg[:] = another request) and
     MutateReturned (every returned array += 1) are replayed as in-place edits of the very numpy objects of
     the last call, and the database / call logs are compared with TLC's state right after the edit and after
     every later call (a request at the recorded point is served from the database with the first result);
 (3) TLC must refute the property when the two rules of the code that contradict it are put into the
     specification as coded (LinRule / GradRule = "asCoded"): the defects are found at specification level;
     likewise the by-reference storage models KeyByRef / ValueByRef of ProblemEvalRef must be refuted.
The oracle is the TLA+ state; Python only builds the objects, divides/multiplies by the scale and compares.
"""
from __future__ import annotations

import itertools
import multiprocessing
import os
import random
import re

import numpy as np

from .. import tlaval
from ..core import Check, Graph, MachineryError, main

S = 64
INVS = ["TypeOK", "Faithful", "JacCoords", "Recorded", "KeysDistinct", "NonEmptyEntries", "Memo",
        "NoJacStored", "NoDbNoRecord"]
PROPS = ["KeysAppendOnly", "WriteOnce", "ConfigFixed", "ServedFromDb", "PreprocessIdempotent"]
# specs/ProblemEvalRef.tla (EXTENDS ProblemEval): the caller-owned arrays (argument / returned cells) and the
# caller's in-place edits of them
INVS_R = ["TypeOKR"]
PROPS_R = ["CallerCannotCorrupt"]
EDITS = ("MutateArg", "MutateReturned")
CALLS = ("EvalF", "EvalJ", "EvalAll", "Preprocess", "Repreprocess") + EDITS
ACTIONS = ("CEvalF", "CEvalJ", "CEvalAll", "CPreprocess", "CRepreprocess") + EDITS
ALL_SPACES = ["finite", "equal", "halfinf", "inf", "int", "intnorm", "mixed3", "allint", "intneg"]
MODULE = "ProblemEvalRef"


def cfg_text(spaces, fn1, fn2, npts, max_calls, max_level, lin="noInteger", grad="scaleOnly", max_mut=1,
             key_by_ref=False, value_by_ref=False):
    """max_level: bound on the behaviour length in states counting the public calls only (BaseLevel);
    max_mut in-place edits of the caller's arrays may be interleaved (MaxLevel = BaseLevel + MaxMut)."""
    s = "CONSTANTS\n SpaceIds = {" + ", ".join(f'"{x}"' for x in spaces) + "}\n"
    s += f' Fn1 = "{fn1}"\n Fn2 = "{fn2}"\n NPts = {npts}\n MaxCalls = {max_calls}\n'
    s += f' BaseLevel = {max_level}\n MaxMut = {max_mut}\n MaxLevel = {max_level + max_mut}\n'
    s += f' KeyByRef = {"TRUE" if key_by_ref else "FALSE"}\n ValueByRef = {"TRUE" if value_by_ref else "FALSE"}\n'
    s += f' LinRule = "{lin}"\n GradRule = "{grad}"\nSPECIFICATION SpecR\nCHECK_DEADLOCK FALSE\n'
    s += "".join(f"INVARIANT {i}\n" for i in INVS + INVS_R) + "".join(f"PROPERTY {p}\n" for p in PROPS + PROPS_R)
    return s


# ----------------------------------------------------------------------------- user functions
# The callables a user would write (inputs of the experiment, not the oracle); they are calibrated against
# the specification's F / DF on every point of the catalogue before anything is replayed.

def _qs(x):  # (also called with complex x by the complex-step approximation)
    n = len(x)
    return sum(x[i] * x[i] + (i + 2) * x[i] for i in range(n)) + x[0] * x[n - 1]


def _dqs(x):
    n = len(x)
    g = np.array([2 * x[i] + (i + 2) for i in range(n)], dtype=float)
    g[0] += x[n - 1]
    g[n - 1] += x[0]
    return g


def _q2(x):
    return x[0] * x[len(x) - 1] - x[0]


def _dq2(x):
    n = len(x)
    g = np.zeros(n)
    g[0] += x[n - 1] - 1
    g[n - 1] += x[0]
    return g


class Logged:
    """A user callable that logs the points it is called at (the `orig` variable of the specification)."""

    def __init__(self, fn, log):
        self.fn = fn
        self.log = log

    def __call__(self, x):
        self.log.append(np.array(x, dtype=float))
        return self.fn(x)


# binding-only dimensions (the specification's values do not depend on them):
#  diff            user derivatives / finite differences / complex step (approximations only on spaces without
#                  integer variable, compared with a tolerance; complex step as the drivers use it:
#                  design_space.to_complex() before the preprocessing)
#  jac             class of the user's Jacobian (ndarray, csr_array, csc_array) and of the linear coefficients
#  support_sparse  preprocess_functions(support_sparse_jacobian=...)
#  role2           the second function is a constraint / an observable
#  grouped         one vector variable instead of scalar variables (spaces without integer variable)
#  build           HOW the same design space is declared: bounds given to add_variable, or set afterwards with
#                  set_lower_bound / set_upper_bound in either order
#  cur             current value of the design space: none / set from a float array / from an int array
#  pre_norm        the design space has already normalised a vector before the problem is preprocessed
VARIANT_DIMS = {
    "diff": ("user", "finite_differences", "complex_step"),
    "jac": ("dense", "csr", "csc"),
    "support_sparse": (False, True),
    "role2": ("constraint", "observable"),
    "grouped": (False, True),
    "build": ("add", "lb_then_ub", "ub_then_lb"),
    "cur": ("none", "float", "int"),
    "pre_norm": (False, True),
}
VARIANTS = [dict(zip(VARIANT_DIMS, vals)) for vals in itertools.product(*VARIANT_DIMS.values())]
FD_ATOL = 1e-4 * S  # forward differences / complex step with the default step 1e-7, quadratics with |f''| <= 32


class Harness:
    """A real OptimizationProblem for one initial state (cfg, space) of the specification."""

    def __init__(self, cfgd, sp, fns, lin_data, variant):
        from gemseo.algos.design_space import DesignSpace
        from gemseo.algos.optimization_problem import OptimizationProblem
        from gemseo.core.mdo_functions.mdo_function import MDOFunction
        from gemseo.core.mdo_functions.mdo_linear_function import MDOLinearFunction
        from scipy.sparse import csc_array
        from scipy.sparse import csc_matrix
        from scipy.sparse import csr_array

        self.cfg = cfgd
        self.sp = sp
        self.fns = fns
        comps = list(sp["comps"])
        self.n = n = len(comps)
        self.int_cols = [i for i, c in enumerate(comps) if c["int"]]
        ds = DesignSpace()
        lb = [-np.inf if c["lbInf"] else c["lb"] / S for c in comps]
        ub = [np.inf if c["ubInf"] else c["ub"] / S for c in comps]
        # the same space, declared in different ways
        if variant["grouped"] and not self.int_cols:
            decl = [("x", n, "float", np.array(lb), np.array(ub))]
        else:
            decl = [(f"x{i}", 1, "integer" if c["int"] else "float", lb[i], ub[i]) for i, c in enumerate(comps)]
        for name, size, type_, lo, up in decl:
            if variant["build"] == "add":
                ds.add_variable(name, size, type_=type_, lower_bound=lo, upper_bound=up)
                continue
            ds.add_variable(name, size, type_=type_)
            setters = [(ds.set_lower_bound, lo, -np.inf), (ds.set_upper_bound, up, np.inf)]
            for setter, bound, default in (setters if variant["build"] == "lb_then_ub" else setters[::-1]):
                if np.any(np.asarray(bound) != default):
                    setter(name, bound)
        if sp["intNorm"]:
            ds.enable_integer_variables_normalization = True
        self.ds = ds
        self.logs = {f: {"f": [], "j": []} for f in fns}
        sparse = variant["jac"] != "dense"
        self.fd = variant["diff"] != "user" and not self.int_cols
        self.diff = variant["diff"] if self.fd else "user"
        # current value: an integer inside the bounds for every component
        cur = "float" if self.diff == "complex_step" else variant["cur"]
        self.cur = cur
        x0 = [int(-(-c["lb"] // S)) if not c["lbInf"] else (int(c["ub"] // S) if not c["ubInf"] else 0) for c in comps]
        if cur != "none":
            ds.set_current_value(np.array(x0, dtype=np.int64 if cur == "int" else np.float64))
        if variant["pre_norm"]:
            ds.normalize_vect(np.array(x0, dtype=float))
        if self.diff == "complex_step":
            ds.to_complex()  # what BaseOptimizationLibrary does before preprocessing the functions
        self.problem = problem = OptimizationProblem(ds, differentiation_method=self.diff)
        self.lin = {}
        self.mdo = mdo = {}
        # class of the coefficient matrix of the linear functions (binding-only, derived from the variant)
        self.lin_coeff = {"dense": "ndarray", "csr": "csr_array", "csc": "csc_matrix"}[variant["jac"]]
        sp_cls = csc_array if variant["jac"] == "csc" else csr_array
        for f in fns:
            lg = self.logs[f]
            if f in ("qs", "qv"):
                if f == "qs":
                    val, jac = _qs, ((lambda x: sp_cls(_dqs(x).reshape(1, -1))) if sparse else _dqs)
                else:
                    val = lambda x: np.array([_qs(x), _q2(x)])  # noqa: E731
                    dj = lambda x: np.vstack([_dqs(x), _dq2(x)])  # noqa: E731
                    jac = (lambda x: sp_cls(dj(x))) if sparse else dj
                mdo[f] = MDOFunction(Logged(val, lg["f"]), f, jac=Logged(jac, lg["j"]))
            else:
                a, b = self.lin[f] = lin_data[(f, n)]
                # sparse coefficients: the user's own matrix object is kept by the function
                coefficients = {"csc_matrix": csc_matrix, "csr_array": csr_array, "ndarray": np.array}[self.lin_coeff](a)
                mdo[f] = MDOLinearFunction(coefficients, f, value_at_zero=b.copy())
                mdo[f].func = Logged(mdo[f].func, lg["f"])
                mdo[f].jac = Logged(mdo[f].jac, lg["j"])
        problem.objective = mdo[fns[0]]
        if variant["role2"] == "constraint":
            problem.add_constraint(mdo[fns[1]], constraint_type="ineq")
        else:
            problem.add_observable(mdo[fns[1]])
        self.variant = variant
        self.lin_jac_edited = set()
        self.first_preprocess(cfgd)

    def first_preprocess(self, c):
        """preprocess_functions on the original functions (at construction, or after problem.reset())."""
        self.cfg = c
        self.preprocess(c)
        self.lin_jac_edited = set()  # (new problem functions)
        for f in self.fns:  # MDOLinearFunction.normalize evaluates the original once while preprocessing
            self.logs[f]["f"].clear()
            self.logs[f]["j"].clear()
        problem = self.problem
        second = problem.constraints if self.variant["role2"] == "constraint" else problem.observables
        self.fobj = {self.fns[0]: problem.objective, self.fns[1]: second[0]}

    def originals(self, f, x):
        """Value and Jacobian of the ORIGINAL function object f (not logged)."""
        m = self.mdo[f]
        return m.func.fn(x), m.jac.fn(x)

    def preprocess(self, c):
        self.problem.preprocess_functions(
            is_function_input_normalized=bool(c["normalize"]), use_database=bool(c["useDb"]),
            round_ints=bool(c["roundInts"]), store_jacobian=bool(c["storeJac"]),
            support_sparse_jacobian=self.variant["support_sparse"])

    # -- one public call, as named by ret.call of the specification
    def call(self, call):
        name = call[0]
        if name in EDITS:
            return self.edit(call)
        # the caller's cells (specs/ProblemEvalRef.tla: arg, rets): the array given to this call and the
        # arrays it returns stay in the caller's hands, who may edit them in place afterwards
        self.arg = None
        self.returned = None
        got = self._call(call)
        self.returned = got
        return got

    def edit(self, call):
        """MutateArg / MutateReturned: in-place edits of the arrays of the last call."""
        if call[0] == "MutateArg":
            if self.arg is None or self.arg.shape != (len(call[1]),):
                raise MachineryError(f"MutateArg {call!r} without an argument array of the last call")
            self.arg[...] = np.array(call[1], dtype=float) / S
        else:
            arrays = [a for d in (self.returned["outs"], self.returned["jacs"]) for a in d.values()]
            if not arrays:
                raise MachineryError("MutateReturned without a returned array")
            # classification only (signature of D0111): a Jacobian returned for a linear function in the
            # MDOLinearFunction.normalize branch (normalised inputs, no integer variable) has been edited
            if self.cfg["normalize"] and not self.int_cols:
                self.lin_jac_edited |= {f for f in self.returned["jacs"] if f in self.lin}
            # storage of the user's ORIGINAL function objects (MDOLinearFunction.jac returns its own coefficient
            # matrix): what a caller does to it is between the caller and the user's function, not C01's
            own = []
            for f in self.lin:
                co = self.mdo[f].coefficients
                own += [co.data if hasattr(co, "toarray") else np.asarray(co), np.asarray(self.mdo[f].value_at_zero)]
            for a in arrays:
                target = a.data if hasattr(a, "toarray") else a  # sparse: the explicit entries
                if not isinstance(target, np.ndarray) or not target.flags.writeable or target.ndim == 0:
                    continue  # nothing the caller could edit in place
                if any(np.shares_memory(target, o) for o in own):
                    continue
                target += 1
        return {"outs": {}, "jacs": {}}

    def _call(self, call):
        name = call[0]
        if name == "EvalF":
            self.arg = np.array(call[2], dtype=float) / S
            return {"outs": {call[1]: self.fobj[call[1]].evaluate(self.arg)}, "jacs": {}}
        if name == "EvalJ":
            self.arg = np.array(call[2], dtype=float) / S
            return {"outs": {}, "jacs": {call[1]: self.fobj[call[1]].jac(self.arg)}}
        if name == "EvalAll":
            self.arg = np.array(call[1], dtype=float) / S
            outs, jacs = self.problem.evaluate_functions(
                self.arg, design_vector_is_normalized=bool(call[2]),
                jacobian_functions=() if call[3] else None)
            return {"outs": outs, "jacs": jacs}
        if name == "Preprocess":
            self.preprocess(call[1])
            return {"outs": {}, "jacs": {}}
        if name == "Repreprocess":
            self.problem.reset()
            if self.problem.objective is not self.mdo[self.fns[0]]:
                raise RuntimeError("problem.reset() did not restore the original objective")
            self.first_preprocess(call[1])
            return {"outs": {}, "jacs": {}}
        raise MachineryError(f"unknown call {call!r}")

    def database(self):
        out = []
        for k, v in self.problem.database.items():
            e = {"key": vec(k.wrapped_array), "vals": {}, "jacs": {}}
            for name, val in v.items():
                if name.startswith("@"):
                    e["jacs"][name[1:]] = mat(val)
                else:
                    e["vals"][name] = vec(val)
            out.append(e)
        return out


def vec(v):
    """gemseo value -> list of scaled numbers (ints when exact)."""
    a = np.atleast_1d(np.asarray(v, dtype=float)).ravel() * S
    return [int(t) if float(t).is_integer() else float(t) for t in a]


def mat(j):
    if hasattr(j, "toarray"):
        j = j.toarray()
    a = np.atleast_2d(np.asarray(j, dtype=float)) * S
    return [[int(t) if float(t).is_integer() else float(t) for t in row] for row in a]


def spec_vec(v):
    return list(v)


def spec_mat(m):
    return [list(r) for r in m]


# ----------------------------------------------------------------------------- comparison of one step

def compare_step(ck: Check, h: Harness, state, got, ctx):
    """Compare the implementation after one call with the specification's state. Returns the number of
    violations that are not known findings."""
    ret, fns = state["ret"], h.fns
    cfgd, sp = h.cfg, h.sp
    bad = 0
    if dict(state["cfg"]) != dict(cfgd):
        raise MachineryError(f"driver configuration {cfgd} differs from the specification's {state['cfg']}")

    def sig(clause, f, kind, **kw):
        s = {"clause": clause, "function": "linear" if f.startswith("l") else "quadratic", "kind": kind,
             "space": str(sp["id"]), "int_var": bool(h.int_cols), "normalize": bool(cfgd["normalize"]),
             "use_db": bool(cfgd["useDb"]), "store_jac": bool(cfgd["storeJac"]),
             "round_ints": bool(cfgd["roundInts"]), "frac_int": bool(ctx["frac"]), "call": str(ret["call"][0]),
             "neg_zero_key": neg_zero, "nonfloat_key": nonfloat_key,
             # the history so far contains evaluate_functions(<normalised vector>): the only call of the
             # alphabet that builds its database key through unnormalize_vect's common dtype (D0108)
             "norm_evalall_in_history": any(c[0] == "EvalAll" and bool(c[2]) for c in ctx["calls"]),
             # the caller has edited in place the array it gave to / an array it got from an earlier call
             "arg_mutated": n_edits["MutateArg"] > 0, "returned_mutated": n_edits["MutateReturned"] > 0,
             "lin_jac_edited": f in h.lin_jac_edited}
        s.update(diff=h.diff, jac=h.variant["jac"], support_sparse=h.variant["support_sparse"],
                 build=h.variant["build"], cur=h.cur, pre_norm=h.variant["pre_norm"])
        s.update(kw)
        return s

    def detail(**kw):
        d = {"cfg": cfgd, "space": sp, "functions": list(fns), "variant": h.variant,
             "calls_so_far": ctx["calls"], "step": len(ctx["calls"])}
        d.update(kw)
        return d

    n_edits = {e: sum(1 for c in ctx["calls"] if c[0] == e) for e in EDITS}

    def bumped(exp, act):
        """Classification only (signature of D0110): the implementation's numbers are the specification's
        plus the caller's in-place edits of returned arrays (+1 each, MutateReturned)."""
        if act is None or not n_edits["MutateReturned"]:
            return False
        e, a = np.array(exp, dtype=float), np.array(act, dtype=float)
        if e.shape != a.shape or not e.size:
            return False
        d = (a - e) / S
        tol = FD_ATOL / S if h.fd else 0.0  # (approximated Jacobians are compared with a tolerance)
        k = np.round(d)
        return bool(np.all((np.abs(d - k) <= tol) & (k >= 0) & (k <= n_edits["MutateReturned"])) and np.any(k > 0))

    def jac_diff(exp, act, physical):
        """Classification only (signature of D0101): the implementation differs from the specification
        only in the columns of integer variables, and there its entries are whole numbers in the
        caller's coordinates (a physical, recorded entry is first scaled by the width when integer
        variables are normalised)."""
        if len(exp) != len(act) or any(len(a) != len(b) for a, b in zip(exp, act)):
            return False
        cols = {i for r, (a, b) in enumerate(zip(exp, act)) for i, (x, y) in enumerate(zip(a, b)) if x != y}
        if not cols or not cols <= set(h.int_cols):
            return False
        for i in cols:
            c = sp["comps"][i]
            w = (c["ub"] - c["lb"]) / S if physical and cfgd["normalize"] and sp["intNorm"] else 1
            if any(not float(row[i] * w / S).is_integer() for row in act):
                return False
        return True

    # classification only: numpy's -0.0 among the implementation's keys
    neg_zero = any(bool(np.any(np.signbit(np.real(k.wrapped_array)) & (k.wrapped_array == 0))) for k in h.problem.database)
    nonfloat_key = any(k.wrapped_array.dtype != np.float64 for k in h.problem.database)
    # returned values / Jacobians
    for f in fns:
        exp = spec_vec(ret["outs"][f])
        if exp or f in got["outs"]:
            act = vec(got["outs"][f]) if f in got["outs"] else None
            if act != exp:
                bad += ck.violation("Faithful", sig("Faithful", f, "value", where="return", bumped=bumped(exp, act)),
                                    detail(function=f, spec=exp, impl=act))
        expj = spec_mat(ret["jacs"][f])
        if expj or f in got["jacs"]:
            actj = mat(got["jacs"][f]) if f in got["jacs"] else None
            if not same_jac(h, expj, actj):
                bad += ck.violation("JacCoords", sig("JacCoords", f, "jac", where="return", bumped=bumped(expj, actj),
                                                     rounded_int_cols_only=actj is not None and jac_diff(expj, actj, False)),
                                    detail(function=f, spec=expj, impl=actj))
    # database: keys, order, names, values
    sdb = tlaval.seq(state["db"]) if state["db"] else []
    idb = h.database()
    skeys = [spec_vec(e["key"]) for e in sdb]
    ikeys = [e["key"] for e in idb]
    if skeys != ikeys:
        clause = "NoDbNoRecord" if not cfgd["useDb"] else "Keys"
        bad += ck.violation(clause, sig(clause, fns[0], "keys", where="db"), detail(spec=skeys, impl=ikeys))
    else:
        for se, ie in zip(sdb, idb):
            for f in fns:
                exp = spec_vec(se["vals"][f])
                act = ie["vals"].get(f)
                if (act or []) != exp:
                    bad += ck.violation("Recorded", sig("Recorded", f, "value", where="db", bumped=bumped(exp, act)),
                                        detail(function=f, key=se["key"], spec=exp, impl=act))
                expj = spec_mat(se["jacs"][f])
                actj = ie["jacs"].get(f)
                if not same_jac(h, expj, actj or []):
                    clause = "Recorded" if cfgd["storeJac"] else "NoJacStored"
                    bad += ck.violation(clause, sig(clause, f, "jac", where="db", bumped=bumped(expj, actj or None),
                                                    rounded_int_cols_only=bool(actj) and jac_diff(expj, actj, True)),
                                        detail(function=f, key=se["key"], spec=expj, impl=actj))
            extra = (set(ie["vals"]) | set(ie["jacs"])) - set(fns)
            if extra:
                bad += ck.violation("Recorded", sig("Recorded", fns[0], "names", where="db"),
                                    detail(key=se["key"], unexpected_names=sorted(extra)))
    # the user's original function objects are still the functions F / DF of the specification
    for f in fns:
        problems = []
        if f in h.lin:
            a, b = h.lin[f]
            co = h.mdo[f].coefficients
            co = co.toarray() if hasattr(co, "toarray") else np.asarray(co)
            if not (np.array_equal(co, a) and np.array_equal(np.asarray(h.mdo[f].value_at_zero).ravel(), b)):
                problems.append({"coefficients": co.tolist(), "spec": a.tolist()})
        for pt in sp["pts"]:
            want = ctx["calib"].get((str(sp["id"]), f, tuple(pt)))
            if want is None:
                raise MachineryError(f"no calibration record for {sp['id']} {f} {pt}")
            val, jac = h.originals(f, np.array(pt, dtype=float) / S)
            if vec(val) != list(want[0]) or mat(jac) != [list(r) for r in want[1]]:
                problems.append({"point": list(pt), "impl": [vec(val), mat(jac)], "spec": want})
        if problems:
            bad += ck.violation("OriginalIntact", sig("OriginalIntact", f, "original"),
                                detail(function=f, problems=problems))
    # original calls
    for f in fns:
        for kind in ("f", "j"):
            exp = [spec_vec(p) for p in state["orig"][f][kind]]
            act = [vec(p) for p in h.logs[f][kind]]
            if h.fd:
                # approximated derivatives: the user's Jacobian is never called; every Jacobian the
                # specification computes costs n or n + 1 evaluations of the user's function (probe points),
                # a Jacobian served from the database costs none
                if kind == "j":
                    ok = not act
                elif f.startswith("l"):
                    ok = True
                else:
                    it = iter(act)
                    nj = len(state["orig"][f]["j"])
                    ok = all(any(a == e for a in it) for e in exp) and \
                        len(exp) + h.n * nj <= len(act) <= len(exp) + (h.n + 1) * nj
            elif f.startswith("l"):
                # MDOLinearFunction has no user callable: the scaled twin may be evaluated instead of the
                # original; only "never more than the specification allows" is demanded
                it = iter(exp)
                ok = all(any(a == e for e in it) for a in act)
            else:
                ok = act == exp
            if not ok:
                bad += ck.violation("Memo", sig("Memo", f, "value" if kind == "f" else "jac", where="calls"),
                                    detail(function=f, what=kind, spec=exp, impl=act))
    return bad


def same_jac(h, exp, act):
    if not h.fd or not exp or not act:
        return act == exp
    a, e = np.array(act, dtype=float), np.array(exp, dtype=float)
    return a.shape == e.shape and bool(np.all(np.abs(a - e) <= FD_ATOL))


def replay(ck: Check, states, fns, lin_data, variant, label):
    """states: list of parsed specification states, states[0] initial. One behaviour on a fresh problem."""
    s0 = states[0]
    cfgd, sp = s0["cfg"], s0["sp"]
    base_sig = {"space": str(sp["id"]), "normalize": bool(cfgd["normalize"]), "use_db": bool(cfgd["useDb"]),
                "round_ints": bool(cfgd["roundInts"]), "store_jac": bool(cfgd["storeJac"])}
    try:
        h = Harness(cfgd, sp, fns, lin_data, variant)
    except MachineryError:
        raise
    except Exception as ex:  # noqa: BLE001
        import traceback

        ck.violation("Preprocess", dict(base_sig, call="preprocess_functions", exception=type(ex).__name__),
                     {"cfg": cfgd, "space": sp, "variant": variant, "traceback": traceback.format_exc(limit=8)})
        return
    ctx = {"calls": [], "frac": False, "calib": lin_data["calib"]}
    base_sig.update(diff=h.diff, build=variant["build"], cur=h.cur, pre_norm=variant["pre_norm"])
    for st in states[1:]:
        call = st["ret"]["call"]
        ctx["calls"].append(call)
        ctx["frac"] = ctx["frac"] or bool(st["ret"]["frac"])
        ok, got = ck.guard("Evaluates", dict(base_sig, call=str(call[0]), int_var=bool(h.int_cols),
                                             normalize=bool(h.cfg["normalize"]), use_db=bool(h.cfg["useDb"]),
                                             jac=variant["jac"], support_sparse=variant["support_sparse"],
                                             lin_coeff=h.lin_coeff),
                           h.call, call)
        if not ok:
            return
        if compare_step(ck, h, st, got, ctx):
            return  # an unknown disagreement: the rest of the behaviour is not meaningful
    ck.traces += 1
    ck.sample({"from": label, "cfg": cfgd, "space": str(sp["id"]), "functions": list(fns), "variant": variant,
               "calls": ctx["calls"], "final_db_keys": [list(e["key"]) for e in (tlaval.seq(states[-1]["db"]) if states[-1]["db"] else [])]})


_JOB = None  # (ck, fns, lin_data, jobs) inherited by the forked replay workers


def _replay_chunk(bounds):
    ck, fns, lin_data, jobs = _JOB
    ck.violations, ck.known_hits, ck.traces, ck.samples = [], {}, 0, []
    for states, variant, label in jobs[bounds[0]:bounds[1]]:
        replay(ck, states, fns, lin_data, variant, label)
    return ck.violations, ck.known_hits, ck.traces, ck.samples


def replay_many(ck: Check, fns, lin_data, jobs):
    """Replay behaviours on the implementation in forked worker processes (results merged in order)."""
    global _JOB
    import gemseo.algos.optimization_problem  # noqa: F401  (import once, before forking)
    import gemseo.core.mdo_functions.mdo_linear_function  # noqa: F401
    import scipy.sparse  # noqa: F401

    nproc = max(1, min(6 if ck.thorough else 4, (os.cpu_count() or 2) // 2, len(jobs) // 50 + 1))
    step = max(1, -(-len(jobs) // (nproc * 4)))
    chunks = [(i, min(i + step, len(jobs))) for i in range(0, len(jobs), step)]
    _JOB = (ck, fns, lin_data, jobs)
    try:
        if nproc == 1:
            saved = (ck.violations, ck.known_hits, ck.traces, ck.samples)
            results = [_replay_chunk(c) for c in chunks]
            ck.violations, ck.known_hits, ck.traces, ck.samples = saved
        else:
            with multiprocessing.get_context("fork").Pool(nproc) as pool:
                results = pool.map(_replay_chunk, chunks, chunksize=1)
    finally:
        _JOB = None
    for viol, known, traces, samples in results:
        ck.violations += viol
        for k, n in known.items():
            ck.known_hits[k] = ck.known_hits.get(k, 0) + n
        ck.traces += traces
        for smp in samples:
            ck.sample(smp)


# ----------------------------------------------------------------------------- calibration

def calibrate(ck: Check, printed, fns):
    """The user's callables must be the functions the specification reasons about; the linear functions are
    BUILT from the specification's data (A = DF, b = F(p) - A p)."""
    lin_data = {"calib": {}}
    seen = set()
    n = 0
    for v in printed:
        if not (isinstance(v, tuple) and v and v[0] == "CALIB"):
            continue
        _, sid, f, p, val, jac = v
        if (sid, f, p) in seen:
            continue
        seen.add((sid, f, p))
        lin_data["calib"][(str(sid), str(f), tuple(p))] = (tuple(val), tuple(tuple(r) for r in jac))
        x = np.array(p, dtype=float) / S
        a = np.array(jac, dtype=float) / S
        if f in ("ls", "lv"):
            b = np.array(val, dtype=float) / S - a @ x
            old = lin_data.setdefault((f, len(p)), (a, b))
            if not (np.array_equal(old[0], a) and np.array_equal(old[1], b)):
                raise MachineryError(f"calibration: {f} is not affine in the specification at {p}")
        else:
            iv = [_qs(x)] if f == "qs" else [_qs(x), _q2(x)]
            ij = [_dqs(x)] if f == "qs" else [_dqs(x), _dq2(x)]
            if vec(iv) != list(val) or mat(ij) != [list(r) for r in jac]:
                raise MachineryError(f"calibration: harness callable {f} differs from the specification at {p}: "
                                     f"{vec(iv)} {mat(ij)} vs {val} {jac}")
        n += 1
    if not n:
        raise MachineryError("no CALIB record printed by TLC")
    ck.extra["calibration_points"] = ck.extra.get("calibration_points", 0) + n
    return lin_data


# ----------------------------------------------------------------------------- simulation files

def parse_sim(path):
    txt = open(path).read()
    parts = re.split(r"^STATE_\d+ ==\s*$", txt, flags=re.M)[1:]
    out = []
    for p in parts:
        body = re.split(r"^\\\* <|^={4,}", p, flags=re.M)[0]
        out.append(tlaval.parse_state(body))
    return out


# ----------------------------------------------------------------------------- the check

def canonical_order(g: Graph):
    """TLC's fingerprints and the order of the dumped edges vary from run to run: order states and edges
    by content so that the tour (and the variant assigned to each path) is reproducible."""
    canon = {sid: tlaval.to_tla(_plain(st)) for sid, st in g.states.items()}
    g.init.sort(key=canon.__getitem__)
    g.edges.sort(key=lambda e: (canon[e[0]], canon[e[1]]))
    g.out = {}
    for k, e in enumerate(g.edges):
        g.out.setdefault(e[0], []).append(k)


def _plain(x):
    if isinstance(x, dict):
        return {str(k): _plain(v) for k, v in sorted(x.items(), key=lambda kv: str(kv[0]))}
    if isinstance(x, (tuple, list)):
        return [_plain(v) for v in x]
    if isinstance(x, (set, frozenset)):
        return sorted((_plain(v) for v in x), key=str)
    return x


def bfs_and_tour(ck: Check, spaces, fns, npts, max_level, rng, variants_per_path, max_mut=0):
    """max_mut > 0: the graph with the caller's in-place edits; only the tour paths that contain an edit are
    replayed (the others are paths of the graph without edits, replayed by the max_mut = 0 run on the same
    spaces)."""
    r = ck.tlc(MODULE, cfg_text(spaces, fns[0], fns[1], npts, 1000, max_level, max_mut=max_mut), workers=4,
               timeout=900, dump=True, coverage=False, deadlock=False)
    if r.depth != max_level + max_mut:
        raise MachineryError(f"vacuity: depth of the state graph is {r.depth}, expected {max_level + max_mut}")
    lin_data = calibrate(ck, r.printed(), fns)
    g = Graph(ck.work / f"{MODULE}.dot")
    canonical_order(g)
    if len(g.states) != r.distinct:
        raise MachineryError(f"dump has {len(g.states)} states, TLC found {r.distinct}")
    kinds = {}
    for (_, d, _, _) in g.edges:
        k = str(g.states[d]["ret"]["call"][0])
        kinds[k] = kinds.get(k, 0) + 1
    for k in (CALLS if max_mut else CALLS[:5]):
        if not kinds.get(k):
            raise MachineryError(f"vacuity: no {k} transition in the state graph")
    hits = sum(1 for (_, d, _, _) in g.edges if g.states[d]["ret"]["hitF"] or g.states[d]["ret"]["hitJ"])
    if not hits:
        raise MachineryError("vacuity: no transition served from the database")
    # a request served from the database AFTER the caller edited its arrays in place
    hits_after_edit = sum(1 for (s_, d, _, _) in g.edges if g.states[s_]["nmut"] > 0 and
                          (g.states[d]["ret"]["hitF"] or g.states[d]["ret"]["hitJ"]))
    if max_mut and max_level > 2 and not hits_after_edit:
        raise MachineryError("vacuity: no transition served from the database after an in-place edit")
    ck.extra["transitions_served_from_db_after_edit"] = \
        ck.extra.get("transitions_served_from_db_after_edit", 0) + hits_after_edit
    ck.extra["transitions_by_call"] = {k: kinds[k] + ck.extra.get("transitions_by_call", {}).get(k, 0) for k in kinds}
    ck.extra["transitions_served_from_db"] = ck.extra.get("transitions_served_from_db", 0) + hits
    paths = g.tour()
    covered = set()
    jobs = []
    for n, path in enumerate(paths):
        covered.update(path)
        states = [g.states[g.edges[path[0]][0]]] + [g.states[g.edges[k][1]] for k in path]
        if max_mut and not any(str(st["ret"]["call"][0]) in EDITS for st in states[1:]):
            continue
        vs = VARIANTS if variants_per_path >= len(VARIANTS) else \
            [VARIANTS[(n * variants_per_path + j * 7 + rng.randrange(len(VARIANTS))) % len(VARIANTS)]
             for j in range(variants_per_path)]
        jobs += [(states, v, "tour") for v in vs]
    replay_many(ck, fns, lin_data, jobs)
    if len(covered) != len(g.edges):
        raise MachineryError(f"tour covers {len(covered)} of {len(g.edges)} transitions")
    ck.extra["tour_paths"] = ck.extra.get("tour_paths", 0) + len(paths)
    if max_mut:
        ck.extra["tour_paths_with_edit_replayed"] = ck.extra.get("tour_paths_with_edit_replayed", 0) + \
            len(jobs) // max(1, min(variants_per_path, len(VARIANTS)))
    ck.extra["tour_transitions"] = ck.extra.get("tour_transitions", 0) + len(g.edges)
    return lin_data


def simulate(ck: Check, spaces, fns, npts, depth, num, rng, variants_per_path, max_mut=3):
    prefix = ck.work / f"sim-{fns[0]}-{fns[1]}"
    r = ck.tlc(MODULE, cfg_text(spaces, fns[0], fns[1], npts, 1000, depth, max_mut=max_mut), workers=1, timeout=900,
               simulate=f"num={num},file={prefix}", depth=depth + max_mut, seed=ck.seed + 1, coverage=False,
               deadlock=False, count=False)
    lin_data = calibrate(ck, r.printed(), fns)
    files = sorted(ck.work.glob(f"{prefix.name}_*"), key=lambda p: [int(t) for t in re.findall(r"\d+", p.name)])
    if not files:
        raise MachineryError("tlc -simulate wrote no behaviour")
    n = 0
    jobs = []
    for f in files:
        states = parse_sim(f)
        f.unlink()
        if len(states) < 2:
            continue
        jobs += [(states, rng.choice(VARIANTS), "simulate") for _ in range(variants_per_path)]
        n += 1
        for st in states[1:]:
            k = str(st["ret"]["call"][0])
            if k in EDITS:
                ck.extra[f"simulated_{k}"] = ck.extra.get(f"simulated_{k}", 0) + 1
    replay_many(ck, fns, lin_data, jobs)
    ck.extra["simulated_behaviours"] = ck.extra.get("simulated_behaviours", 0) + n
    ck.extra["simulated_depth"] = depth


def refutations(ck: Check):
    """The rules of the code as read today, put into the specification, must be refuted by TLC."""
    out = {}
    for name, kw, clauses in (("LinRule", {"lin": "asCoded"}, ("Faithful", "Recorded")),
                              ("GradRule", {"grad": "asCoded"}, ("JacCoords", "Recorded", "ServedFromDb"))):
        r = ck.tlc(MODULE, cfg_text(["int", "intnorm"], "qs", "lv", 2, 1000, 3, **kw), workers=2, timeout=300,
                   coverage=False, deadlock=False, count=False, expect_ok=False)
        if r.violated not in clauses:
            raise MachineryError(f"specification with {name} as coded: expected a violation of one of {clauses}, "
                                 f"TLC reported {r.violated!r}")
        out[name] = r.violated
    ck.extra["as_coded_rules_refuted_by_tlc"] = out
    # by-reference storage of the caller's arrays (implementation-shaped switches of ProblemEvalRef) is
    # refuted too: the in-place edits are not vacuous
    out = {}
    for name, kw, clauses in (
            ("KeyByRef", {"key_by_ref": True}, ("Recorded", "KeysDistinct", "KeysAppendOnly", "CallerCannotCorrupt")),
            ("ValueByRef", {"value_by_ref": True}, ("Recorded", "WriteOnce", "CallerCannotCorrupt"))):
        r = ck.tlc(MODULE, cfg_text(["finite"], "qs", "lv", 2, 1000, 3, **kw), workers=2, timeout=300,
                   coverage=False, deadlock=False, count=False, expect_ok=False)
        if r.violated not in clauses:
            raise MachineryError(f"specification with {name}: expected a violation of one of {clauses}, "
                                 f"TLC reported {r.violated!r}")
        out[name] = r.violated
    ck.extra["by_reference_storage_refuted_by_tlc"] = out


def vacuity(ck: Check):
    """A small coverage-enabled run (coverage mode is slow on this module, so the big runs go without):
    every action of the specification is taken; the dumped graphs are checked again per call kind."""
    ck.tlc(MODULE, cfg_text(["equal"], "qs", "lv", 1, 1000, 3), workers=2, timeout=600, coverage=True,
           deadlock=False, count=False, require_actions=ACTIONS)


def run(ck: Check):
    try:
        _run(ck)
    except BaseException:
        import shutil

        shutil.rmtree(ck.work, ignore_errors=True)  # main() only cleans up after a normal end
        raise


def _run(ck: Check):
    rng = random.Random(ck.seed)
    vacuity(ck)
    refutations(ck)
    if ck.thorough:
        # all pairs of calls, 3 request points (+ the inert-coordinate request), every space, both pairs
        for fns in (("qs", "lv"), ("qv", "ls")):
            for sid in ALL_SPACES:
                bfs_and_tour(ck, [sid], fns, 3, 3, rng, 2)
        # all triples of calls, 2 request points, on the spaces where keys are shared / coordinates inert
        for sid in ("int", "equal", "intneg"):
            bfs_and_tour(ck, [sid], ("qs", "lv"), 2, 4, rng, 1)
        # the caller's in-place edits of its arrays: one edit anywhere, on every space (several edits per
        # behaviour: the simulations below)
        for sid in ALL_SPACES:
            bfs_and_tour(ck, [sid], ("qs", "lv"), 2, 3, rng, 1, max_mut=1)
        simulate(ck, ALL_SPACES, ("qs", "lv"), 3, 10, 1500, rng, 1)
        simulate(ck, ALL_SPACES, ("qv", "ls"), 3, 10, 1500, rng, 1)
    else:
        bfs_and_tour(ck, ["equal", "halfinf", "int", "intneg"], ("qs", "lv"), 2, 3, rng, 1)
        # the same graph with one in-place edit of the caller's arrays anywhere (call, edit, call included)
        bfs_and_tour(ck, ["equal", "int"], ("qs", "lv"), 2, 3, rng, 1, max_mut=1)
        simulate(ck, ALL_SPACES, ("qv", "ls"), 3, 8, 250, rng, 1)
    ck.exhaustive = True  # every transition of the bounded graph(s) was replayed on the implementation
    ck.assumptions += [
        "exact-arithmetic slice: points are multiples of 1/8, bounds integers of width 0/1/2/4, linear "
        "coefficients half-integers; on it IEEE doubles and the specification's scaled integers agree exactly",
        "the quadratic user callables are harness code calibrated against the specification's F/DF on every "
        "catalogue point; the linear functions are built from the specification's data",
        "approximated derivatives (finite differences / complex step) are not replayed (C16)",
        "call logs of MDOLinearFunction are only bounded from above (the scaled twin has no user callable)",
        "in-place edits of the caller's arrays are enumerated with a database only (useDb); a returned array that "
        "is the storage of the user's ORIGINAL function object (MDOLinearFunction.jac returns its coefficient "
        "matrix) is left unedited: what a caller does to it is between the caller and the user's function",
    ]

    # ---- specification growth: the life cycle of the problem around the evaluations (specs/ProblemLife.tla:
    # add_* / preprocess / evaluate / reset with its 32 flag combinations / listeners).  Two of its design-level
    # results ARE clauses of C01 (a function added after the pre-processing is handed the normalised vector and
    # its value is never recorded under the physical point): they are promoted to violations, matched by the
    # recorded finding D0109; everything else stays an observation.
    from ..core import Promote
    from ..growth import g06_problem_life

    late = {"what": "function_added_after_preprocessing"}
    g06_problem_life.run(Promote(ck, {
        "G06.problem-life.late-function-evaluated-at-normalized-vector": ("Faithful", late),
        "G06.problem-life.late-function-not-recorded": ("Recorded", late),
    }))


if __name__ == "__main__":
    main("C01", run)
