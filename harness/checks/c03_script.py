"""C03 spec -> code: scripted environment (placeholder, filled in below)."""


def run(ck, rng, validate):
    return
