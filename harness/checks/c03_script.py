"""C03 spec -> code: behaviours of the exhaustive Driver graph replayed with a scripted environment.

TLC dumps the state graph of Driver.tla for a small configuration (one function, two points + the NaN
point, budgets 1..2, optimizer and DOE, Jacobians stored or not).  Every selected transition is completed
into a behaviour that ends in `postrun` (or `crashed`), and the behaviour is forced on the real gemseo objects:

* the environment's requests `AskAt(f, kind, p)` / `AskJacFirst(f, p)` (read from TLC's transition labels)
  become the script of a tiny optimization library (ScriptedOpt, a BaseOptimizationLibrary whose `_run` just
  issues the requests), a DOE becomes a CustomDOE with the samples of the behaviour; the behaviours in which
  the budget is reached on a Jacobian request at a point without entry (gradient-first algorithms), with
  Jacobians stored or not, are always replayed;
* the outcomes of the original callables (`ok | nan | raise`) are scripted per (function, kind, point);
* `NewIter("MaxTime")` is produced by a fake clock substituted for `time` in base_driver_library
  (test double), `AlgoReturn("Other")` by the script raising a plain TerminationCriterion;
* `SeedEmpty(p)` is `database.store(x_p, {})` before the execution.

After execute() the real objects are projected on the abstract state (database keys in order, names per
key, evaluation counter, points at which an original callable was entered, stop class, result / x_opt,
listeners left, exception or not) and compared with the final state computed by TLC.  A run that differs is
given to DriverTrace.tla (lenient mode), which names the clause of the property it breaks, if any.  x_opt is compared with the set of values BuildResult allows.
"""
from __future__ import annotations

from collections import deque

import numpy as np

from ..core import Graph, MachineryError
from . import c03_rec as R

COORD = {0: (float("nan"), float("nan")), 1: (1.0, 1.0), 2: (0.0, 0.5), 3: (-1.0, -1.5)}


def graph_cfg():
    from .c03 import model_cfg

    # Jacobians stored or not; the environment may ask a Jacobian at a point it has not asked the value at
    # (gradient-first algorithms), under the assumption DriverCompletesPoint only
    return model_cfg(points=2, nfuncs=1, maxexec=1, maxn=2, nxs="{9}", kkts="{FALSE}", storejac="{TRUE, FALSE}",
                     assume="completesPoint", invs=["Budget"])


def make_library(grad: bool):
    from gemseo.algos.opt.base_optimization_library import BaseOptimizationLibrary
    from gemseo.algos.opt.base_optimization_library import OptimizationAlgorithmDescription
    from gemseo.algos.opt.base_gradient_based_algorithm_settings import BaseGradientBasedAlgorithmSettings
    from gemseo.algos.opt.base_optimizer_settings import BaseOptimizerSettings
    from gemseo.algos.stop_criteria import TerminationCriterion
    from pydantic import Field

    bases = (BaseOptimizerSettings, BaseGradientBasedAlgorithmSettings) if grad else (BaseOptimizerSettings,)

    class Script_Settings(*bases):  # noqa: N801
        _TARGET_CLASS_NAME = "SCRIPT"
        script: list = Field(default_factory=list)

    class ScriptedOpt(BaseOptimizationLibrary):
        ALGORITHM_INFOS = {
            "SCRIPT": OptimizationAlgorithmDescription(
                algorithm_name="SCRIPT", internal_algorithm_name="SCRIPT", library_name="harness",
                handle_equality_constraints=True, handle_inequality_constraints=True,
                require_gradient=grad, Settings=Script_Settings)
        }

        def _run(self, problem, **settings):
            for step in settings["script"]:
                if step[0] == "return":
                    if step[1] == "Other":
                        raise TerminationCriterion
                    return "script done", 0
                _, fn, kind, xy = step
                f = problem.objective if fn == problem.objective.name else \
                    next(c for c in problem.constraints if c.name == fn)
                x = np.array(xy)
                if self._normalize_ds and not np.isnan(x).any():
                    x = problem.design_space.normalize_vect(x)
                (f.evaluate if kind == "val" else f.jac)(x)
            return "script exhausted", 0

    return ScriptedOpt("SCRIPT")


def fdict(v):
    """A TLA+ function value as a dict (TLC prints a function with domain 1..n as a sequence)."""
    if isinstance(v, dict):
        return dict(v)
    return {i + 1: x for i, x in enumerate(v)}


class FakeClock:
    def __init__(self, fire_at):
        self.calls = -1
        self.fire_at = fire_at

    def __call__(self):
        self.calls += 1          # call 0: start of the run; call k: k-th new iteration seen by the driver
        return 1e9 if self.fire_at and self.calls >= self.fire_at else 0.0


def build(outcomes, rec: R.Rec, x0):
    """A one-function problem whose callables follow the scripted outcomes."""
    from gemseo.algos.design_space import DesignSpace
    from gemseo.algos.optimization_problem import OptimizationProblem
    from gemseo.core.mdo_functions.mdo_function import MDOFunction

    ds = DesignSpace()
    ds.add_variable("x", 2, lower_bound=-2.0, upper_bound=2.0, value=np.array(COORD[x0 or 1]))
    problem = OptimizationProblem(ds)
    inv = {v: k for k, v in COORD.items() if k}

    def body(kind):
        def call(x):
            p = inv.get(tuple(float(t) for t in x))
            todo = outcomes.get(("f", kind, p), [])
            o = todo.pop(0) if todo else "ok"
            if o == "raise":
                raise R.Boom("scripted")
            if kind == "val":
                return float("nan") if o == "nan" else (x[0] - 0.5) ** 2 + (x[1] + 0.25) ** 2
            g = np.array([2 * (x[0] - 0.5), 2 * (x[1] + 0.25)])
            return g * float("nan") if o == "nan" else g
        return call

    problem.objective = MDOFunction(rec.wrap("f", "val", body("val")), "f", jac=rec.wrap("f", "jac", body("jac")))
    rec.attach(problem, ["f"])
    return problem


def completion(g: Graph):
    """For every state the next edge of a shortest path to a final state (postrun / crashed)."""
    rev = {}
    for k, (s, d, a, args) in enumerate(g.edges):
        rev.setdefault(d, []).append(k)
    nxt = {}
    q = deque(s for s, st in g.states.items() if st["phase"] in ("postrun", "crashed"))
    done = set(q)
    while q:
        d = q.popleft()
        for k in rev.get(d, ()):
            s = g.edges[k][0]
            if s not in done and g.edges[k][2] != "SeedEmpty":
                done.add(s)
                nxt[s] = k
                q.append(s)
    return nxt


def replay(ck, g: Graph, path, norm):
    """Force one behaviour (list of edge indices from the initial state) on gemseo; compare final states."""
    import gemseo.algos.base_driver_library as bdl
    from gemseo.algos.doe.factory import DOELibraryFactory

    seeds, script, outcomes, cfg, fire_at, drv_calls = [], [], {}, None, 0, 0
    for k in path:
        s, d, a, args = g.edges[k]
        src, dst = g.states[s], g.states[d]
        if a == "SeedEmpty":
            seeds.append(args[0])
        elif a == "Execute":
            cfg = args[0]
        elif a in ("AskAt", "AskJacFirst"):                 # a request of the environment, read from TLC's label
            f_, k_, p = args if a == "AskAt" else (args[0], "jac", args[1])
            script.append(("ask", f_, k_, COORD[p]))
        elif a == "OrigCall":
            r = src["req"]
            outcomes.setdefault((r["n"][0], r["n"][1], r["p"]), []).append(args[0])
        elif a == "NewIter" and src["nil"][src["req"]["k"] - 1] == "drv":
            drv_calls += 1
            if args[0] == "MaxTime":
                fire_at = drv_calls
        elif a == "AlgoReturn":
            script.append(("return", args[0]))
    final = g.states[g.edges[path[-1]][1]]
    allowed_x = {g.edges[k][3][0] for k in path if g.edges[k][2] == "BuildResult"}
    for k in path:
        if g.edges[k][2] == "BuildResult":
            allowed_x |= {g.edges[j][3][0] for j in g.out.get(g.edges[k][0], ()) if g.edges[j][2] == "BuildResult"}
    rec = R.Rec()
    problem = build(outcomes, rec, cfg["x0"])
    for p in seeds:
        problem.database.store(np.array(COORD[p]), {})
    st = dict(normalize_design_space=norm, max_time=1.0, enable_progress_bar=False,
              reset_iteration_counters=bool(cfg["reset"]), store_jacobian=bool(cfg["storeJac"]))
    if cfg["kind"] == "opt":
        lib = make_library(bool(cfg["grad"]))
        st.update(max_iter=int(cfg["N"]), script=script, stop_crit_n_x=int(cfg["nx"]))
    else:
        lib = DOELibraryFactory().create("CustomDOE")
        st.update(samples=np.array([COORD[p] for p in cfg["samples"]]), eval_jac=bool(cfg["grad"]))
    clock = FakeClock(fire_at)
    saved = bdl.time
    bdl.time = clock
    try:
        res, exc = R.execute(rec, lib, cfg["kind"], st, grad=bool(cfg["grad"]), nx=int(cfg["nx"]))
    finally:
        bdl.time = saved
    end = rec.events[-1]
    db = problem.database
    impl = {
        "keys": [rec.pid(k.wrapped_array) for k in db],
        "outs": {rec.pid(k.wrapped_array): sorted(tuple(n) for n in rec.names(k.wrapped_array)) for k in db},
        "cur": int(problem.evaluation_counter.current),
        "crashed": bool(end["crashed"]),
        "stop": end["cause"], "hasResult": bool(end["result"]), "nni": end["nni"],
        # points at which an original callable was entered during the execution
        "origPts": sorted({e["p"] for e in rec.events[rec.start:] if e["ev"] == "orig"}),
    }
    # the recorder interned the points in order of appearance: translate to the model's ids
    to_model = {rec.pids[R.Rec._key(np.array(c))]: m for m, c in COORD.items() if m and R.Rec._key(np.array(c)) in rec.pids}
    impl["keys"] = [to_model.get(p, -p) for p in impl["keys"]]
    impl["outs"] = {to_model.get(p, -p): v for p, v in impl["outs"].items()}
    impl["origPts"] = sorted(to_model.get(p, -p) for p in impl["origPts"])
    xopt = to_model.get(end["xopt"], -end["xopt"]) if end["xopt"] else 0
    spec = {
        "keys": list(final["keys"]),
        "outs": {p: sorted(tuple(n) for n in v) for p, v in fdict(final["outs"]).items()},
        "cur": final["cur"], "crashed": final["phase"] == "crashed",
        "stop": final["stop"], "hasResult": bool(final["hasResult"]), "nni": len(final["nil"]),
        "origPts": sorted(final["origPts"]),
    }
    if spec["crashed"]:
        for f in ("stop", "hasResult", "nni"):
            spec.pop(f), impl.pop(f)
    elif impl["stop"] == "Other" or spec["stop"] == "Other":
        pass
    diff = {f: (spec[f], impl[f]) for f in spec if spec[f] != impl[f]}
    if not spec["crashed"] and not diff and xopt not in allowed_x:
        diff["xopt"] = (sorted(allowed_x), xopt)
    case = {"cfg": cfg, "seeds": seeds, "script": [list(s) for s in script], "outcomes": {str(k): v for k, v in outcomes.items()},
            "max_time_at_iteration": fire_at, "normalize": norm,
            "actions": [g.edges[k][2] + (str(g.edges[k][3]) if g.edges[k][2] != "Execute" else "") for k in path]}
    return diff, case, exc, R.trace_of(rec, 0, {})


def run(ck, rng, validate):
    ck.tlc("Driver", graph_cfg(), workers=4, timeout=900, dump=True, count=False, coverage=False)
    g = Graph(ck.work / "Driver.dot")
    if not g.init or len(g.edges) < 1000:
        raise MachineryError("Driver graph dump too small")
    par = g.bfs_tree()
    nxt = completion(g)
    # target edges: everything that is a decision of gemseo or of the environment
    targets = [k for k, e in enumerate(g.edges)
               if e[2] in ("AskAt", "AskJacFirst", "OrigCall", "NewIter", "AskOwn", "Store", "NextSample", "AlgoReturn", "BuildResult",
                           "Execute", "PostRun")
               and e[0] in par and (e[1] in nxt or g.states[e[1]]["phase"] in ("postrun", "crashed"))]
    rng.shuffle(targets)

    # always replayed: the budget test on an entry that exists but is empty (seeded before the run)
    def budget_on_seeded(k):
        s_, d_, a_, _ = g.edges[k]
        src, dst = g.states[s_], g.states[d_]
        return a_ in ("AskAt", "AskJacFirst", "AskOwn") and dst["stop"] == "MaxIter" and src["stop"] == "none" and \
            any(not v for v in fdict(src["outs"]).values())

    # always replayed: gradient-first requests (a Jacobian asked at a point whose entry is empty), above all the
    # budget reached on such a request, with Jacobians stored or not: the answer is MaxIter, not an original call
    def jac_first(k, store_jac, stopped):
        s_, d_, a_, _ = g.edges[k]
        src, dst = g.states[s_], g.states[d_]
        return a_ == "AskJacFirst" and bool(src["cfg"]["storeJac"]) == store_jac and \
            (dst["stop"] == "MaxIter") == stopped
    must, classes = [], {}
    for name, pred, quota in (("budget_on_seeded_entry", budget_on_seeded, 40),
                              ("jacobian_first_budget_reached_jacobians_not_stored", lambda k: jac_first(k, False, True), 40),
                              ("jacobian_first_budget_reached_jacobians_stored", lambda k: jac_first(k, True, True), 16),
                              ("jacobian_first_served_jacobians_not_stored", lambda k: jac_first(k, False, False), 16)):
        sel = [k for k in targets if pred(k) and k not in set(must)][:quota if not ck.thorough else None]
        classes[name] = len(sel)
        if not sel:
            raise MachineryError(f"no behaviour of the Driver graph in the class {name}")
        must += sel
    ck.extra["scripted_classes_always_replayed"] = classes
    targets = must + [k for k in targets if k not in set(must)]
    budget = 3000 if ck.thorough else 260
    n = n_diag = 0
    seen = set()
    for k in targets:
        if n >= budget:
            break
        path = g.path_to(g.edges[k][0], par) + [k]
        cur = g.edges[k][1]
        while g.states[cur]["phase"] not in ("postrun", "crashed"):
            if cur not in nxt:
                path = None
                break
            path.append(nxt[cur])
            cur = g.edges[nxt[cur]][1]
        if not path or not any(g.edges[j][2] == "Execute" for j in path):
            continue
        key = tuple(path)
        if key in seen:
            continue
        seen.add(key)
        n += 1
        norm = bool(n % 2)
        diff, case, exc, trace = replay(ck, g, path, norm)
        if n <= 2:
            ck.sample({"scripted": case})
        if diff:
            cfg = case["cfg"]
            stop = g.states[g.edges[path[-1]][1]]["stop"]
            # which clause of the property the observed run breaks, if any: DriverTrace (lenient mode) evaluates
            # them on the observed states of the recorded run
            clause = "ScriptedReplay"
            if n_diag < 8:
                n_diag += 1
                from .c03 import run_batch

                trace.update(id=n, noorig=False)
                v = run_batch(ck, [trace], True, f"script-diag-{n}").get(n)
                if v and v[2] != "ok":
                    clause = v[2]
            ck.violation(clause, {"kind": cfg["kind"], "algo": "SCRIPT" if cfg["kind"] == "opt" else "CustomDOE",
                                            "normalize": norm, "fields": sorted(diff), "stop": stop,
                                            "exception": type(exc).__name__ if exc is not None else "",
                                            "detail": repr(exc)[:60] if exc is not None else ""},
                         dict(case, spec_vs_impl={f: list(v) for f, v in diff.items()},
                              traceback="".join(__import__("traceback").format_exception(exc)[-8:]) if exc is not None else ""))
        else:
            ck.traces += 1
    ck.extra["scripted_behaviours_replayed"] = n
    ck.extra["scripted_graph_states"] = len(g.states)
    ck.extra["scripted_graph_edges"] = len(g.edges)
