"""C20 - spec->code replay of Lifecycle.tla behaviours on real gemseo objects.

A behaviour is a path of the state graph dumped by TLC: for every step the action label (world, arguments)
and the successor state (the cells of both worlds, the files, and `ret`: what the call did/returned, as
computed by the specification).  The adapter performs the action on the real object of that world and the
replayer compares

* what the call returned with the value named by the label <<pt, mem>> of `ret` (values of labels are taken
  from a never-pickled, cache-less instance of the same class: "the original"),
* the projection of BOTH real objects onto the abstract cells (cache kind, number of entries with outputs /
  with a Jacobian, counters, default, setting, last local data) with the cells of the successor state,
* right after Pickle the full concrete projections of the two objects (grammar names / required names /
  defaults, settings, local data, Jacobian, cache entries, counters, statistics) - the specification says the
  two worlds are equal there (SameState),
* after every step on one world the concrete projection of the OTHER world with its projection before the
  step (NoSharingStep).

A world's object lives either in this process or - after Pickle("session") - in ANOTHER interpreter with
another string-hash seed (c20_child.py), where it was restored from the pickle file and where every later action
on it is performed through the same adapter (Remote); behaviours with several Pickles (generations) move the
restored object to the place of the original and restore a new copy from it.

Python only transports values; what is expected comes from the TLC state.
"""
from __future__ import annotations

import os
import pickle
import shutil
import struct
import subprocess
import sys
from pathlib import Path

import numpy as np

from . import c20_catalog as cat

HDF_LAST_ENTRY_IS_A_CLAUSE = True   # finding D2003 (it was an observation before it was triaged)
KIND_OF = {"NoneType": "none", "SimpleCache": "simple", "MemoryFullCache": "mem", "HDF5Cache": "hdf"}


# ------------------------------------------------------------------ value comparison (transport only)
def dense(a):
    if hasattr(a, "toarray"):
        return np.asarray(a.toarray())
    if hasattr(a, "todense"):
        return np.asarray(a.todense())
    return a


def same(a, b, tol=0.0):
    """Structural equality of projections; arrays within tol (0 = exact, NaN = NaN)."""
    a, b = dense(a), dense(b)
    if isinstance(a, dict) and isinstance(b, dict):
        return a.keys() == b.keys() and all(same(a[k], b[k], tol) for k in a)
    if isinstance(a, (list, tuple)) and isinstance(b, (list, tuple)):
        return len(a) == len(b) and all(same(x, y, tol) for x, y in zip(a, b))
    if isinstance(a, (np.ndarray, np.generic)) or isinstance(b, (np.ndarray, np.generic)):
        try:
            a, b = np.asarray(a), np.asarray(b)
            if a.shape != b.shape:
                return False
            if a.dtype.kind in "OUS" or b.dtype.kind in "OUS":
                return bool(np.all(a == b))
            if tol:
                return bool(np.allclose(a, b, rtol=tol, atol=tol, equal_nan=True))
            return bool(np.array_equal(a, b, equal_nan=True))
        except Exception:  # noqa: BLE001
            return False
    if isinstance(a, float) and isinstance(b, float) and tol:
        return abs(a - b) <= tol * (1 + abs(b)) or (a != a and b != b)
    try:
        return bool(a == b)
    except Exception:  # noqa: BLE001
        return False


def diff_keys(a, b, tol=0.0, prefix=""):
    """Paths at which two projections differ (for the replay file)."""
    out = []
    if isinstance(a, dict) and isinstance(b, dict):
        for k in sorted(set(a) | set(b), key=str):
            if k not in a or k not in b:
                out.append(f"{prefix}{k}(missing)")
            elif not same(a[k], b[k], tol):
                out += diff_keys(a[k], b[k], tol, f"{prefix}{k}.")
        return out[:8]
    return [prefix.rstrip(".")]


def frozen(v):
    """A by-value copy of a projection item."""
    v = dense(v)
    if isinstance(v, np.ndarray):
        return v.copy()
    if isinstance(v, dict):
        return {k: frozen(x) for k, x in v.items()}
    if isinstance(v, (list, tuple)):
        return [frozen(x) for x in v]
    if isinstance(v, (set, frozenset)):
        return sorted(v, key=str)
    if isinstance(v, (str, int, float, bool, complex, type(None), np.generic)):
        return v
    return repr(type(v))


# ------------------------------------------------------------------ child process (spawn-like round trip)
class Child:
    """A separate interpreter that unpickles what the parent pickled and sends it back pickled again:
    the object crosses a process boundary the way it does under the spawn start method."""

    def __init__(self, hash_seed=None):
        self.p = None
        self.hash_seed = hash_seed
        self.used = False

    def start(self):
        env = dict(os.environ)
        if self.hash_seed is not None:
            # another interpreter does not iterate sets of strings / symbols in the parent's order
            env["PYTHONHASHSEED"] = str(self.hash_seed)
        verif = str(Path(__file__).resolve().parents[2])
        env["PYTHONPATH"] = os.pathsep.join([p for p in (env.get("PYTHONPATH", ""), verif) if p])
        self.p = subprocess.Popen([sys.executable, "-m", "harness.checks.c20_child"], stdin=subprocess.PIPE,
                                  stdout=subprocess.PIPE, stderr=subprocess.DEVNULL, cwd=verif, env=env)

    def roundtrip(self, blob: bytes, probe=None):
        return self.request({"blob": blob, "probe": probe})

    def request(self, msg: dict):
        if self.p is None or self.p.poll() is not None:
            self.start()
        req = pickle.dumps(msg)
        self.p.stdin.write(struct.pack("<Q", len(req)) + req)
        self.p.stdin.flush()
        head = self.p.stdout.read(8)
        if len(head) < 8:
            raise RuntimeError("child process died")
        (n,) = struct.unpack("<Q", head)
        ans = pickle.loads(self.p.stdout.read(n))
        if "error" in ans:
            raise ChildError(ans["error_type"], ans["error"])
        return ans

    def close(self):
        if self.p is not None and self.p.poll() is None:
            try:
                self.p.stdin.write(struct.pack("<Q", 0))   # quit frame (EOF alone may never come, see child)
                self.p.stdin.flush()
                self.p.stdin.close()
                self.p.wait(20)
            except Exception:  # noqa: BLE001
                self.p.kill()


class Children:
    """Interpreters with DIFFERENT string-hash seeds (the parent runs with PYTHONHASHSEED=0 for determinism;
    a new session, a spawned worker or a job scheduler draws another one), used in rotation."""

    SEEDS = (1, 2, 3)

    def __init__(self):
        self.children = [Child(s) for s in self.SEEDS]
        self.n = 0

    def pick(self, avoid=None):
        """The next interpreter of the rotation (not `avoid`: a session restores in ANOTHER interpreter)."""
        while True:
            c = self.children[self.n % len(self.children)]
            self.n += 1
            if c is not avoid:
                return c

    def roundtrip(self, blob, probe=None):
        c = self.pick()
        ans = c.roundtrip(blob, probe)
        ans["hash_seed"] = c.hash_seed
        return ans

    def reset(self):
        for c in self.children:
            if c.used:
                c.used = False
                try:
                    c.request({"op": "reset"})
                except Exception:  # noqa: BLE001
                    c.close()

    def close(self):
        for c in self.children:
            c.close()


class Remote:
    """An object that lives in another interpreter: the adapter's methods are applied to it there."""

    n_handles = 0

    def __init__(self, child, cls_name):
        Remote.n_handles += 1
        self.child = child
        self.handle = Remote.n_handles
        self.cls_name = cls_name
        child.used = True

    def call(self, method, *args):
        return self.child.request({"op": "call", "handle": self.handle, "method": method, "args": args})["result"]


class ChildError(Exception):
    def __init__(self, typ, msg):
        super().__init__(f"{typ}: {msg}")
        self.typ = typ


# ------------------------------------------------------------------ adapters
class DiscAdapter:
    """Disciplines, chains, MDAs, scenario adapters: execute / linearize / grammars / cache / statistics."""

    linearize_kw = {"compute_all_jacobians": True}
    banned = ()

    def __init__(self, entry, gt, work: Path):
        self.e = entry
        self.gt = gt
        self.work = work
        self.refs = {}
        self.jrefs = {}

    # -- construction
    def fresh(self):
        with cat.grammar_type(self.gt):
            obj = self.e.make()
        cat.bind_from_defaults(self.e, obj)
        if self.e.pname is not None:
            # DV[0]: the constructor's default (installed here for the classes that come without one)
            self.set_default(obj, 0)
        self.bind_rest(obj)
        return obj

    def gram(self, obj):
        """The grammar the abstract edits act on."""
        return obj.io.input_grammar

    def bind_rest(self, obj):
        """The OTHER defaults the constructor gives (cell gram.rest): their names, and the values the caller
        supplies for them once the grammar no longer holds them (the caller always supplies x itself)."""
        if getattr(self.e, "rest_names", None) is None:
            dfl = self.gram(obj).defaults
            self.e.rest_names = [n for n in dfl if n != self.e.pname]
            self.e.rest = {n: frozen(dfl[n]) for n in self.e.rest_names if n != self.e.xname}

    def binding(self):
        """What another interpreter needs to act on a restored object of this entry (transported, not recomputed)."""
        e = self.e
        return {"entry": e.name, "grammar": self.gt, "work": None if self.work is None else str(self.work),
                "binding": {"xname": e.xname, "pname": e.pname, "xvals": e.xvals, "pvals": e.pvals,
                            "rest_names": getattr(e, "rest_names", None), "rest": getattr(e, "rest", None)}}

    def file_path(self, f):
        return self.work / f"c20_file{f}.h5"

    def build(self, kind, f=1):
        obj = self.fresh()
        self.set_cache(obj, kind, f)
        return obj

    # -- the operations of the specification
    def inputs(self, x, rest=False):
        """x from the caller; with `rest`, also the other inputs the grammar holds no default for any more."""
        data = {self.e.xname: np.array(self.e.xvals[x - 1])}
        if rest:
            data.update({n: np.array(v) for n, v in (getattr(self.e, "rest", None) or {}).items()})
        return data

    def execute(self, obj, x, rest=False):
        data = obj.execute(self.inputs(x, rest))
        return {n: frozen(data[n]) for n in obj.io.output_grammar.names}

    def linearize(self, obj, x, rest=False):
        jac = obj.linearize(self.inputs(x, rest), **self.linearize_kw)
        return {o: {i: frozen(m) for i, m in row.items()} for o, row in jac.items()}

    def set_default(self, obj, v):
        self.gram(obj).defaults[self.e.pname] = np.array(self.e.pvals[v])

    def del_default(self, obj):
        del self.gram(obj).defaults[self.e.pname]

    def clear_defaults(self, obj, how):
        if how == "clear":
            self.gram(obj).defaults.clear()
        elif how == "assign":
            self.gram(obj).defaults = {}
        else:
            raise ValueError(how)

    def unrequire(self, obj):
        self.gram(obj).required_names.remove(self.e.pname)

    def set_setting(self, obj, v):
        obj.validate_output_data = not bool(v)

    def set_cache(self, obj, kind, f):
        ct = obj.CacheType
        if kind == "none":
            obj.set_cache(ct.NONE)
        elif kind == "simple":
            obj.set_cache(ct.SIMPLE)
        elif kind == "mem":
            obj.set_cache(ct.MEMORY_FULL)
        elif kind == "hdf":
            obj.set_cache(ct.HDF5, hdf_file_path=str(self.file_path(f)))
        else:
            raise ValueError(kind)

    def clear_cache(self, obj):
        obj.cache.clear()

    # -- projection onto the abstract cells
    def kind(self, obj):
        return self.abstract_kind(getattr(obj, "cache", None)) if hasattr(obj, "cache") else self.abstract(obj)["kind"]

    @staticmethod
    def abstract_kind(c):
        return KIND_OF.get(type(c).__name__, type(c).__name__)

    def entries(self, obj):
        c = obj.cache
        if c is None or len(c) == 0:
            # (iterating an HDF5Cache that never opened its file trips an assertion in keep_open())
            return []
        return [e for e in c.get_all_entries() if e.inputs]

    def file_counts(self, c):
        """Entries of the HDF5 node a cache is attached to, read from the file itself: (with outputs, with a
        Jacobian)."""
        import h5py

        path = c.hdf_file.hdf_file_path
        if not os.path.exists(path):
            return 0, 0
        with h5py.File(path, "r") as f:
            node = f.get(c.hdf_node_path)
            if node is None:
                return 0, 0
            groups = [g for g in node.values() if isinstance(g, h5py.Group)]
            return (sum(1 for g in groups if "outputs" in g and len(g["outputs"])),
                    sum(1 for g in groups if "jacobian" in g and len(g["jacobian"])))

    def abstract(self, obj):
        c = obj.cache
        if type(c).__name__ == "HDF5Cache":
            nout, njac = self.file_counts(c)
        else:
            ents = self.entries(obj)
            nout, njac = sum(1 for e in ents if e.outputs), sum(1 for e in ents if e.jacobian)
        st = obj.execution_statistics
        a = {"kind": KIND_OF.get(type(c).__name__, type(c).__name__), "last": self.last_point(obj),
             "nout": nout, "njac": njac,
             "len": 0 if c is None else len(c),
             "ne": st.n_executions, "nl": st.n_linearizations,
             "sett": 0 if obj.validate_output_data else 1}
        a.update(self.abstract_gram(obj))
        return a

    def abstract_gram(self, obj):
        """The grammar cell: default of p (has, which), p required, the other constructor defaults present."""
        if self.e.pname is None:
            return {"dflt": 0, "has": None, "req": None, "rest": None}
        g = self.gram(obj)
        d = g.defaults.get(self.e.pname)
        names = getattr(self.e, "rest_names", None)
        return {"dflt": next((v for v, val in enumerate(self.e.pvals) if d is not None and same(d, val)), -1),
                "has": self.e.pname in g.defaults, "req": self.e.pname in g.required_names,
                "rest": all(n in g.defaults for n in names) if names else None}

    def point_of(self, data):
        xi = next((i + 1 for i, val in enumerate(self.e.xvals) if self.e.xname in data and same(data[self.e.xname], val)), -1)
        if self.e.pname is None:
            return xi, 0
        pi = next((i for i, val in enumerate(self.e.pvals) if self.e.pname in data and same(data[self.e.pname], val)), -1)
        return xi, pi

    def last_point(self, obj):
        """(has, point) of cache.last_entry - the entry a warm-started consumer starts from."""
        c = obj.cache
        if c is None:
            return None
        try:
            e = c.last_entry
        except Exception:  # noqa: BLE001
            if type(c).__name__ == "HDF5Cache":
                return None   # a stale index pointing into a node the other world cleared (D11): not observable
            raise
        if not e.inputs:
            return (False, (0, 0))
        return (True, self.point_of(e.inputs))

    def local_point(self, obj):
        """(x index, default index) read back from the last local data, -1 when it is no catalogue value."""
        data = obj.io.data
        if self.e.xname in obj.io.output_grammar.names or self.e.pname in obj.io.output_grammar.names:
            return None  # an input that is also an output is overwritten by the run
        xi = next((i + 1 for i, val in enumerate(self.e.xvals) if self.e.xname in data and same(data[self.e.xname], val)), -1)
        if self.e.pname is None:
            return xi, 0
        pi = next((i for i, val in enumerate(self.e.pvals) if self.e.pname in data and same(data[self.e.pname], val)), -1)
        return xi, pi

    # -- concrete projection, attribute by attribute (the cells of the specification)
    def grammar(self, g):
        return {"class": type(g).__name__, "names": list(g.names), "required": sorted(g.required_names),
                "defaults": {k: frozen(v) for k, v in g.defaults.items()}}

    def concrete(self, obj, with_cache=True):
        st = obj.execution_statistics
        c = obj.cache
        out = {
            "gram": {"in": self.grammar(obj.io.input_grammar), "out": self.grammar(obj.io.output_grammar)},
            "sett": {"name": obj.name, "validate_in": obj.validate_input_data, "validate_out": obj.validate_output_data,
                     "virtual": obj.virtual_execution, "lin_mode": str(getattr(obj, "linearization_mode", "")),
                     "diff_in": sorted(getattr(obj, "_differentiated_input_names", [])),
                     "diff_out": sorted(getattr(obj, "_differentiated_output_names", [])),
                     "extra": self.settings(obj)},
            "data": {"local": {k: frozen(v) for k, v in obj.io.data.items()},
                     "jac": {o: {i: frozen(m) for i, m in row.items()} for o, row in (getattr(obj, "jac", None) or {}).items()}},
            "ctr": {"ne": st.n_executions, "nl": st.n_linearizations, "duration": st.duration,
                    "sub": [(d.name, d.execution_statistics.n_executions, d.execution_statistics.n_linearizations)
                            for d in self.sub_disciplines(obj)]},
            "cache": {"class": type(c).__name__, "tolerance": None if c is None else c.tolerance,
                      "name": None if c is None else c.name},
        }
        if c is not None and (with_cache or type(c).__name__ != "HDF5Cache") and self.last_point(obj) is not None:
            e = c.last_entry
            out["cache"]["last_entry"] = {"in": {k: frozen(v) for k, v in e.inputs.items()},
                                          "out": {k: frozen(v) for k, v in e.outputs.items()},
                                          "jac": sorted((o, i) for o, row in (e.jacobian or {}).items() for i in row)}
        if with_cache and c is not None:
            out["cache"]["entries"] = [
                {"in": {k: frozen(v) for k, v in e.inputs.items()}, "out": {k: frozen(v) for k, v in e.outputs.items()},
                 "jac": {o: {i: frozen(m) for i, m in row.items()} for o, row in (e.jacobian or {}).items()}}
                for e in self.entries(obj)]
        if type(c).__name__ == "HDF5Cache":
            out["cache"]["node"] = c.hdf_node_path
        return out

    def sub_disciplines(self, obj):
        ds = getattr(obj, "disciplines", None)
        try:
            return list(ds) if ds else []
        except TypeError:
            return []

    def settings(self, obj):
        s = getattr(obj, "settings", None)
        if s is not None and hasattr(s, "model_dump"):
            try:
                return {k: frozen(v) for k, v in s.model_dump().items()}
            except Exception:  # noqa: BLE001
                return repr(type(s))
        return None

    # -- values of the labels: a never-pickled, cache-less instance of the same class
    def reference(self, x, v, mem):
        key = (x, v, mem)
        if key not in self.refs:
            ref = self.build("none")
            for (mx, mv) in mem:
                if self.e.pname is not None:
                    self.set_default(ref, mv)
                self.execute(ref, mx)
            if self.e.pname is not None:
                self.set_default(ref, v)
            self.refs[key] = self.execute(ref, x)
        return self.refs[key]

    def reference_jac(self, x, v):
        key = (x, v)
        if key not in self.jrefs:
            ref = self.build("none")
            if self.e.pname is not None:
                self.set_default(ref, v)
            self.jrefs[key] = self.linearize(ref, x)
        return self.jrefs[key]

    def hdf_attachment(self, obj):
        c = obj.cache
        if type(c).__name__ != "HDF5Cache":
            return None
        return (os.path.realpath(c.hdf_file.hdf_file_path), c.hdf_node_path)

    def reattach(self, obj, f):
        """Snapshot mode only: point the RESTORED cache object (its hash index was read from the original
        file while restoring) to the byte copy of that file."""
        from gemseo.caches._hdf5_file_singleton import HDF5FileSingleton

        c = obj.cache
        single = HDF5FileSingleton(str(self.file_path(f)))
        c._HDF5Cache__hdf_file = single
        c.lock = single.lock


def want_kind(st, w):
    return st["cache"][st["ref"][w]["cache"] - 1]["kind"]


class PlainAdapter(DiscAdapter):
    """Objects that are not disciplines: the same abstract operations, bound to their own API.  Items of the
    abstract projection the object does not have (no cache, no counters) are None = not observed."""

    banned = ("DelDefault", "ClearDefaults", "Unrequire")   # no grammar to edit

    def fresh(self):
        return self.e.make()

    def bind_rest(self, obj):
        pass

    def build(self, kind, f=1):
        return self.fresh()

    def hdf_attachment(self, obj):
        return None

    def local_point(self, obj):
        return None

    def set_cache(self, obj, kind, f):
        raise ValueError("no cache to set")

    def x(self, i):
        return np.array(self.e.xvals[i - 1])


class FunctionAdapter(PlainAdapter):
    """MDOFunction and the function algebra: evaluate / jac; no cache, no counters, no defaults."""

    def execute(self, obj, x, rest=False):
        return {"value": frozen(obj.evaluate(self.x(x)))}

    def linearize(self, obj, x, rest=False):
        return {"jac": frozen(obj.jac(self.x(x)))}

    def set_setting(self, obj, v):
        obj.force_real = bool(v)

    def abstract(self, obj):
        return {"kind": "none", "last": None, "nout": 0, "njac": 0, "len": None, "ne": None, "nl": None, "dflt": 0,
                "has": None, "req": None, "rest": None, "sett": 1 if obj.force_real else 0}

    def concrete(self, obj, with_cache=True):
        return {"gram": {"input_names": list(obj.input_names), "output_names": list(obj.output_names), "dim": obj.dim},
                "sett": {"name": obj.name, "f_type": str(obj.f_type), "expr": obj.expr, "force_real": obj.force_real,
                         "special_repr": obj.special_repr, "has_jac": obj.has_jac},
                "data": {"last_eval": frozen(obj.last_eval)}, "ctr": {}, "cache": {}}


class SpaceAdapter(PlainAdapter):
    """DesignSpace: the 'default' is the current value; the observable 'execution' is the normalisation of a
    vector together with the views of the space."""

    def execute(self, obj, x, rest=False):
        v = self.x(x)
        return {"normalized": frozen(obj.normalize_vect(v)), "unnormalized": frozen(obj.unnormalize_vect(obj.normalize_vect(v))),
                "current": frozen(obj.get_current_value()), "current_n": frozen(obj.get_current_value(normalize=True)),
                "inside": bool(np.all(v >= obj.get_lower_bounds()) and np.all(v <= obj.get_upper_bounds()))}

    def set_default(self, obj, v):
        obj.set_current_value(np.array(self.e.pvals[v]))

    def set_setting(self, obj, v):
        obj.name = "space1" if v else "space0"

    def fresh(self):
        obj = self.e.make()
        obj.name = "space0"
        return obj

    def abstract(self, obj):
        cur = obj.get_current_value()
        return {"kind": "none", "last": None, "nout": 0, "njac": 0, "len": None, "ne": None, "nl": None,
                "dflt": next((i for i, val in enumerate(self.e.pvals) if same(cur, val)), -1),
                "has": None, "req": None, "rest": None, "sett": 1 if obj.name == "space1" else 0}

    def concrete(self, obj, with_cache=True):
        names = list(obj.variable_names)
        return {"gram": {"names": names, "sizes": {n: obj.get_size(n) for n in names},
                         "types": {n: str(obj.get_type(n)) for n in names},
                         "lb": frozen(obj.get_lower_bounds()), "ub": frozen(obj.get_upper_bounds()),
                         "current": frozen(obj.get_current_value()) if obj.has_current_value else None},
                "sett": {"name": obj.name}, "data": {}, "ctr": {}, "cache": {}}


class ProblemAdapter(PlainAdapter):
    """OptimizationProblem after preprocess_functions(): the database is its (keep-everything) cache, the
    n_calls of its functions its counters (they count calls, served from the database or not)."""

    def execute(self, obj, x, rest=False):
        out, _ = obj.evaluate_functions(design_vector=self.x(x), design_vector_is_normalized=False)
        return {k: frozen(v) for k, v in out.items()}

    def linearize(self, obj, x, rest=False):
        _, jac = obj.evaluate_functions(design_vector=self.x(x), design_vector_is_normalized=False,
                                        jacobian_functions=())
        return {k: frozen(v) for k, v in jac.items()}

    def set_setting(self, obj, v):
        obj.differentiation_step = 2e-7 if v else 1e-7

    def clear_cache(self, obj):
        obj.database.clear()

    def fresh(self):
        obj = self.e.make()
        obj.differentiation_step = 1e-7
        return obj

    def abstract(self, obj):
        db = obj.database
        f = obj.objective.name
        items = list(db.items())
        return {"kind": "mem", "last": None, "nout": sum(1 for _, o in items if f in o), "njac": sum(1 for _, o in items if "@" + f in o),
                "len": len(db), "ne": obj.objective.n_calls, "nl": None, "dflt": 0,
                "has": None, "req": None, "rest": None, "sett": 1 if obj.differentiation_step == 2e-7 else 0}

    def concrete(self, obj, with_cache=True):
        db = obj.database
        ds = obj.design_space
        return {"gram": {"functions": [f.name for f in obj.functions], "dims": [f.dim for f in obj.functions],
                         "space": list(ds.variable_names), "lb": frozen(ds.get_lower_bounds()), "ub": frozen(ds.get_upper_bounds()),
                         "current": frozen(ds.get_current_value())},
                "sett": {"minimize": obj.minimize_objective, "step": obj.differentiation_step,
                         "method": str(obj.differentiation_method), "tol_eq": obj.tolerances.equality,
                         "tol_ineq": obj.tolerances.inequality, "preprocessed": getattr(obj, "_OptimizationProblem__functions_are_preprocessed", None)},
                "data": {}, "ctr": {"n_calls": [f.n_calls for f in obj.functions], "iter": obj.evaluation_counter.current,
                                     "max_iter": obj.evaluation_counter.maximum},
                "cache": {"entries": [{"x": frozen(k.unwrap()), "out": {n: frozen(val) for n, val in o.items()}}
                                      for k, o in db.items()]}}


class ScenarioAdapter(PlainAdapter):
    """MDOScenario / DOEScenario: 'execute(x)' runs the scenario with the x-th algorithm settings; what it
    returns is the optimization result and the database it leaves; it depends on the runs made before."""

    SETTINGS = {"DOEScenario": [{"algo_name": "PYDOE_FULLFACT", "n_samples": 4}, {"algo_name": "PYDOE_FULLFACT", "n_samples": 9}],
                "MDOScenario": [{"algo_name": "SLSQP", "max_iter": 30}, {"algo_name": "L-BFGS-B", "max_iter": 30}]}

    def execute(self, obj, x, rest=False):
        obj.execute(**self.SETTINGS[self.e.name][x - 1])
        res = obj.optimization_result
        pb = obj.formulation.optimization_problem
        return {"x_opt": frozen(res.x_opt), "f_opt": frozen(res.f_opt), "n_database": len(pb.database),
                "current": frozen(pb.design_space.get_current_value())}

    banned = ("SetSetting", "DelDefault", "ClearDefaults", "Unrequire")   # no behaviour-neutral public setting to toggle

    def abstract(self, obj):
        st = obj.execution_statistics
        return {"kind": "none", "last": None, "nout": 0, "njac": 0, "len": None, "ne": st.n_executions, "nl": None,
                "dflt": 0, "has": None, "req": None, "rest": None, "sett": None}

    def concrete(self, obj, with_cache=True):
        pb = obj.formulation.optimization_problem
        ds = pb.design_space
        st = obj.execution_statistics
        settings = obj._settings
        return {"gram": {"functions": [f.name for f in pb.functions], "space": list(ds.variable_names),
                         "lb": frozen(ds.get_lower_bounds()), "ub": frozen(ds.get_upper_bounds()),
                         "disciplines": [d.name for d in obj.disciplines], "formulation": type(obj.formulation).__name__},
                "sett": {"name": obj.name, "algo": None if settings is None else frozen(settings.model_dump()),
                         "clear": obj.clear_history_before_execute},
                "data": {"current": frozen(ds.get_current_value()),
                         "database": [{"x": frozen(k.unwrap()), "out": {n: frozen(v) for n, v in o.items()}} for k, o in pb.database.items()]},
                "ctr": {"ne": st.n_executions, "duration": st.duration,
                        "sub": [(d.name, d.execution_statistics.n_executions) for d in obj.disciplines],
                        "n_calls": [f.n_calls for f in pb.functions if hasattr(f, "n_calls")]},
                "cache": {}}


class GrammarAdapter(DiscAdapter):
    """A bare grammar (what a discipline exposes and what travels inside every pickled discipline): the edits
    act on it directly; its observable 'execution' is the validation of the caller's data completed with its
    defaults (what Discipline.execute does first), returning the completed data."""

    banned = ("Linearize", "SetSetting", "SetCache", "ClearCache")

    def fresh(self):
        g = self.e.make()
        self.set_default(g, 0)
        self.bind_rest(g)
        return g

    def build(self, kind, f=1):
        return self.fresh()

    def gram(self, obj):
        return obj

    def hdf_attachment(self, obj):
        return None

    def local_point(self, obj):
        return None

    def execute(self, obj, x, rest=False):
        data = dict(self.inputs(x, rest))
        for n in obj.names:
            if n not in data and n in obj.defaults:
                data[n] = obj.defaults[n]
        obj.validate(data)
        return {n: frozen(data[n]) for n in obj.names if n in data}

    def abstract(self, obj):
        a = {"kind": "none", "last": None, "nout": 0, "njac": 0, "len": None, "ne": None, "nl": None, "sett": None}
        a.update(self.abstract_gram(obj))
        return a

    def concrete(self, obj, with_cache=True):
        g = self.grammar(obj)
        g["name"] = obj.name
        if any(c.__name__ == "JSONGrammar" for c in type(obj).__mro__):
            g["schema"] = frozen(obj.schema)
        else:
            g["types"] = {n: repr(obj[n]) for n in obj.names}
        return {"gram": g, "sett": {}, "data": {}, "ctr": {}, "cache": {}}


ADAPTERS = {"grammar": GrammarAdapter, "disc": DiscAdapter, "function": FunctionAdapter, "space": SpaceAdapter, "problem": ProblemAdapter,
            "scenario": ScenarioAdapter}


# ------------------------------------------------------------------ the replayer
def exc_name(ex):
    return ex.typ if isinstance(ex, ChildError) else type(ex).__name__


class Replayer:
    def __init__(self, ck, adapter, graph, *, config, file_mode, child=None):
        self.ck = ck
        self.ad = adapter
        self.g = graph
        self.config = config  # name of the TLC configuration (cache kinds)
        self.file_mode = file_mode
        self.child = child
        self.steps = 0
        self.outside = {}
        self.probes = 0
        self.probe_result = None
        self.probe_points = []
        self.probe_seed = None
        self.pickles = {}
        self.gen_pickles = {}     # (generation, how, where the pickled object lived -> where it is restored)
        self.remote_steps = 0     # actions performed in another interpreter
        self.expected_errors = 0  # calls the specification says are refused, and were
        self.cur_base = {}

    def sig(self, **kw):
        s = {"class": self.ad.e.name, "config": self.config, "grammar": self.ad.gt, "file": self.file_mode}
        s.update(kw)
        return s

    def call(self, obj, method, *args):
        """Apply a method of the adapter to a world's object, where that object lives."""
        if isinstance(obj, Remote):
            return obj.call(method, *args)
        return getattr(self.ad, method)(obj, *args)

    def cleanup(self):
        for f in (1, 2, 3):
            p = self.ad.file_path(f)
            if p.exists():
                p.unlink()
        if self.child is not None:
            self.child.reset()

    # ------------------------------------------------------------------ Pickle, by method and by place
    def pickle_roundtrip(self, obj, how, probe=None):
        """Returns the restored object (or its Remote) and the name of its class."""
        path = self.ad.work / "c20_obj.pkl"
        if isinstance(obj, Remote):
            c = obj.child
            if how in ("dumps", "file"):
                new = Remote(c, obj.cls_name)
                ans = c.request({"op": "repickle", "src": obj.handle, "dst": new.handle, "how": how, "path": str(path)})
                if ans["same_object"]:
                    raise AssertionError("restoring returned the pickled object itself")
                new.cls_name = ans["class"]
                return new, "other->other"
            if how == "spawn":
                # pickled there, restored here: the object crosses back
                return pickle.loads(c.request({"op": "dumps", "handle": obj.handle})["blob"]), "other->here"
            if how == "session":
                c.request({"op": "save", "handle": obj.handle, "path": str(path)})
                c2 = self.child.pick(avoid=c)
                new = Remote(c2, obj.cls_name)
                new.cls_name = c2.request({"op": "load", "handle": new.handle, "path": str(path), "spec": self.ad.binding()})["class"]
                self.probe_seed = c2.hash_seed
                return new, "other->another"
            raise ValueError(how)
        if how == "dumps":
            return pickle.loads(pickle.dumps(obj)), "here->here"
        if how == "file":
            from gemseo.utils.pickle import from_pickle, to_pickle

            to_pickle(obj, path)
            return from_pickle(path), "here->here"
        if how == "spawn":
            blob = pickle.dumps(obj)
            ans = self.child.roundtrip(blob, probe)
            self.probe_result = ans.get("probe")
            self.probe_seed = ans.get("hash_seed")
            return pickle.loads(ans["blob"]), "here->other->here"
        if how == "session":
            # a later session / a spawned worker: a fresh interpreter (another string-hash seed) reads the file
            from gemseo.utils.pickle import to_pickle

            to_pickle(obj, path)
            c = self.child.pick()
            new = Remote(c, type(obj).__name__)
            new.cls_name = c.request({"op": "load", "handle": new.handle, "path": str(path), "spec": self.ad.binding()})["class"]
            self.probe_seed = c.hash_seed
            return new, "here->other"
        raise ValueError(how)

    def run(self, path, hows=None):
        """Replay one behaviour (a list of edge indices).  `hows`: the method of the successive Pickles (when the
        graph was dumped for one method only: Pickle(m) is the same step for every m).  Returns False at the
        first violation."""
        ck, ad, g = self.ck, self.ad, self.g
        self.cleanup()
        init = g.states[g.edges[path[0]][0]]
        kind0 = init["cache"][0]["kind"]
        objs = {"orig": ad.build(kind0, 1), "copy": None}
        stale = {"orig": False, "copy": False}   # D11 classification only (see c20.py)
        hist = []
        oplog = {"orig": [], "copy": []}         # the calls each world has seen (for the twin, see below)
        n_pickle = 0
        try:
            for k in path:
                src, dst, act, args = g.edges[k]
                st, pre = g.states[dst], g.states[src]
                ret = st["ret"]
                hist.append(act)
                self.steps += 1
                if act == "Pickle":
                    how = hows[n_pickle] if hows and n_pickle < len(hows) else args[0]
                    n_pickle += 1
                    if objs["copy"] is not None:
                        # next generation: the object restored last is the one that is pickled now
                        objs["orig"], oplog["orig"], stale["orig"] = objs["copy"], oplog["copy"], stale["copy"]
                        objs["copy"] = None
                    if not self.do_pickle(objs, st, how, hist, stale):
                        return False
                    oplog["copy"] = list(oplog["orig"])
                    continue
                w = args[0]
                o = "copy" if w == "orig" else "orig"
                oplog[w].append((act, args, st, pre))
                remote = isinstance(objs[w], Remote)
                same_process = objs[o] is not None and not remote and not isinstance(objs[o], Remote)
                # (two objects in two processes cannot share memory: nothing to compare)
                before = ad.concrete(objs[o], with_cache=self.private_cache(objs, o, w)) if same_process else None
                base = self.sig(step=act, world=w, after_pickle=objs["copy"] is not None, ops=list(hist),
                                cache=self.call(objs[w], "kind"), gen=pre["gen"])
                if remote:
                    base["interpreter"] = "other"
                    self.remote_steps += 1
                if stale[w]:
                    base["stale_index"] = True
                self.cur_base = base
                expect_err = bool(ret.get("err"))
                raised = out = None
                try:
                    out = self.do_action(objs[w], w, act, args, st, pre)
                except Exception as ex:  # noqa: BLE001
                    import traceback

                    raised = (ex, traceback.format_exc(limit=6))
                if expect_err:
                    # the specification: the required input p has no value, the call is refused, nothing changes
                    if raised is None:
                        s = dict(base, what="accepted without a value for a required input")
                        if self.twin_agrees(kind0, oplog[w], ("val", out), s):
                            return True
                        ck.violation("SameBehaviour", s, {"returned": out, "ret": ret,
                                                           "spec_state": self.world_cells(st, w)})
                        return False
                    self.expected_errors += 1
                elif raised is not None:
                    ex, tb = raised
                    if self.twin_agrees(kind0, oplog[w], ("exc", exc_name(ex)), base):
                        return True
                    ck.violation("SameBehaviour", dict(base, exception=exc_name(ex)),
                                 {"exception": repr(ex), "traceback": tb})
                    return False
                self.track_stale(objs, stale, w, act, ret)
                # returned values
                if act in ("Execute", "Linearize") and not expect_err:
                    pt = tuple(ret["pt"])
                    mem = tuple(tuple(m) for m in ret["mem"])
                    if act == "Execute":
                        want = ad.reference(pt[0], pt[1], mem)
                    else:
                        want = ad.reference_jac(pt[0], pt[1])
                    if not same(out, want, ad.e.tol):
                        if self.twin_agrees(kind0, oplog[w], ("val", out), dict(base, what="returned value")):
                            return True
                        ck.violation("SameBehaviour", dict(base, what="returned value"),
                                     {"label": [pt, mem], "differs_at": diff_keys(out, want, ad.e.tol),
                                      "got": out, "expected": want, "ret": ret})
                        return False
                # both worlds against the cells of the successor state
                for ww in ("orig", "copy"):
                    if objs[ww] is None:
                        continue
                    bad = self.compare_abstract(objs[ww], ww, st)
                    if bad and bad[0][0] == "last_entry(reported)":
                        return False
                    if bad:
                        s = dict(base, what=bad[0][0], of=ww)
                        if stale[ww]:
                            s["stale_index"] = True
                        if ww != w and want_kind(st, ww) == "hdf" and bad[0][0] in ("len", "nout", "njac"):
                            clause = "StaysAttached"   # file-backed cache: both worlds see the file
                        elif bad[0][0] in ("ne", "nl"):
                            clause = "CountersByValue"
                        elif bad[0][0] == "last_entry":
                            clause = "LastEntryByValue"
                        else:
                            clause = "NoSharing" if ww != w else "SameBehaviour"
                        if ww == w and self.twin_agrees(kind0, oplog[w], ("abs", self.call(objs[w], "abstract")), s):
                            return True
                        ck.violation(clause, s, {"mismatches": bad, "ret": ret, "spec_state": self.world_cells(st, ww)})
                        return False
                # the other world's in-memory state must not move
                if before is not None:
                    after = ad.concrete(objs[o], with_cache=self.private_cache(objs, o, w))
                    if not same(before, after):
                        ck.violation("NoSharing", dict(base, what="other world changed"),
                                     {"differs_at": diff_keys(before, after), "ret": ret})
                        return False
            return True
        finally:
            objs.clear()
            self.cleanup()

    def twin_agrees(self, kind0, ops, outcome, sig):
        """The property compares a restored object with THE ORIGINAL.  When a world deviates from what the
        specification computed, the same calls are made on a never-pickled twin (a fresh instance with its own
        file): if the twin deviates in the same way, the deviation is not due to serialisation (the class departs
        from the model of Lifecycle.tla with or without pickling, e.g. a cache-transparency defect) - it is
        recorded in the evidence and is not a violation of C20.  Not used for a world whose file was written by
        the other world (the twin has a file of its own)."""
        if sig.get("stale_index"):
            return False
        ad = self.ad
        twin = None
        got = None
        try:
            twin = ad.build(kind0, 3)
            for i, (act, args, st, pre) in enumerate(ops):
                last = i == len(ops) - 1
                try:
                    out = self.do_action(twin, "twin", act, args, st, pre)
                except Exception as ex:  # noqa: BLE001
                    if not last and st["ret"].get("err"):
                        continue   # a call the specification says is refused
                    got = ("exc", type(ex).__name__)
                    if not last:
                        return False
                    break
                if last:
                    got = ("abs", ad.abstract(twin)) if outcome[0] == "abs" else ("val", out)
        except Exception:  # noqa: BLE001
            return False
        finally:
            twin = None
            p = ad.file_path(3) if ad.work is not None else None
            if p is not None and p.exists():
                p.unlink()
        if got is None or got[0] != outcome[0]:
            return False
        agree = got[1] == outcome[1] if got[0] in ("exc", "abs") else same(got[1], outcome[1], ad.e.tol)
        if agree:
            key = (ad.e.name, sig.get("step"), sig.get("what", outcome[1] if outcome[0] == "exc" else outcome[0]))
            rec = self.outside.setdefault(key, {"class": ad.e.name, "config": self.config, "step": sig.get("step"),
                                                "what": sig.get("what") or f"raises {outcome[1]}",
                                                "ops": sig.get("ops"), "count": 0})
            rec["count"] += 1
        return agree

    # -- helpers
    def private_cache(self, objs, o, w):
        """Whether the cache entries of world o are in-memory state (a file's content is compared with the
        specification's `files` after every step instead)."""
        return self.call(objs[o], "hdf_attachment") is None

    def track_stale(self, objs, stale, w, act, ret):
        """D11 classification: world o's HDF5Cache object is 'stale' once the other world wrote to / cleared
        the node both are attached to after o's cache object was created."""
        o = "copy" if w == "orig" else "orig"
        if act == "SetCache":
            stale[w] = False
        wrote = (act in ("Execute", "Linearize") and (ret["ran"] or ret["lin"])) or act == "ClearCache"
        if wrote and objs[o] is not None:
            a, b = self.call(objs[w], "hdf_attachment"), self.call(objs[o], "hdf_attachment")
            if a is not None and a == b:
                stale[o] = True

    def do_action(self, obj, w, act, args, st, pre):
        """`w`: where the object is ("orig" | "copy" | "twin"); args[0]: the world of the specification whose
        step this is."""
        if act in ("Execute", "Linearize"):
            # the caller supplies x and the other inputs the grammar of that world holds no default for
            cell = pre["gram"][pre["ref"][args[0]]["gram"] - 1]
            return self.call(obj, "execute" if act == "Execute" else "linearize", args[1], not cell["rest"])
        if act == "SetDefault":
            return self.call(obj, "set_default", args[1])
        if act == "DelDefault":
            return self.call(obj, "del_default")
        if act == "ClearDefaults":
            return self.call(obj, "clear_defaults", args[1])
        if act == "Unrequire":
            return self.call(obj, "unrequire")
        if act == "SetSetting":
            return self.call(obj, "set_setting", st["ret"]["v"])
        if act == "SetCache":
            f = 3 if w == "twin" else (1 if (w == "orig" or self.file_mode == "shared") else 2)
            return self.call(obj, "set_cache", args[1], f)
        if act == "ClearCache":
            return self.call(obj, "clear_cache")
        raise ValueError(act)

    def world_cells(self, st, w):
        r = st["ref"][w]
        c = st["cache"][r["cache"] - 1]
        ents = st["files"][c["file"] - 1] if c["kind"] == "hdf" else c
        gr = st["gram"][r["gram"] - 1]
        return {"kind": c["kind"], "nout": len(ents["outs"]), "njac": len(ents["jacs"]),
                "ne": st["ctr"][r["ctr"] - 1]["ne"], "nl": st["ctr"][r["ctr"] - 1]["nl"],
                "dflt": gr["dflt"], "has": gr["has"], "req": gr["req"], "rest": gr["rest"],
                "sett": st["sett"][r["sett"] - 1],
                "has_data": st["data"][r["data"] - 1]["has"], "pt": tuple(st["data"][r["data"] - 1]["pt"]),
                "last": (c["hasLast"], tuple(c["last"]))}

    def compare_abstract(self, obj, w, st):
        want = self.world_cells(st, w)
        got = self.call(obj, "abstract")
        bad = [(k, got[k], want[k]) for k in ("kind", "ne", "nl", "nout", "njac", "has", "req", "rest", "sett")
               if got.get(k) is not None and got[k] != want[k]]
        if not bad and got.get("has") is not False and want["has"] and got["dflt"] is not None and got["dflt"] != want["dflt"]:
            bad.append(("dflt", got["dflt"], want["dflt"]))
        if not bad and want["kind"] != "none" and got["len"] is not None and got["len"] != want["nout"]:
            bad.append(("len", got["len"], want["nout"]))
        if not bad and got["last"] is not None and want["kind"] != "none" and got["last"] != want["last"]:
            if want["kind"] == "hdf":
                # HDF5Cache: a cache object (re)attached to a non-empty node - restoring does that - takes the
                # NEWEST entry as its last entry (HDF5Cache._read_hashes): finding D2003; the behaviour goes on
                # when the finding is recorded (everything else is still compared)
                s = dict(self.cur_base, what="last_entry", of=w, cache="hdf")
                if self.ck.violation("LastEntryByValue", s, {"last_entry_of_the_object": got["last"],
                                                             "specification": want["last"]}):
                    bad.append(("last_entry(reported)", got["last"], want["last"]))
            else:
                bad.append(("last_entry", got["last"], want["last"]))
        if not bad and want["has_data"]:
            lp = self.call(obj, "local_point")
            if lp is not None and tuple(lp) != want["pt"]:
                bad.append(("local_data", lp, want["pt"]))
        return bad

    def do_pickle(self, objs, st, how, hist, stale):
        ck, ad = self.ck, self.ad
        orig = objs["orig"]
        kind = self.call(orig, "kind")
        moment = st["data"][0]["moment"]
        gen = st["gen"]
        base = self.sig(step="Pickle", how=how, cache=kind, moment=moment, ops=list(hist), gen=gen)
        self.cur_base = base
        att0 = self.call(orig, "hdf_attachment")
        if self.file_mode == "snapshot" and ad.file_path(1).exists():
            shutil.copyfile(ad.file_path(1), ad.file_path(2))
        # in the other process the restored object is also executed once (on an instance of its own), unless
        # that could write to the original's file
        probe = None
        self.probe_result = None
        g1 = st["gram"][0]
        if how == "spawn" and kind != "hdf" and not isinstance(orig, Remote) and g1["has"] and g1["rest"]:
            d0 = g1["dflt"]
            if ad.e.stateful:
                pts = [(1, d0)]
            else:
                # the point of the specification's Execute(1) and one more, not both of which can be served by
                # a single-entry cache that came along
                pts = [(1, d0), (2, 1 - d0 if ad.e.pname is not None else d0)]
            # the binding of the abstract inputs is transported, not recomputed in the other interpreter
            probe = dict(ad.binding(), points=pts)
            self.probe_points = pts
        try:
            copy, route = self.pickle_roundtrip(orig, how, probe)
        except Exception as ex:  # noqa: BLE001
            import traceback

            ck.violation("SameBehaviour", dict(base, exception=exc_name(ex), what="pickling failed"),
                         {"exception": repr(ex), "traceback": traceback.format_exc(limit=8)})
            return False
        objs["copy"] = copy
        stale["copy"] = False
        if self.probe_result is not None:
            # SameBehaviour for a = Execute(x) (after SetDefault(v)), evaluated in the other interpreter: the
            # labels <<(x, v), mem>> come from the cells of the state
            mem = tuple(tuple(m) for m in st["data"][st["ref"]["copy"]["data"] - 1]["mem"])
            for (x, v), got in zip(self.probe_points, self.probe_result):
                want = ad.reference(x, v, mem)
                self.probes += 1
                if not same(got, want, ad.e.tol):
                    ck.violation("SameBehaviour", dict(base, what="value returned in another interpreter"),
                                 {"point": [x, v], "hash_seed_of_the_interpreter": self.probe_seed,
                                  "differs_at": diff_keys(got, want, ad.e.tol), "got": got, "expected": want})
                    return False
        self.pickles[(kind, moment, how)] = self.pickles.get((kind, moment, how), 0) + 1
        self.gen_pickles[(gen, how, route)] = self.gen_pickles.get((gen, how, route), 0) + 1
        cls0 = orig.cls_name if isinstance(orig, Remote) else type(orig).__name__
        cls1 = copy.cls_name if isinstance(copy, Remote) else type(copy).__name__
        if copy is orig or cls0 != cls1 or (not isinstance(orig, Remote) and not isinstance(copy, Remote)
                                            and type(copy) is not type(orig)):
            ck.violation("NoSharing", dict(base, what="not a new object of the same class"), {})
            return False
        # a file-backed cache stays attached to its file
        if att0 is not None:
            att = self.call(copy, "hdf_attachment")
            if att != att0:
                ck.violation("StaysAttached", dict(base, what="attachment"), {"original": att0, "copy": att})
                return False
            if self.file_mode == "snapshot":
                self.call(copy, "reattach", 2)
        # SameState: the two worlds are equal right after Pickle (cells of the spec state say so)
        a, b = self.call(orig, "concrete"), self.call(copy, "concrete")
        if kind == "hdf":
            la, lb = a["cache"].pop("last_entry", None), b["cache"].pop("last_entry", None)
            if not same(la, lb):
                # finding D2003 (see compare_abstract); the behaviour goes on when it is recorded
                if ck.violation("LastEntryByValue", dict(base, what="last entry of the cache differs after restoring"),
                                {"original": la and la["in"], "copy": lb and lb["in"]}):
                    return False
        if not same(a, b):
            d = diff_keys(a, b)
            what = d[0].split(".")[0] if d else "?"
            clause = "CountersByValue" if what == "ctr" else ("StaysAttached" if what == "cache" and kind == "hdf" else "SameBehaviour")
            if d and d[0].startswith("cache.last_entry"):
                clause, what = "LastEntryByValue", "last entry of the cache"
            ck.violation(clause, dict(base, what=f"{what} differs after restoring"), {"differs_at": d, "route": route})
            return False
        for ww in ("orig", "copy"):
            bad = self.compare_abstract(objs[ww], ww, st)
            if bad and bad[0][0] == "last_entry(reported)":
                return False
            if bad:
                clause = ("CountersByValue" if bad[0][0] in ("ne", "nl")
                          else "LastEntryByValue" if bad[0][0].startswith("last_entry") else "SameBehaviour")
                ck.violation(clause, dict(base, what=bad[0][0], of=ww),
                             {"mismatches": bad, "spec_state": self.world_cells(st, ww), "route": route})
                return False
        return True
