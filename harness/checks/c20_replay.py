"""C20 - spec->code replay of Lifecycle.tla behaviours on real gemseo objects.

A behaviour is a path of the state graph dumped by TLC: for every step the action label (world, arguments)
and the successor state (the cells of both worlds, the files, and `ret`: what the call did/returned, as
computed by the specification).  The adapter performs the action on the real object of that world and the
replayer compares

* what the call returned with the value named by the label <<pt, mem>> of `ret` (values of labels are taken
  from a never-pickled, cache-less instance of the same class: "the original"),
* the projection of BOTH real objects onto the abstract cells (cache kind, number of entries with outputs /
  with a Jacobian, counters, default, setting, last local data) with the cells of the successor state,
* right after Pickle the full concrete projections of the two objects (grammar names / required names /
  defaults, settings, local data, Jacobian, cache entries, counters, statistics) - the specification says the
  two worlds are equal there (SameState),
* after every step on one world the concrete projection of the OTHER world with its projection before the
  step (NoSharingStep).

Python only transports values; what is expected comes from the TLC state.
"""
from __future__ import annotations

import os
import pickle
import shutil
import struct
import subprocess
import sys
from pathlib import Path

import numpy as np

from . import c20_catalog as cat

HDF_LAST_ENTRY_IS_A_CLAUSE = False   # see Replayer.observe_hdf_last
KIND_OF = {"NoneType": "none", "SimpleCache": "simple", "MemoryFullCache": "mem", "HDF5Cache": "hdf"}


# ------------------------------------------------------------------ value comparison (transport only)
def dense(a):
    if hasattr(a, "toarray"):
        return np.asarray(a.toarray())
    if hasattr(a, "todense"):
        return np.asarray(a.todense())
    return a


def same(a, b, tol=0.0):
    """Structural equality of projections; arrays within tol (0 = exact, NaN = NaN)."""
    a, b = dense(a), dense(b)
    if isinstance(a, dict) and isinstance(b, dict):
        return a.keys() == b.keys() and all(same(a[k], b[k], tol) for k in a)
    if isinstance(a, (list, tuple)) and isinstance(b, (list, tuple)):
        return len(a) == len(b) and all(same(x, y, tol) for x, y in zip(a, b))
    if isinstance(a, (np.ndarray, np.generic)) or isinstance(b, (np.ndarray, np.generic)):
        try:
            a, b = np.asarray(a), np.asarray(b)
            if a.shape != b.shape:
                return False
            if a.dtype.kind in "OUS" or b.dtype.kind in "OUS":
                return bool(np.all(a == b))
            if tol:
                return bool(np.allclose(a, b, rtol=tol, atol=tol, equal_nan=True))
            return bool(np.array_equal(a, b, equal_nan=True))
        except Exception:  # noqa: BLE001
            return False
    if isinstance(a, float) and isinstance(b, float) and tol:
        return abs(a - b) <= tol * (1 + abs(b)) or (a != a and b != b)
    try:
        return bool(a == b)
    except Exception:  # noqa: BLE001
        return False


def diff_keys(a, b, tol=0.0, prefix=""):
    """Paths at which two projections differ (for the replay file)."""
    out = []
    if isinstance(a, dict) and isinstance(b, dict):
        for k in sorted(set(a) | set(b), key=str):
            if k not in a or k not in b:
                out.append(f"{prefix}{k}(missing)")
            elif not same(a[k], b[k], tol):
                out += diff_keys(a[k], b[k], tol, f"{prefix}{k}.")
        return out[:8]
    return [prefix.rstrip(".")]


def frozen(v):
    """A by-value copy of a projection item."""
    v = dense(v)
    if isinstance(v, np.ndarray):
        return v.copy()
    if isinstance(v, dict):
        return {k: frozen(x) for k, x in v.items()}
    if isinstance(v, (list, tuple)):
        return [frozen(x) for x in v]
    if isinstance(v, (set, frozenset)):
        return sorted(v, key=str)
    if isinstance(v, (str, int, float, bool, complex, type(None), np.generic)):
        return v
    return repr(type(v))


# ------------------------------------------------------------------ child process (spawn-like round trip)
class Child:
    """A separate interpreter that unpickles what the parent pickled and sends it back pickled again:
    the object crosses a process boundary the way it does under the spawn start method."""

    def __init__(self, hash_seed=None):
        self.p = None
        self.hash_seed = hash_seed

    def start(self):
        env = dict(os.environ)
        if self.hash_seed is not None:
            # another interpreter does not iterate sets of strings / symbols in the parent's order
            env["PYTHONHASHSEED"] = str(self.hash_seed)
        verif = str(Path(__file__).resolve().parents[2])
        env["PYTHONPATH"] = os.pathsep.join([p for p in (env.get("PYTHONPATH", ""), verif) if p])
        self.p = subprocess.Popen([sys.executable, "-m", "harness.checks.c20_child"], stdin=subprocess.PIPE,
                                  stdout=subprocess.PIPE, stderr=subprocess.DEVNULL, cwd=verif, env=env)

    def roundtrip(self, blob: bytes, probe=None):
        if self.p is None or self.p.poll() is not None:
            self.start()
        req = pickle.dumps({"blob": blob, "probe": probe})
        self.p.stdin.write(struct.pack("<Q", len(req)) + req)
        self.p.stdin.flush()
        head = self.p.stdout.read(8)
        if len(head) < 8:
            raise RuntimeError("child process died")
        (n,) = struct.unpack("<Q", head)
        ans = pickle.loads(self.p.stdout.read(n))
        if "error" in ans:
            raise ChildError(ans["error_type"], ans["error"])
        return ans

    def close(self):
        if self.p is not None and self.p.poll() is None:
            try:
                self.p.stdin.write(struct.pack("<Q", 0))   # quit frame (EOF alone may never come, see child)
                self.p.stdin.flush()
                self.p.stdin.close()
                self.p.wait(20)
            except Exception:  # noqa: BLE001
                self.p.kill()


class Children:
    """Interpreters with DIFFERENT string-hash seeds (the parent runs with PYTHONHASHSEED=0 for determinism;
    a new session, a spawned worker or a job scheduler draws another one), used in rotation."""

    SEEDS = (1, 2, 3)

    def __init__(self):
        self.children = [Child(s) for s in self.SEEDS]
        self.n = 0

    def roundtrip(self, blob, probe=None):
        c = self.children[self.n % len(self.children)]
        self.n += 1
        ans = c.roundtrip(blob, probe)
        ans["hash_seed"] = c.hash_seed
        return ans

    def close(self):
        for c in self.children:
            c.close()


class ChildError(Exception):
    def __init__(self, typ, msg):
        super().__init__(f"{typ}: {msg}")
        self.typ = typ


# ------------------------------------------------------------------ adapters
class DiscAdapter:
    """Disciplines, chains, MDAs, scenario adapters: execute / linearize / grammars / cache / statistics."""

    linearize_kw = {"compute_all_jacobians": True}
    banned = ()

    def __init__(self, entry, gt, work: Path):
        self.e = entry
        self.gt = gt
        self.work = work
        self.refs = {}
        self.jrefs = {}

    # -- construction
    def fresh(self):
        with cat.grammar_type(self.gt):
            obj = self.e.make()
        cat.bind_from_defaults(self.e, obj)
        if self.e.pname is not None:
            # DV[0]: the constructor's default (installed here for the classes that come without one)
            self.set_default(obj, 0)
        return obj

    def file_path(self, f):
        return self.work / f"c20_file{f}.h5"

    def build(self, kind, f=1):
        obj = self.fresh()
        self.set_cache(obj, kind, f)
        return obj

    # -- the operations of the specification
    def inputs(self, x):
        return {self.e.xname: np.array(self.e.xvals[x - 1])}

    def execute(self, obj, x):
        data = obj.execute(self.inputs(x))
        return {n: frozen(data[n]) for n in obj.io.output_grammar.names}

    def linearize(self, obj, x):
        jac = obj.linearize(self.inputs(x), **self.linearize_kw)
        return {o: {i: frozen(m) for i, m in row.items()} for o, row in jac.items()}

    def set_default(self, obj, v):
        obj.io.input_grammar.defaults[self.e.pname] = np.array(self.e.pvals[v])

    def set_setting(self, obj, v):
        obj.validate_output_data = not bool(v)

    def set_cache(self, obj, kind, f):
        ct = obj.CacheType
        if kind == "none":
            obj.set_cache(ct.NONE)
        elif kind == "simple":
            obj.set_cache(ct.SIMPLE)
        elif kind == "mem":
            obj.set_cache(ct.MEMORY_FULL)
        elif kind == "hdf":
            obj.set_cache(ct.HDF5, hdf_file_path=str(self.file_path(f)))
        else:
            raise ValueError(kind)

    def clear_cache(self, obj):
        obj.cache.clear()

    # -- projection onto the abstract cells
    def kind(self, obj):
        return self.abstract_kind(getattr(obj, "cache", None)) if hasattr(obj, "cache") else self.abstract(obj)["kind"]

    @staticmethod
    def abstract_kind(c):
        return KIND_OF.get(type(c).__name__, type(c).__name__)

    def entries(self, obj):
        c = obj.cache
        if c is None or len(c) == 0:
            # (iterating an HDF5Cache that never opened its file trips an assertion in keep_open())
            return []
        return [e for e in c.get_all_entries() if e.inputs]

    def file_counts(self, c):
        """Entries of the HDF5 node a cache is attached to, read from the file itself: (with outputs, with a
        Jacobian)."""
        import h5py

        path = c.hdf_file.hdf_file_path
        if not os.path.exists(path):
            return 0, 0
        with h5py.File(path, "r") as f:
            node = f.get(c.hdf_node_path)
            if node is None:
                return 0, 0
            groups = [g for g in node.values() if isinstance(g, h5py.Group)]
            return (sum(1 for g in groups if "outputs" in g and len(g["outputs"])),
                    sum(1 for g in groups if "jacobian" in g and len(g["jacobian"])))

    def abstract(self, obj):
        c = obj.cache
        if type(c).__name__ == "HDF5Cache":
            nout, njac = self.file_counts(c)
        else:
            ents = self.entries(obj)
            nout, njac = sum(1 for e in ents if e.outputs), sum(1 for e in ents if e.jacobian)
        st = obj.execution_statistics
        a = {"kind": KIND_OF.get(type(c).__name__, type(c).__name__), "last": self.last_point(obj),
             "nout": nout, "njac": njac,
             "len": 0 if c is None else len(c),
             "ne": st.n_executions, "nl": st.n_linearizations,
             "sett": 0 if obj.validate_output_data else 1}
        if self.e.pname is not None:
            d = obj.io.input_grammar.defaults.get(self.e.pname)
            a["dflt"] = next((v for v, val in enumerate(self.e.pvals) if d is not None and same(d, val)), -1)
        else:
            a["dflt"] = 0
        return a

    def point_of(self, data):
        xi = next((i + 1 for i, val in enumerate(self.e.xvals) if self.e.xname in data and same(data[self.e.xname], val)), -1)
        if self.e.pname is None:
            return xi, 0
        pi = next((i for i, val in enumerate(self.e.pvals) if self.e.pname in data and same(data[self.e.pname], val)), -1)
        return xi, pi

    def last_point(self, obj):
        """(has, point) of cache.last_entry - the entry a warm-started consumer starts from."""
        c = obj.cache
        if c is None:
            return None
        try:
            e = c.last_entry
        except Exception:  # noqa: BLE001
            if type(c).__name__ == "HDF5Cache":
                return None   # a stale index pointing into a node the other world cleared (D11): not observable
            raise
        if not e.inputs:
            return (False, (0, 0))
        return (True, self.point_of(e.inputs))

    def local_point(self, obj):
        """(x index, default index) read back from the last local data, -1 when it is no catalogue value."""
        data = obj.io.data
        if self.e.xname in obj.io.output_grammar.names or self.e.pname in obj.io.output_grammar.names:
            return None  # an input that is also an output is overwritten by the run
        xi = next((i + 1 for i, val in enumerate(self.e.xvals) if self.e.xname in data and same(data[self.e.xname], val)), -1)
        if self.e.pname is None:
            return xi, 0
        pi = next((i for i, val in enumerate(self.e.pvals) if self.e.pname in data and same(data[self.e.pname], val)), -1)
        return xi, pi

    # -- concrete projection, attribute by attribute (the cells of the specification)
    def grammar(self, g):
        return {"class": type(g).__name__, "names": list(g.names), "required": sorted(g.required_names),
                "defaults": {k: frozen(v) for k, v in g.defaults.items()}}

    def concrete(self, obj, with_cache=True):
        st = obj.execution_statistics
        c = obj.cache
        out = {
            "gram": {"in": self.grammar(obj.io.input_grammar), "out": self.grammar(obj.io.output_grammar)},
            "sett": {"name": obj.name, "validate_in": obj.validate_input_data, "validate_out": obj.validate_output_data,
                     "virtual": obj.virtual_execution, "lin_mode": str(getattr(obj, "linearization_mode", "")),
                     "diff_in": sorted(getattr(obj, "_differentiated_input_names", [])),
                     "diff_out": sorted(getattr(obj, "_differentiated_output_names", [])),
                     "extra": self.settings(obj)},
            "data": {"local": {k: frozen(v) for k, v in obj.io.data.items()},
                     "jac": {o: {i: frozen(m) for i, m in row.items()} for o, row in (getattr(obj, "jac", None) or {}).items()}},
            "ctr": {"ne": st.n_executions, "nl": st.n_linearizations, "duration": st.duration,
                    "sub": [(d.name, d.execution_statistics.n_executions, d.execution_statistics.n_linearizations)
                            for d in self.sub_disciplines(obj)]},
            "cache": {"class": type(c).__name__, "tolerance": None if c is None else c.tolerance,
                      "name": None if c is None else c.name},
        }
        if c is not None and (with_cache or type(c).__name__ != "HDF5Cache") and self.last_point(obj) is not None:
            e = c.last_entry
            out["cache"]["last_entry"] = {"in": {k: frozen(v) for k, v in e.inputs.items()},
                                          "out": {k: frozen(v) for k, v in e.outputs.items()},
                                          "jac": sorted((o, i) for o, row in (e.jacobian or {}).items() for i in row)}
        if with_cache and c is not None:
            out["cache"]["entries"] = [
                {"in": {k: frozen(v) for k, v in e.inputs.items()}, "out": {k: frozen(v) for k, v in e.outputs.items()},
                 "jac": {o: {i: frozen(m) for i, m in row.items()} for o, row in (e.jacobian or {}).items()}}
                for e in self.entries(obj)]
        if type(c).__name__ == "HDF5Cache":
            out["cache"]["node"] = c.hdf_node_path
        return out

    def sub_disciplines(self, obj):
        ds = getattr(obj, "disciplines", None)
        try:
            return list(ds) if ds else []
        except TypeError:
            return []

    def settings(self, obj):
        s = getattr(obj, "settings", None)
        if s is not None and hasattr(s, "model_dump"):
            try:
                return {k: frozen(v) for k, v in s.model_dump().items()}
            except Exception:  # noqa: BLE001
                return repr(type(s))
        return None

    # -- values of the labels: a never-pickled, cache-less instance of the same class
    def reference(self, x, v, mem):
        key = (x, v, mem)
        if key not in self.refs:
            ref = self.build("none")
            for (mx, mv) in mem:
                if self.e.pname is not None:
                    self.set_default(ref, mv)
                self.execute(ref, mx)
            if self.e.pname is not None:
                self.set_default(ref, v)
            self.refs[key] = self.execute(ref, x)
        return self.refs[key]

    def reference_jac(self, x, v):
        key = (x, v)
        if key not in self.jrefs:
            ref = self.build("none")
            if self.e.pname is not None:
                self.set_default(ref, v)
            self.jrefs[key] = self.linearize(ref, x)
        return self.jrefs[key]

    def hdf_attachment(self, obj):
        c = obj.cache
        if type(c).__name__ != "HDF5Cache":
            return None
        return (os.path.realpath(c.hdf_file.hdf_file_path), c.hdf_node_path)

    def reattach(self, obj, f):
        """Snapshot mode only: point the RESTORED cache object (its hash index was read from the original
        file while restoring) to the byte copy of that file."""
        from gemseo.caches._hdf5_file_singleton import HDF5FileSingleton

        c = obj.cache
        single = HDF5FileSingleton(str(self.file_path(f)))
        c._HDF5Cache__hdf_file = single
        c.lock = single.lock


def want_kind(st, w):
    return st["cache"][st["ref"][w]["cache"] - 1]["kind"]


class PlainAdapter(DiscAdapter):
    """Objects that are not disciplines: the same abstract operations, bound to their own API.  Items of the
    abstract projection the object does not have (no cache, no counters) are None = not observed."""

    def fresh(self):
        return self.e.make()

    def build(self, kind, f=1):
        return self.fresh()

    def hdf_attachment(self, obj):
        return None

    def local_point(self, obj):
        return None

    def set_cache(self, obj, kind, f):
        raise ValueError("no cache to set")

    def x(self, i):
        return np.array(self.e.xvals[i - 1])


class FunctionAdapter(PlainAdapter):
    """MDOFunction and the function algebra: evaluate / jac; no cache, no counters, no defaults."""

    def execute(self, obj, x):
        return {"value": frozen(obj.evaluate(self.x(x)))}

    def linearize(self, obj, x):
        return {"jac": frozen(obj.jac(self.x(x)))}

    def set_setting(self, obj, v):
        obj.force_real = bool(v)

    def abstract(self, obj):
        return {"kind": "none", "last": None, "nout": 0, "njac": 0, "len": None, "ne": None, "nl": None, "dflt": 0,
                "sett": 1 if obj.force_real else 0}

    def concrete(self, obj, with_cache=True):
        return {"gram": {"input_names": list(obj.input_names), "output_names": list(obj.output_names), "dim": obj.dim},
                "sett": {"name": obj.name, "f_type": str(obj.f_type), "expr": obj.expr, "force_real": obj.force_real,
                         "special_repr": obj.special_repr, "has_jac": obj.has_jac},
                "data": {"last_eval": frozen(obj.last_eval)}, "ctr": {}, "cache": {}}


class SpaceAdapter(PlainAdapter):
    """DesignSpace: the 'default' is the current value; the observable 'execution' is the normalisation of a
    vector together with the views of the space."""

    def execute(self, obj, x):
        v = self.x(x)
        return {"normalized": frozen(obj.normalize_vect(v)), "unnormalized": frozen(obj.unnormalize_vect(obj.normalize_vect(v))),
                "current": frozen(obj.get_current_value()), "current_n": frozen(obj.get_current_value(normalize=True)),
                "inside": bool(np.all(v >= obj.get_lower_bounds()) and np.all(v <= obj.get_upper_bounds()))}

    def set_default(self, obj, v):
        obj.set_current_value(np.array(self.e.pvals[v]))

    def set_setting(self, obj, v):
        obj.name = "space1" if v else "space0"

    def fresh(self):
        obj = self.e.make()
        obj.name = "space0"
        return obj

    def abstract(self, obj):
        cur = obj.get_current_value()
        return {"kind": "none", "last": None, "nout": 0, "njac": 0, "len": None, "ne": None, "nl": None,
                "dflt": next((i for i, val in enumerate(self.e.pvals) if same(cur, val)), -1),
                "sett": 1 if obj.name == "space1" else 0}

    def concrete(self, obj, with_cache=True):
        names = list(obj.variable_names)
        return {"gram": {"names": names, "sizes": {n: obj.get_size(n) for n in names},
                         "types": {n: str(obj.get_type(n)) for n in names},
                         "lb": frozen(obj.get_lower_bounds()), "ub": frozen(obj.get_upper_bounds()),
                         "current": frozen(obj.get_current_value()) if obj.has_current_value else None},
                "sett": {"name": obj.name}, "data": {}, "ctr": {}, "cache": {}}


class ProblemAdapter(PlainAdapter):
    """OptimizationProblem after preprocess_functions(): the database is its (keep-everything) cache, the
    n_calls of its functions its counters (they count calls, served from the database or not)."""

    def execute(self, obj, x):
        out, _ = obj.evaluate_functions(design_vector=self.x(x), design_vector_is_normalized=False)
        return {k: frozen(v) for k, v in out.items()}

    def linearize(self, obj, x):
        _, jac = obj.evaluate_functions(design_vector=self.x(x), design_vector_is_normalized=False,
                                        jacobian_functions=())
        return {k: frozen(v) for k, v in jac.items()}

    def set_setting(self, obj, v):
        obj.differentiation_step = 2e-7 if v else 1e-7

    def clear_cache(self, obj):
        obj.database.clear()

    def fresh(self):
        obj = self.e.make()
        obj.differentiation_step = 1e-7
        return obj

    def abstract(self, obj):
        db = obj.database
        f = obj.objective.name
        items = list(db.items())
        return {"kind": "mem", "last": None, "nout": sum(1 for _, o in items if f in o), "njac": sum(1 for _, o in items if "@" + f in o),
                "len": len(db), "ne": obj.objective.n_calls, "nl": None, "dflt": 0,
                "sett": 1 if obj.differentiation_step == 2e-7 else 0}

    def concrete(self, obj, with_cache=True):
        db = obj.database
        ds = obj.design_space
        return {"gram": {"functions": [f.name for f in obj.functions], "dims": [f.dim for f in obj.functions],
                         "space": list(ds.variable_names), "lb": frozen(ds.get_lower_bounds()), "ub": frozen(ds.get_upper_bounds()),
                         "current": frozen(ds.get_current_value())},
                "sett": {"minimize": obj.minimize_objective, "step": obj.differentiation_step,
                         "method": str(obj.differentiation_method), "tol_eq": obj.tolerances.equality,
                         "tol_ineq": obj.tolerances.inequality, "preprocessed": getattr(obj, "_OptimizationProblem__functions_are_preprocessed", None)},
                "data": {}, "ctr": {"n_calls": [f.n_calls for f in obj.functions], "iter": obj.evaluation_counter.current,
                                     "max_iter": obj.evaluation_counter.maximum},
                "cache": {"entries": [{"x": frozen(k.unwrap()), "out": {n: frozen(val) for n, val in o.items()}}
                                      for k, o in db.items()]}}


class ScenarioAdapter(PlainAdapter):
    """MDOScenario / DOEScenario: 'execute(x)' runs the scenario with the x-th algorithm settings; what it
    returns is the optimization result and the database it leaves; it depends on the runs made before."""

    SETTINGS = {"DOEScenario": [{"algo_name": "PYDOE_FULLFACT", "n_samples": 4}, {"algo_name": "PYDOE_FULLFACT", "n_samples": 9}],
                "MDOScenario": [{"algo_name": "SLSQP", "max_iter": 30}, {"algo_name": "L-BFGS-B", "max_iter": 30}]}

    def execute(self, obj, x):
        obj.execute(**self.SETTINGS[self.e.name][x - 1])
        res = obj.optimization_result
        pb = obj.formulation.optimization_problem
        return {"x_opt": frozen(res.x_opt), "f_opt": frozen(res.f_opt), "n_database": len(pb.database),
                "current": frozen(pb.design_space.get_current_value())}

    banned = ("SetSetting",)   # no behaviour-neutral public setting to toggle

    def abstract(self, obj):
        st = obj.execution_statistics
        return {"kind": "none", "last": None, "nout": 0, "njac": 0, "len": None, "ne": st.n_executions, "nl": None,
                "dflt": 0, "sett": None}

    def concrete(self, obj, with_cache=True):
        pb = obj.formulation.optimization_problem
        ds = pb.design_space
        st = obj.execution_statistics
        settings = obj._settings
        return {"gram": {"functions": [f.name for f in pb.functions], "space": list(ds.variable_names),
                         "lb": frozen(ds.get_lower_bounds()), "ub": frozen(ds.get_upper_bounds()),
                         "disciplines": [d.name for d in obj.disciplines], "formulation": type(obj.formulation).__name__},
                "sett": {"name": obj.name, "algo": None if settings is None else frozen(settings.model_dump()),
                         "clear": obj.clear_history_before_execute},
                "data": {"current": frozen(ds.get_current_value()),
                         "database": [{"x": frozen(k.unwrap()), "out": {n: frozen(v) for n, v in o.items()}} for k, o in pb.database.items()]},
                "ctr": {"ne": st.n_executions, "duration": st.duration,
                        "sub": [(d.name, d.execution_statistics.n_executions) for d in obj.disciplines],
                        "n_calls": [f.n_calls for f in pb.functions if hasattr(f, "n_calls")]},
                "cache": {}}


ADAPTERS = {"disc": DiscAdapter, "function": FunctionAdapter, "space": SpaceAdapter, "problem": ProblemAdapter,
            "scenario": ScenarioAdapter}


# ------------------------------------------------------------------ the replayer
class Replayer:
    def __init__(self, ck, adapter, graph, *, config, file_mode, child=None):
        self.ck = ck
        self.ad = adapter
        self.g = graph
        self.config = config  # name of the TLC configuration (cache kinds)
        self.file_mode = file_mode
        self.child = child
        self.steps = 0
        self.hdf_last_seen = set()
        self.outside = {}
        self.probes = 0
        self.probe_result = None
        self.probe_points = []
        self.probe_seed = None
        self.pickles = {}

    def sig(self, **kw):
        s = {"class": self.ad.e.name, "config": self.config, "grammar": self.ad.gt, "file": self.file_mode}
        s.update(kw)
        return s

    def cleanup(self):
        for f in (1, 2, 3):
            p = self.ad.file_path(f)
            if p.exists():
                p.unlink()

    def pickle_roundtrip(self, obj, how, probe=None):
        if how == "dumps":
            return pickle.loads(pickle.dumps(obj))
        if how == "file":
            from gemseo.utils.pickle import from_pickle, to_pickle

            path = self.ad.work / "c20_obj.pkl"
            to_pickle(obj, path)
            return from_pickle(path)
        if how == "spawn":
            blob = pickle.dumps(obj)
            ans = self.child.roundtrip(blob, probe)
            self.probe_result = ans.get("probe")
            self.probe_seed = ans.get("hash_seed")
            return pickle.loads(ans["blob"])
        raise ValueError(how)

    def run(self, path):
        """Replay one behaviour (a list of edge indices).  Returns False at the first violation."""
        ck, ad, g = self.ck, self.ad, self.g
        self.cleanup()
        init = g.states[g.edges[path[0]][0]]
        kind0 = init["cache"][0]["kind"]
        objs = {"orig": ad.build(kind0, 1), "copy": None}
        stale = {"orig": False, "copy": False}   # D11 classification only (see c20.py)
        hist = []
        oplog = {"orig": [], "copy": []}         # the calls each world has seen (for the twin, see below)
        try:
            for k in path:
                src, dst, act, args = g.edges[k]
                st = g.states[dst]
                ret = st["ret"]
                hist.append(act if act != "Pickle" else "Pickle")
                self.steps += 1
                if act == "Pickle":
                    if not self.do_pickle(objs, st, args[0], hist, stale):
                        return False
                    oplog["copy"] = list(oplog["orig"])
                    continue
                w = args[0]
                o = "copy" if w == "orig" else "orig"
                oplog[w].append((act, args, st))
                before = ad.concrete(objs[o], with_cache=self.private_cache(objs, o, w)) if objs[o] is not None else None
                base = self.sig(step=act, world=w, after_pickle=objs["copy"] is not None, ops=list(hist),
                                cache=ad.kind(objs[w]))
                if stale[w]:
                    base["stale_index"] = True
                try:
                    out = self.do_action(objs[w], w, act, args, st)
                except Exception as ex:  # noqa: BLE001
                    import traceback

                    tb = traceback.format_exc(limit=6)
                    if self.twin_agrees(kind0, oplog[w], ("exc", type(ex).__name__), base):
                        return True
                    ck.violation("SameBehaviour", dict(base, exception=type(ex).__name__),
                                 {"exception": repr(ex), "traceback": tb})
                    return False
                self.track_stale(objs, stale, w, act, ret)
                # returned values
                if act in ("Execute", "Linearize"):
                    pt = tuple(ret["pt"])
                    mem = tuple(tuple(m) for m in ret["mem"])
                    if act == "Execute":
                        want = ad.reference(pt[0], pt[1], mem)
                    else:
                        want = ad.reference_jac(pt[0], pt[1])
                    if not same(out, want, ad.e.tol):
                        if self.twin_agrees(kind0, oplog[w], ("val", out), dict(base, what="returned value")):
                            return True
                        ck.violation("SameBehaviour", dict(base, what="returned value"),
                                     {"label": [pt, mem], "differs_at": diff_keys(out, want, ad.e.tol),
                                      "got": out, "expected": want, "ret": ret})
                        return False
                # both worlds against the cells of the successor state
                for ww in ("orig", "copy"):
                    if objs[ww] is None:
                        continue
                    bad = self.compare_abstract(objs[ww], ww, st)
                    if bad:
                        s = dict(base, what=bad[0][0], of=ww)
                        if stale[ww]:
                            s["stale_index"] = True
                        if ww != w and want_kind(st, ww) == "hdf" and bad[0][0] in ("len", "nout", "njac"):
                            clause = "StaysAttached"   # file-backed cache: both worlds see the file
                        elif bad[0][0] in ("ne", "nl"):
                            clause = "CountersByValue"
                        elif bad[0][0] == "last_entry":
                            clause = "LastEntryByValue"
                        else:
                            clause = "NoSharing" if ww != w else "SameBehaviour"
                        if ww == w and self.twin_agrees(kind0, oplog[w], ("abs", ad.abstract(objs[w])), s):
                            return True
                        ck.violation(clause, s, {"mismatches": bad, "ret": ret, "spec_state": self.world_cells(st, ww)})
                        return False
                # the other world's in-memory state must not move
                if before is not None:
                    after = ad.concrete(objs[o], with_cache=self.private_cache(objs, o, w))
                    if not same(before, after):
                        ck.violation("NoSharing", dict(base, what="other world changed"),
                                     {"differs_at": diff_keys(before, after), "ret": ret})
                        return False
            return True
        finally:
            objs.clear()
            self.cleanup()

    def twin_agrees(self, kind0, ops, outcome, sig):
        """The property compares a restored object with THE ORIGINAL.  When a world deviates from what the
        specification computed, the same calls are made on a never-pickled twin (a fresh instance with its own
        file): if the twin deviates in the same way, the deviation is not due to serialisation (the class departs
        from the model of Lifecycle.tla with or without pickling, e.g. a cache-transparency defect) - it is
        recorded in the evidence and is not a violation of C20.  Not used for a world whose file was written by
        the other world (the twin has a file of its own)."""
        if sig.get("stale_index"):
            return False
        ad = self.ad
        twin = None
        got = None
        try:
            twin = ad.build(kind0, 3)
            for i, (act, args, st) in enumerate(ops):
                last = i == len(ops) - 1
                try:
                    out = self.do_action(twin, "twin", act, args, st)
                except Exception as ex:  # noqa: BLE001
                    got = ("exc", type(ex).__name__)
                    if not last:
                        return False
                    break
                if last:
                    got = ("abs", ad.abstract(twin)) if outcome[0] == "abs" else ("val", out)
        except Exception:  # noqa: BLE001
            return False
        finally:
            twin = None
            p = ad.file_path(3) if ad.work is not None else None
            if p is not None and p.exists():
                p.unlink()
        if got is None or got[0] != outcome[0]:
            return False
        agree = got[1] == outcome[1] if got[0] in ("exc", "abs") else same(got[1], outcome[1], ad.e.tol)
        if agree:
            key = (ad.e.name, sig.get("step"), sig.get("what", outcome[1] if outcome[0] == "exc" else outcome[0]))
            rec = self.outside.setdefault(key, {"class": ad.e.name, "config": self.config, "step": sig.get("step"),
                                                "what": sig.get("what") or f"raises {outcome[1]}",
                                                "ops": sig.get("ops"), "count": 0})
            rec["count"] += 1
        return agree

    # -- helpers
    def private_cache(self, objs, o, w):
        """Whether the cache entries of world o are in-memory state (a file's content is compared with the
        specification's `files` after every step instead)."""
        return self.ad.hdf_attachment(objs[o]) is None

    def track_stale(self, objs, stale, w, act, ret):
        """D11 classification: world o's HDF5Cache object is 'stale' once the other world wrote to / cleared
        the node both are attached to after o's cache object was created."""
        o = "copy" if w == "orig" else "orig"
        if act == "SetCache":
            stale[w] = False
        wrote = (act in ("Execute", "Linearize") and (ret["ran"] or ret["lin"])) or act == "ClearCache"
        if wrote and objs[o] is not None:
            a, b = self.ad.hdf_attachment(objs[w]), self.ad.hdf_attachment(objs[o])
            if a is not None and a == b:
                stale[o] = True

    def do_action(self, obj, w, act, args, st):
        ad = self.ad
        if act == "Execute":
            return ad.execute(obj, args[1])
        if act == "Linearize":
            return ad.linearize(obj, args[1])
        if act == "SetDefault":
            return ad.set_default(obj, args[1])
        if act == "SetSetting":
            return ad.set_setting(obj, st["ret"]["v"])
        if act == "SetCache":
            f = 3 if w == "twin" else (1 if (w == "orig" or self.file_mode == "shared") else 2)
            return ad.set_cache(obj, args[1], f)
        if act == "ClearCache":
            return ad.clear_cache(obj)
        raise ValueError(act)

    def world_cells(self, st, w):
        r = st["ref"][w]
        c = st["cache"][r["cache"] - 1]
        ents = st["files"][c["file"] - 1] if c["kind"] == "hdf" else c
        return {"kind": c["kind"], "nout": len(ents["outs"]), "njac": len(ents["jacs"]),
                "ne": st["ctr"][r["ctr"] - 1]["ne"], "nl": st["ctr"][r["ctr"] - 1]["nl"],
                "dflt": st["gram"][r["gram"] - 1]["dflt"], "sett": st["sett"][r["sett"] - 1],
                "has": st["data"][r["data"] - 1]["has"], "pt": tuple(st["data"][r["data"] - 1]["pt"]),
                "last": (c["hasLast"], tuple(c["last"]))}

    def compare_abstract(self, obj, w, st):
        want = self.world_cells(st, w)
        got = self.ad.abstract(obj)
        bad = [(k, got[k], want[k]) for k in ("kind", "ne", "nl", "nout", "njac", "dflt", "sett")
               if got[k] is not None and got[k] != want[k]]
        if not bad and want["kind"] != "none" and got["len"] is not None and got["len"] != want["nout"]:
            bad.append(("len", got["len"], want["nout"]))
        if not bad and got["last"] is not None and want["kind"] != "none" and got["last"] != want["last"]:
            if want["kind"] == "hdf" and not HDF_LAST_ENTRY_IS_A_CLAUSE:
                self.observe_hdf_last(w, got["last"], want["last"])
            else:
                bad.append(("last_entry", got["last"], want["last"]))
        if not bad and want["has"]:
            lp = self.ad.local_point(obj)
            if lp is not None and lp != want["pt"]:
                bad.append(("local_data", lp, want["pt"]))
        return bad

    def observe_hdf_last(self, w, got, want):
        """HDF5Cache: a cache object (re)attached to a non-empty node - restoring does that - takes the NEWEST
        entry as its last entry, whatever the original's was (HDF5Cache._read_hashes).  Same class of deviation
        as for the memory cache, but how HDF5Cache is written today: reported as an observation until it is
        recorded as a finding (set HDF_LAST_ENTRY_IS_A_CLAUSE)."""
        key = (self.ad.e.name, w)
        if key in self.hdf_last_seen:
            return
        self.hdf_last_seen.add(key)
        self.ck.observe("LastEntryByValue(hdf)", self.sig(world=w, cache="hdf", what="last_entry"),
                        {"last_entry_of_the_object": got, "specification": want})

    def do_pickle(self, objs, st, how, hist, stale):
        ck, ad = self.ck, self.ad
        orig = objs["orig"]
        kind = ad.kind(orig)
        moment = st["data"][0]["moment"]
        base = self.sig(step="Pickle", how=how, cache=kind, moment=moment, ops=list(hist))
        att0 = ad.hdf_attachment(orig)
        if self.file_mode == "snapshot" and ad.file_path(1).exists():
            shutil.copyfile(ad.file_path(1), ad.file_path(2))
        # in the other process the restored object is also executed once (on an instance of its own), unless
        # that could write to the original's file
        probe = None
        self.probe_result = None
        if how == "spawn" and kind != "hdf":
            d0 = st["gram"][0]["dflt"]
            if ad.e.stateful:
                pts = [(1, d0)]
            else:
                # the point of the specification's Execute(1) and one more, not both of which can be served by
                # a single-entry cache that came along
                pts = [(1, d0), (2, 1 - d0 if ad.e.pname is not None else d0)]
            # the binding of the abstract inputs is transported, not recomputed in the other interpreter
            probe = {"entry": ad.e.name, "grammar": ad.gt, "points": pts,
                     "binding": {"xname": ad.e.xname, "pname": ad.e.pname, "xvals": ad.e.xvals, "pvals": ad.e.pvals}}
            self.probe_points = pts
        try:
            copy = self.pickle_roundtrip(orig, how, probe)
        except Exception as ex:  # noqa: BLE001
            import traceback

            typ = ex.typ if isinstance(ex, ChildError) else type(ex).__name__
            ck.violation("SameBehaviour", dict(base, exception=typ, what="pickling failed"),
                         {"exception": repr(ex), "traceback": traceback.format_exc(limit=8)})
            return False
        objs["copy"] = copy
        stale["copy"] = False
        if self.probe_result is not None:
            # SameBehaviour for a = Execute(1), evaluated in the child: the label comes from the cells
            # SameBehaviour for a = Execute(x) (after SetDefault(v)), evaluated in the other interpreter: the
            # labels <<(x, v), mem>> come from the cells of the state
            mem = tuple(tuple(m) for m in st["data"][st["ref"]["copy"]["data"] - 1]["mem"])
            for (x, v), got in zip(self.probe_points, self.probe_result):
                want = ad.reference(x, v, mem)
                self.probes += 1
                if not same(got, want, ad.e.tol):
                    ck.violation("SameBehaviour", dict(base, what="value returned in another interpreter"),
                                 {"point": [x, v], "hash_seed_of_the_interpreter": self.probe_seed,
                                  "differs_at": diff_keys(got, want, ad.e.tol), "got": got, "expected": want})
                    return False
        self.pickles[(kind, moment, how)] = self.pickles.get((kind, moment, how), 0) + 1
        if copy is orig or type(copy) is not type(orig):
            ck.violation("NoSharing", dict(base, what="not a new object of the same class"), {})
            return False
        # a file-backed cache stays attached to its file
        if att0 is not None:
            att = ad.hdf_attachment(copy)
            if att != att0:
                ck.violation("StaysAttached", dict(base, what="attachment"), {"original": att0, "copy": att})
                return False
            if self.file_mode == "snapshot":
                ad.reattach(copy, 2)
        # SameState: the two worlds are equal right after Pickle (cells of the spec state say so)
        a, b = ad.concrete(orig), ad.concrete(copy)
        if kind == "hdf" and not HDF_LAST_ENTRY_IS_A_CLAUSE:
            la, lb = a["cache"].pop("last_entry", None), b["cache"].pop("last_entry", None)
            if not same(la, lb):
                self.observe_hdf_last("copy", lb and lb["in"], la and la["in"])
        if not same(a, b):
            d = diff_keys(a, b)
            what = d[0].split(".")[0] if d else "?"
            clause = "CountersByValue" if what == "ctr" else ("StaysAttached" if what == "cache" and kind == "hdf" else "SameBehaviour")
            if d and d[0].startswith("cache.last_entry"):
                clause, what = "LastEntryByValue", "last entry of the cache"
            ck.violation(clause, dict(base, what=f"{what} differs after restoring"), {"differs_at": d})
            return False
        for ww in ("orig", "copy"):
            bad = self.compare_abstract(objs[ww], ww, st)
            if bad:
                clause = ("CountersByValue" if bad[0][0] in ("ne", "nl")
                          else "LastEntryByValue" if bad[0][0] == "last_entry" else "SameBehaviour")
                ck.violation(clause, dict(base, what=bad[0][0], of=ww),
                             {"mismatches": bad, "spec_state": self.world_cells(st, ww)})
                return False
        return True
