"""C09 - composite processes differentiate by the exact chain rule.

Specification: specs/ChainRule.tla (+ ChainTopo.tla, ChainTopoDefs.tla, MatC09.tla).
  1. TLC enumerates the process topologies (ChainTopo: every listing of <= MaxN disciplines, every
     input set, overwritten names, SELF-OVERWRITING members - state-update steps that read and write
     up to two names, alone, repeated, followed by readers -, members of parallel/additive chains) and
     labels their classes.
  2. Instances = topology x composition kind x sizes x INTEGER partial Jacobians x points x request
     history are given to ChainRule.tla; TLC computes the expected value of every name and the total
     derivative block of every (output, input) pair (forward propagation with the visibility rules of
     the processes), runs the implementation-shaped reverse accumulation of chain.py over the request
     history and checks AccIsTotal / Shapes / StructuralZeros after every request.
  3. spec -> code: every instance is built from real gemseo classes (leaves with constant integer
     Jacobians returned as ndarray / csr_array / JacobianOperator, or polynomial leaves), the request
     history is replayed with add_differentiated_inputs/outputs + linearize (or
     compute_all_jacobians=True) and EVERY requested block is compared exactly, with its shape, with
     the block TLC printed.  A few instances get every request history over an alphabet (depth <= 3).
Python only draws the inputs (seeded) and transports values; the expected blocks come from TLC.
"""
from __future__ import annotations

import json
import random
import traceback

import numpy as np

from ..core import Check, MachineryError, main
from . import c09_disc

INVS = ["WellFormed", "AccIsTotal", "RequestIndependence", "PathSumIsTotal", "Shapes", "StructuralZeros", "SetsSane"]
NEXT = 2  # external names
POOL = ["a", "b", "c", "d", "e", "f", "g", "h", "k", "m", "p", "q", "r", "s", "t", "u", "v", "w", "x", "y", "z"]


def topo_cfg(max_n, max_ins, max_extra, extra_ext, independent=False, npool=2, max_self=0):
    return (f"CONSTANTS MaxN = {max_n}\n NExt = {NEXT}\n MaxIns = {max_ins}\n MaxExtra = {max_extra}\n"
            f" ExtraExt = {'TRUE' if extra_ext else 'FALSE'}\n Independent = {'TRUE' if independent else 'FALSE'}\n"
            f" MaxSelf = {max_self}\n"
            f" NPool = {npool}\nSPECIFICATION Spec\nINVARIANT Legal\nINVARIANT Emit\nCHECK_DEADLOCK FALSE\n")


# The implementation-shaped model follows the code AS READ TODAY.  Once the fixes/C09-*.patch are committed to
# /repo set this to True: the model then uses the repaired assembly rules (and the known_findings become "fixed").
MODEL_REPAIRED = True
# The linearization point of the self-overwriting members of an MDOChain (LinVal in ChainRule.tla): the model follows
# the code as read today (the member's local data AFTER its execution).  Set to True once
# fixes/C09-D18e-chain-self-overwriting-member-point.patch is committed to /repo (the finding D18e becomes "fixed").
MODEL_REPAIRED_POINT = True
SELF_CLASSES = ("self_overwriting", "self_overwriting_multi", "self_overwriting_repeated", "self_overwriting_read",
                "self_overwriting_cross", "self_overwriting_pure")


def rule_cfg(exhaustive=False, max_hist=3, check_known=False, view=False, emit=True, full_alphabet=False, repaired=None,
             repaired_pt=None, invs=None):
    rep = MODEL_REPAIRED if repaired is None else repaired
    rpt = MODEL_REPAIRED_POINT if repaired_pt is None else repaired_pt
    s = (f"CONSTANTS Exhaustive = {'TRUE' if exhaustive else 'FALSE'}\n MaxHist = {max_hist}\n Repaired = {'TRUE' if rep else 'FALSE'}\n"
         f" RepairedPt = {'TRUE' if rpt else 'FALSE'}\n"
         f" CheckKnown = {'TRUE' if check_known else 'FALSE'}\n FullAlphabet = {'TRUE' if full_alphabet else 'FALSE'}\n"
         "SPECIFICATION Spec\nCHECK_DEADLOCK FALSE\n")
    for i in (INVS if invs is None else invs):
        s += f"INVARIANT {i}\n"
    if emit:
        s += "INVARIANT Emit\n"
    if view:
        s += "VIEW View\n"
    return s


def enumerate_topologies(ck: Check, **kw):
    r = ck.tlc("ChainTopo", topo_cfg(**kw), workers=1, timeout=900, coverage=False)
    out = []
    for v in r.printed():
        if isinstance(v, tuple) and v and v[0] == "TOPO":
            _, n, ins, outs, classes = v
            out.append({"n": n, "ins": [sorted(s) for s in ins], "outs": [sorted(s) for s in outs],
                        "classes": frozenset(classes)})
    if not out:
        raise MachineryError("ChainTopo printed no topology")
    out.sort(key=lambda t: (t["n"], t["ins"], t["outs"]))
    return out


# ------------------------------------------------------------------ instances (inputs drawn by Python)

def segments(t):
    """Finest partition of the listing into consecutive segments without a name-based edge across."""
    n = t["n"]
    edge = [[u != v and bool(set(t["outs"][u]) & set(t["ins"][v])) for v in range(n)] for u in range(n)]
    segs, cur = [], [0]
    for k in range(1, n):
        if any(edge[u][v] or edge[v][u] for u in range(k) for v in range(k, n)):
            cur.append(k)
        else:
            segs.append(cur)
            cur = [k]
    segs.append(cur)
    return segs


def draw_instance(rng: random.Random, iid, t, shape, *, poly=False, hist_len=3, exhaustive=False):
    """shape: how the leaves are composed (see below).  Returns (json instance for TLC, impl-only meta)."""
    n = t["n"]
    nv = max(max(max(s) for s in t["ins"]), max(max(s) for s in t["outs"]))
    sizes = [rng.choice([1, 2]) for _ in range(nv)]
    lim = 1 if poly else 2
    P = []
    for d in range(n):
        for o in t["outs"][d]:
            for i in t["ins"][d]:
                P.append([d + 1, o, i, [[rng.randint(-lim, lim) for _ in range(sizes[i - 1])] for _ in range(sizes[o - 1])]])
    plim = 1 if poly else 3
    points = [[[rng.randint(-plim, plim) for _ in range(sizes[v])] for v in range(nv)] for _ in range(2)]
    leaf = lambda d: ["leaf", [d + 1], []]  # noqa: E731
    outer, osum = "chain", []
    struct = None  # impl structure: ("leaf", k) | (kind, [children]) | ("additive", [children], names)
    if shape == "chain":
        blocks = [leaf(d) for d in range(n)]
    elif shape == "nested":
        # outer MDOChain over consecutive groups; a group of independent members may be a parallel chain
        blocks, d = [], 0
        while d < n:
            ln = rng.randint(1, n - d)
            mem = list(range(d, d + ln))
            if ln == 1:
                blocks.append(leaf(d))
            else:
                indep = not any(set(t["outs"][u]) & set(t["ins"][v]) for u in mem for v in mem if u != v)
                disjoint = len({o for u in mem for o in t["outs"][u]}) == sum(len(t["outs"][u]) for u in mem)
                kind = rng.choice(["chain", "parallel"]) if (indep and disjoint) else "chain"
                blocks.append([kind, [m + 1 for m in mem], []])
            d += ln
    elif shape in ("parallel", "additive"):
        outer = shape
        blocks = [leaf(d) for d in range(n)]
        if shape == "additive":
            outs = sorted({o for s in t["outs"] for o in s})
            k = rng.randint(1, len(outs))
            osum = sorted(rng.sample(outs, k))
    elif shape == "parallel_of_chains":
        outer = "parallel"
        blocks = [leaf(s[0]) if len(s) == 1 else ["chain", [m + 1 for m in s], []] for s in segments(t)]
    elif shape in ("mda", "mda_parallel"):
        outer = "mda"
        blocks = [leaf(d) for d in range(n)]
    else:
        raise ValueError(shape)
    # names: a random injective naming (the order of names is what the code sorts / hashes)
    names = rng.sample(POOL, nv)
    order = sorted(range(1, nv + 1), key=lambda v: names[v - 1])
    inst = {"id": iid, "n": n, "nv": nv, "ins": t["ins"], "outs": t["outs"], "size": sizes, "P": P, "poly": poly,
            "outer": outer, "blocks": blocks, "osum": osum, "points": points, "hist": [], "ord": order}
    # structure handed to the builder
    def bstruct(b):
        if b[0] == "leaf":
            return ("leaf", b[1][0] - 1)
        return (b[0], [("leaf", m - 1) for m in b[1]])
    if shape in ("mda", "mda_parallel"):
        perm = list(range(n))
        rng.shuffle(perm)
        kind = {"mda": "mdachain", "mda_parallel": "mdachain_parallel"}[shape]
        struct = (kind, [("leaf", k) for k in perm])
    elif outer == "additive":
        struct = ("additive", [bstruct(b) for b in blocks], osum)
    else:
        struct = (outer, [bstruct(b) for b in blocks])
    meta = {"names": names, "struct": struct, "shape": shape,
            "jac_kinds": None, "full_jac": [rng.random() < 0.5 for _ in range(n)]}
    jk = rng.choice(["dense", "sparse", "operator", "mixed", "mixed_int"])
    meta["jac_kind"] = jk
    per_leaf = {"mixed": ["dense", "sparse", "operator"],
                "mixed_int": ["dense", "dense_i", "sparse", "sparse_i", "operator"]}
    meta["jac_kinds"] = [rng.choice(per_leaf[jk]) if jk in per_leaf else jk for _ in range(n)]
    meta["rng_state"] = rng.random()  # for the request history, drawn once the chain grammars are known
    meta["hist_len"] = 0 if exhaustive else hist_len
    return inst, meta


def draw_history(rng: random.Random, chain_in, chain_out, length, npoints=2):
    hist = []
    for _ in range(length):
        if rng.random() < 0.2:
            hist.append([sorted(chain_in), sorted(chain_out), True, rng.randint(1, npoints)])
        else:
            i = rng.sample(sorted(chain_in), rng.randint(1, len(chain_in)))
            o = rng.sample(sorted(chain_out), rng.randint(1, len(chain_out)))
            # mostly the same point (the cached-Jacobian paths), sometimes a new one
            hist.append([sorted(i), sorted(o), False, 1 if rng.random() < 0.7 else 2])
    return hist


# ------------------------------------------------------------------ TLC on instances

def tlc_instances(ck: Check, insts, tag, *, expect_ok=True, workers=1, count=True, **cfgkw):
    f = ck.work / f"c09-{tag}.json"
    f.write_text(json.dumps(insts))
    r = ck.tlc("ChainRule", rule_cfg(**cfgkw), workers=workers, timeout=2700, env={"C09_INPUT": str(f)}, coverage=False,
               expect_ok=expect_ok, count=count, tag=tag)
    inst_lines, req_lines = {}, {}
    for v in r.printed():
        if not isinstance(v, tuple) or not v:
            continue
        if v[0] == "INST":
            _, iid, cin, cout, classes, defect, tables = v
            inst_lines[iid] = {"in": cin, "out": cout, "classes": classes, "defect": defect, "tables": _seq(tables)}
        elif v[0] == "REQ":
            _, iid, hist, rin, rout, modelled, din, dout, agrees, sigcls, indep, dup = v
            req_lines.setdefault(iid, {})[_hkey(hist)] = {"hist": _seq(hist), "in": rin, "out": rout, "modelled": modelled,
                                                         "dIn": _seq(din), "dOut": _seq(dout), "agrees": agrees,
                                                         "sig": sigcls, "indep": indep, "dup": dup}
    return r, inst_lines, req_lines


def together(*jobs):
    """Run independent TLC jobs (callables) side by side; the results in order (an exception of any is re-raised)."""
    from concurrent.futures import ThreadPoolExecutor
    with ThreadPoolExecutor(len(jobs)) as ex:
        futs = [ex.submit(j) for j in jobs]
        return [f.result() for f in futs]


def _seq(x):
    if isinstance(x, tuple):
        return list(x)
    if isinstance(x, dict):
        return [x[k] for k in range(1, len(x) + 1)]
    raise MachineryError(f"not a sequence: {x!r}")


def _hkey(hist):
    return tuple((tuple(sorted(r["ins"])), tuple(sorted(r["outs"])), bool(r["all"]), r["pt"]) for r in _seq(hist))


def _at(f, k):
    """Apply a TLA+ function printed by TLC: a dict, or a tuple when its domain is 1..n."""
    return f[k - 1] if isinstance(f, tuple) else f[k]


def _mat(m):
    """TLA matrix (tuple of tuples, or function 1..n) -> ndarray."""
    return np.array([[float(x) for x in _seq(row)] for row in _seq(m)], dtype=float)


# ------------------------------------------------------------------ replay on the real classes

def build_process(inst, meta):
    Leaf = c09_disc.leaf_class()
    nm = meta["names"]
    sizes = {nm[v]: inst["size"][v] for v in range(inst["nv"])}
    mats = [dict() for _ in range(inst["n"])]
    for d, o, i, m in inst["P"]:
        mats[d - 1].setdefault(nm[o - 1], {})[nm[i - 1]] = np.array(m, dtype=float)
    leaves = [Leaf(f"L{d + 1}", [nm[i - 1] for i in inst["ins"][d]], [nm[o - 1] for o in inst["outs"][d]], mats[d], sizes,
                   jac_kind=meta["jac_kinds"][d], poly=inst["poly"], full_jac=meta["full_jac"][d])
              for d in range(inst["n"])]
    st = meta["struct"]
    if st[0] == "additive":
        st = ("additive", st[1], [nm[o - 1] for o in st[2]])
    return c09_disc.build(st, leaves), leaves


def replay_history(ck: Check, inst, meta, il, reqs, hist, checked):
    """Run one request history on a fresh process; compare after every request.  `checked`: prefixes already
    compared for this instance (a prefix is compared once, the objects are rebuilt for every history)."""
    nm = meta["names"]
    idx = {nm[v]: v + 1 for v in range(inst["nv"])}
    tol = 0.0  # every composite of the slice computes in exact integer arithmetic
    base_sig = {"composite": meta["shape"], "jac": meta["jac_kind"], "poly": inst["poly"]}
    ok, built = ck.guard("Build", dict(base_sig, topology_class="?"), build_process, inst, meta)
    if not ok:
        return False
    proc, leaves = built
    case = {"instance": {k: inst[k] for k in ("n", "ins", "outs", "size", "P", "poly", "outer", "blocks", "osum")},
            "names": nm, "struct": meta["struct"], "jac_kinds": meta["jac_kinds"], "history": hist}
    gin = {idx[x] for x in proc.io.input_grammar}
    gout = {idx[x] for x in proc.io.output_grammar if x in idx}
    if gin != set(il["in"]) or gout != set(il["out"]):
        ck.violation("Grammar", dict(base_sig, topology_class="?"),
                     dict(case, spec_in=sorted(il["in"]), spec_out=sorted(il["out"]), impl_in=sorted(gin), impl_out=sorted(gout)))
        return False
    good = True
    for k, rq in enumerate(hist):
        key = tuple(_rkey(r) for r in hist[: k + 1])
        want = reqs.get(key)
        if want is None:
            raise MachineryError(f"no REQ line for instance {inst['id']} history {key}")
        sig = dict(base_sig, topology_class=want["sig"], independent_pair=bool(want["indep"]), duplicate_output=bool(want["dup"]),
                   request="all" if rq[2] else "subset", step=k + 1)
        pt = rq[3]
        data = {nm[v - 1]: np.array(inst["points"][pt - 1][v - 1], dtype=float) for v in il["in"]}

        def call():
            if rq[2]:
                return proc.linearize(data, compute_all_jacobians=True)
            proc.add_differentiated_inputs([nm[v - 1] for v in rq[0]])
            proc.add_differentiated_outputs([nm[v - 1] for v in rq[1]])
            return proc.linearize(data)

        try:
            jac = call()
        except Exception as ex:  # noqa: BLE001 - gemseo raised on a request the specification allows
            ck.violation("Linearize", dict(sig, exception=type(ex).__name__),
                         dict(case, step=k + 1, exception=repr(ex), traceback=traceback.format_exc(limit=8),
                              requested_in=[nm[v - 1] for v in sorted(want["in"])],
                              requested_out=[nm[v - 1] for v in sorted(want["out"])]))
            return False
        if key in checked:
            continue
        checked.add(key)
        table = il["tables"][pt - 1]
        bad = []
        for o in sorted(want["out"]):
            on = nm[o - 1]
            # the function the process computes
            got_v = np.asarray(proc.io.data[on], dtype=float)
            exp_v = np.array([float(x) for x in _seq(_at(table["val"], o))])
            # (linearize() resets a name that is both an input and an output to its input value: not observable)
            if o not in il["in"] and (got_v.shape != exp_v.shape or not (
                    np.array_equal(got_v, exp_v) if tol == 0.0 else np.allclose(got_v, exp_v, rtol=0, atol=tol))):
                bad.append({"value_of": on, "impl": got_v.tolist(), "spec": exp_v.tolist()})
            for i in sorted(want["in"]):
                inn = nm[i - 1]
                exp = _mat(_at(_at(table["jac"], o), i))
                try:
                    blk = jac[on][inn]
                except (KeyError, TypeError):
                    bad.append({"block": [on, inn], "impl": "missing", "spec": exp.tolist()})
                    continue
                try:
                    got = c09_disc.to_dense(blk)
                except Exception as ex:  # noqa: BLE001
                    bad.append({"block": [on, inn], "impl": f"unreadable {type(blk).__name__}: {ex!r}", "spec": exp.tolist()})
                    continue
                if tuple(getattr(blk, "shape", got.shape)) != exp.shape or got.shape != exp.shape:
                    bad.append({"block": [on, inn], "impl_shape": list(got.shape), "spec_shape": list(exp.shape),
                                "impl": got.tolist(), "spec": exp.tolist()})
                elif not (np.array_equal(got, exp) if tol == 0.0 else np.allclose(got, exp, rtol=0, atol=tol)):
                    bad.append({"block": [on, inn], "impl": got.tolist(), "spec": exp.tolist(), "type": type(blk).__name__})
        ck.extra["blocks_compared"] = ck.extra.get("blocks_compared", 0) + len(want["out"]) * len(want["in"])
        if want["modelled"]:
            # evidence only: the implementation-shaped model's derived state vs the real objects
            same = all(set(idx[x] for x in leaves[d]._differentiated_input_names) == set(want["dIn"][d])
                       and set(idx[x] for x in leaves[d]._differentiated_output_names) == set(want["dOut"][d])
                       for d in range(inst["n"]))
            ck.extra["model_steps"] = ck.extra.get("model_steps", 0) + 1
            ck.extra["model_steps_same_derived_state"] = ck.extra.get("model_steps_same_derived_state", 0) + int(same)
            ck.extra["model_predicts_outcome"] = ck.extra.get("model_predicts_outcome", 0) + int(bool(want["agrees"]) == (not bad))
            if bool(want["agrees"]) != (not bad) and len(ck.extra.setdefault("model_outcome_mismatches", [])) < 5:
                ck.extra["model_outcome_mismatches"].append(dict(case, step=k + 1, model_agrees=bool(want["agrees"]),
                                                                 wrong=bad[:3], sig=sig))
        if bad:
            good = False
            clause = "Executes" if all("value_of" in b for b in bad) else "TotalDerivative"
            ck.violation(clause, sig, dict(case, step=k + 1, requested_in=[nm[v - 1] for v in sorted(want["in"])],
                                           requested_out=[nm[v - 1] for v in sorted(want["out"])], wrong=bad[:6],
                                           n_wrong=len(bad), classes=sorted(il["classes"])))
    return good


def _rkey(r):
    return (tuple(sorted(r[0])), tuple(sorted(r[1])), bool(r[2]), r[3])


# ------------------------------------------------------------------ the check

def stratified(rng, topos, k, must=("diamond", "fan_in", "fan_out", "pass_through", "isolated", "multi_out",
                                    "overwritten", "overwritten_consumed", "input_is_output")):
    """k topologies, every class label represented about equally (classes come from TLC)."""
    if k >= len(topos):
        return list(topos)
    chosen, seen = [], set()
    per = max(1, k // (len(must) + 2))
    for c in must:
        pool = [j for j, t in enumerate(topos) if c in t["classes"] and j not in seen]
        for j in rng.sample(pool, min(per, len(pool))):
            seen.add(j)
            chosen.append(j)
    rest = [j for j in range(len(topos)) if j not in seen]
    chosen += rng.sample(rest, min(max(0, k - len(chosen)), len(rest)))
    return [topos[j] for j in sorted(chosen)]


SELF_MUST = ("self_overwriting_cross", "self_overwriting_cross", "self_overwriting_multi", "self_overwriting_repeated", "self_overwriting_read",
             "self_overwriting_pure")


def _plain(t):
    return "overwritten" not in t["classes"] and "input_is_output" not in t["classes"]


def exhaustive_histories(ck: Check, rng, seq_topos, ind_topos, self_topos, next_id):
    """Every request history over the alphabet (single names, full sets, compute_all_jacobians) up to a depth:
    (a) checked by TLC on the implementation-shaped model with the VIEW (histories quantifier at model level),
    (b) printed without VIEW for a few instances and ALL of them replayed on fresh real objects."""
    th = ck.thorough
    plain3 = [t for t in seq_topos if t["n"] == 3 and _plain(t)]
    diamond = [t for t in plain3 if t["ins"] == [[1, 2], [1, 3], [2, 3, 4]] and t["outs"] == [[3], [4], [5]]]
    if not diamond:
        raise MachineryError("the diamond is not among the enumerated topologies")
    rich = [t for t in plain3 if {"diamond", "pass_through", "fan_out"} <= t["classes"] or "isolated" in t["classes"]]
    par = [t for t in ind_topos if t["n"] >= 2 and len({o for s in t["outs"] for o in s}) == sum(len(s) for s in t["outs"])]
    # additive chain: an output summed over two members that share an input, and another output the first one lacks
    add = [t for t in ind_topos if t["n"] >= 2 and "additive_uneven" in t["classes"]]
    # an overwritten name whose first definition depends on a chain input that the overwriting discipline ignores
    small = lambda t: len({v for s in t["ins"] + t["outs"] for v in s}) <= 5  # noqa: E731 - (size of the request alphabet)
    shadowed = [t for t in seq_topos if t["n"] == 3 and "shadowed" in t["classes"] and "self_overwriting" not in t["classes"]
                and small(t)]
    if not add or not shadowed:
        raise MachineryError("no additive_uneven / shadowed topology among the enumerated ones")
    picks = [(diamond[0], "chain")] + [(t, "chain") for t in rng.sample(rich, 2 if th else 1)]
    picks += [(t, "chain") for t in rng.sample(shadowed, 1)]
    picks += [(rng.choice(par), "parallel"), (rng.choice(add), "additive")]
    # a state-update step of two names repeated and then read: every history of sub-requests on the same object
    step = [t for t in self_topos if {"self_overwriting_cross", "self_overwriting_repeated", "self_overwriting_read"} <= t["classes"]
            and small(t)]
    # (thorough tier; the quick tier replays random histories of three requests on this family)
    picks += [(t, "chain") for t in rng.sample(step, 1 if th else 0)]
    insts, metas = [], {}
    for k, (t, shape) in enumerate(picks):
        inst, meta = draw_instance(rng, next_id + k, t, shape, exhaustive=True)
        if shape == "additive":  # the outputs with several producers are the summed ones
            outs = [o for s in t["outs"] for o in s]
            inst["osum"] = sorted({o for o in outs if outs.count(o) >= 2})
            meta["struct"] = ("additive", meta["struct"][1], inst["osum"])
        insts.append(inst)
        metas[inst["id"]] = meta
    # (a) model level, larger set, VIEW
    more = [draw_instance(rng, next_id + 100 + k, t, "chain", exhaustive=True)[0]
            for k, t in enumerate(rng.sample([t for t in seq_topos if t["n"] <= 3 and _plain(t)], 20 if th else 5)
                                  + rng.sample([t for t in seq_topos if t["n"] <= 3 and not _plain(t)], 8 if th else 2)
                                  + rng.sample([t for t in self_topos if t["n"] <= 2], 6 if th else 2))]
    # (b) every history printed (expected blocks only: (a) checks the invariants on these instances), then replayed
    depth = 3 if th else 2
    (r, _, _), (_, il, rl) = together(
        lambda: tlc_instances(ck, insts + more, "exh-view", exhaustive=True, max_hist=3, view=True, emit=False,
                              full_alphabet=th, workers=8 if th else 3),
        lambda: tlc_instances(ck, insts, "exh-replay", exhaustive=True, max_hist=depth, invs=["WellFormed"], count=False))
    ck.extra["exhaustive_history_states_model_level"] = r.distinct
    n = 0
    for inst in insts:
        iid = inst["id"]
        reqs = rl.get(iid, {})
        keys = set(reqs)
        maximal = [k for k in keys if not any(len(k2) == len(k) + 1 and k2[: len(k)] == k for k2 in keys)]
        # every history on every representation of the leaves' Jacobians (the specification does not depend on it):
        # up to the full depth as the instance was drawn, up to depth 2 on the three uniform representations
        upto2 = [k for k in keys if len(k) == min(2, depth)]
        for jk in (None, "dense", "sparse", "operator", "int_float"):
            if jk is None and depth <= 2:
                continue
            if jk == "int_float":   # integer-typed and float-typed leaves alternate (both accumulation orders)
                kinds = [("dense_i", "dense", "sparse_i", "sparse")[(d + iid) % 4] for d in range(inst["n"])]
                meta = dict(metas[iid], jac_kind=jk, jac_kinds=kinds)
            else:
                meta = metas[iid] if jk is None else dict(metas[iid], jac_kind=jk, jac_kinds=[jk] * inst["n"])
            checked = set()
            for key in sorted(maximal if jk is None else upto2):
                hist = [[list(a), list(b), c, d] for a, b, c, d in key]
                replay_history(ck, inst, meta, il[iid], reqs, hist, checked)
                n += 1
                ck.traces += 1
    ck.extra["exhaustive_histories_replayed"] = n
    ck.extra["exhaustive_history_depth"] = depth


def refute_known_classes(ck: Check, rng):
    """With Repaired=FALSE the implementation-shaped model is the code as it was before the fix: commits: on the defect classes TLC must REFUTE
    AccIsTotal when it is demanded everywhere (the defects are found at specification level, and the model is
    not vacuous)."""
    cases = {
        "overwritten_variable": ({"n": 3, "ins": [[2], [1, 2], [1, 3]], "outs": [[3], [3, 4], [5]]}, "chain"),
        "duplicate_output": ({"n": 2, "ins": [[1], [2]], "outs": [[3], [3]]}, "parallel"),
        "additive_undifferentiated_member": ({"n": 2, "ins": [[1, 2], [1]], "outs": [[3], [3]]}, "additive"),
    }
    out = {}
    for k, (name, (t, shape)) in enumerate(sorted(cases.items())):
        inst, _ = draw_instance(random.Random(1234 + k), 9000 + k, t, shape)
        # non-zero partials so that the wrong terms do not vanish
        for e in inst["P"]:
            e[3] = [[1 for _ in row] for row in e[3]]
        if shape == "additive":
            inst["osum"] = [3]
        inst["hist"] = [[[2] if shape == "additive" else [1, 2], sorted({o for s in t["outs"] for o in s}), shape != "additive", 1]]
        r, _, _ = tlc_instances(ck, [inst], f"refute-{name}", expect_ok=False, check_known=True, emit=False, repaired=False,
                                repaired_pt=False)
        out[name] = r.violated
        if r.violated != "AccIsTotal":
            raise MachineryError(f"the implementation-shaped model does not show the known defect class {name}: {r.violated}")
    # the linearization point of a self-overwriting polynomial member (x -> x, then a reader): with the accumulation
    # rules repaired, the model that evaluates the member's partial at the value it has WRITTEN is refuted, the one
    # that evaluates it at the value it has READ satisfies every invariant
    t = {"n": 2, "ins": [[1], [1, 2]], "outs": [[1], [3]]}
    inst, _ = draw_instance(random.Random(4321), 9100, t, "chain", poly=True)
    for e in inst["P"]:
        e[3] = [[1 for _ in row] for row in e[3]]
    inst["points"] = [[[2 for _ in range(sz)] for sz in inst["size"]] for _ in inst["points"]]
    inst["hist"] = [[[1, 2], [1, 3], False, 1], [[1], [3], False, 1]]
    name = "self_overwriting_nonlinear"
    r, _, _ = tlc_instances(ck, [inst], f"refute-{name}", expect_ok=False, check_known=True, emit=False, repaired=True,
                            repaired_pt=False)
    out[name] = r.violated
    if r.violated != "AccIsTotal":
        raise MachineryError(f"the implementation-shaped model does not show the known defect class {name}: {r.violated}")
    tlc_instances(ck, [inst], f"holds-{name}", check_known=True, emit=False, repaired=True, repaired_pt=True)
    ck.extra["defect_classes_refuted_at_specification_level"] = out


def run(ck: Check):
    import time
    rng = random.Random(ck.seed)
    th = ck.thorough
    t0 = time.time()
    timing = ck.extra.setdefault("timing_s", {})

    def lap(name):
        nonlocal t0
        timing[name] = round(time.time() - t0, 1)
        t0 = time.time()
    # ---- 1. topologies from TLC
    seq_topos = enumerate_topologies(ck, max_n=4 if th else 3, max_ins=3, max_extra=1, extra_ext=True)
    if not th:
        seq_topos += [t for t in enumerate_topologies(ck, max_n=4, max_ins=2, max_extra=1, extra_ext=False) if t["n"] == 4]
    ind_topos = enumerate_topologies(ck, max_n=3, max_ins=2, max_extra=0, extra_ext=False, independent=True, npool=3 if th else 2)
    # self-overwriting members (state-update steps): a discipline reads AND writes up to 2 names, with or without
    # an output of its own; alone, repeated, followed by readers (the labels come from TLC)
    self_topos = [t for t in enumerate_topologies(ck, max_n=3, max_ins=3 if th else 2, max_extra=0, extra_ext=False, max_self=2)
                  if "self_overwriting" in t["classes"]]
    ind_self = [t for t in enumerate_topologies(ck, max_n=3 if th else 2, max_ins=2, max_extra=0, extra_ext=False, independent=True,
                                                npool=2, max_self=2) if "self_overwriting" in t["classes"]]
    ck.extra["topologies_enumerated"] = {"sequential": len(seq_topos), "independent_members": len(ind_topos),
                                         "self_overwriting": len(self_topos), "self_overwriting_independent_members": len(ind_self)}
    lap("topologies")
    clean = [t for t in seq_topos if "overwritten" not in t["classes"] and "input_is_output" not in t["classes"]]
    segm = [t for t in clean if len(segments(t)) >= 2]

    budget = {"chain": 1400, "nested": 500, "parallel": 250, "additive": 250, "parallel_of_chains": 200,
              "mda": 300, "mda_parallel": 150, "poly": 400, "self_chain": 300, "self_nested": 100, "self_poly": 100, "self_parallel": 60} if th else \
             {"chain": 160, "nested": 50, "parallel": 30, "additive": 30, "parallel_of_chains": 20,
              "mda": 30, "mda_parallel": 15, "poly": 40, "self_chain": 56, "self_nested": 16, "self_poly": 16, "self_parallel": 12}
    plan = []
    plan += [(t, "chain", False) for t in stratified(rng, seq_topos, budget["chain"])]
    plan += [(t, "nested", False) for t in stratified(rng, [t for t in seq_topos if t["n"] >= 2], budget["nested"])]
    plan += [(t, "parallel", False) for t in stratified(rng, ind_topos, budget["parallel"])]
    plan += [(t, "additive", False) for t in stratified(rng, ind_topos, budget["additive"])]
    plan += [(t, "parallel_of_chains", False) for t in stratified(rng, segm, budget["parallel_of_chains"])]
    for shape in ("mda", "mda_parallel"):
        plan += [(t, shape, False) for t in stratified(rng, [t for t in clean if t["n"] >= 2], budget[shape])]
    plan += [(t, rng.choice(["chain", "chain", "nested", "mda"]) if t in clean else "chain", True)
             for t in stratified(rng, [t for t in seq_topos if t["n"] <= 3], budget["poly"])]
    # the self-overwriting family: linear members (the composed blocks are exact whatever the point), in a flat
    # chain and in nested chains; polynomial members for the "partials at the point the member has read" clause
    alone = [t for t in self_topos if t["n"] == 1]
    plan += [(t, "chain", False) for t in rng.sample(alone, min(len(alone), 12 if th else 5))]
    plan += [(t, "chain", False) for t in stratified(rng, self_topos, budget["self_chain"], must=SELF_MUST)]
    plan += [(t, "nested", False) for t in stratified(rng, [t for t in self_topos if t["n"] >= 2], budget["self_nested"], must=SELF_MUST)]
    plan += [(t, rng.choice(["chain", "chain", "nested"]), True)
             for t in stratified(rng, self_topos, budget["self_poly"], must=SELF_MUST)]
    # ... and as members of a parallel / additive chain (every member reads the data at the entry of the chain)
    plan += [(t, rng.choice(["parallel", "parallel", "additive"]), rng.random() < 0.35)
             for t in rng.sample(ind_self, min(len(ind_self), budget["self_parallel"]))]
    insts, metas = [], {}
    for k, (t, shape, poly) in enumerate(plan):
        inst, meta = draw_instance(rng, k + 1, t, shape, poly=poly)
        insts.append(inst)
        metas[inst["id"]] = meta
    # the grammars of the composite come from the specification: a first TLC pass prints them, the request
    # histories are then drawn inside them and checked (ReqOK) by the second pass
    _, il0, _ = tlc_instances(ck, insts, "grammars", max_hist=0)
    for inst in insts:
        g = il0[inst["id"]]
        inst["hist"] = draw_history(rng, g["in"], g["out"], metas[inst["id"]]["hist_len"])
    lap("grammars")
    # the same state space twice, side by side: one worker prints the expected blocks of every instance and request
    # (PrintT needs a single worker), three workers check the invariants of the specification on every state
    (r, il, rl), _ = together(
        lambda: tlc_instances(ck, insts, "main", max_hist=3, invs=["WellFormed"], count=False),
        lambda: tlc_instances(ck, insts, "main-inv", max_hist=3, emit=False, workers=8 if th else 3))
    lap("tlc_main")
    # the repaired assembly rules (fixes/C09-*.patch) satisfy AccIsTotal on EVERY class, the defect classes included
    # (with MODEL_REPAIRED the first pass has demanded AccIsTotal with the same rules on every class but the
    # polynomial self-overwriting members: only those are left)
    sub = [i for i in insts if not MODEL_REPAIRED or (not MODEL_REPAIRED_POINT and il[i["id"]]["defect"] == "self_overwriting_nonlinear")]
    if sub:
        r2, _, _ = tlc_instances(ck, sub, "repaired", max_hist=3, repaired=True, repaired_pt=True, check_known=True, emit=False,
                                 workers=2)
        ck.extra["repaired_rules_hold_on_states"] = r2.distinct
    ck.extra["repaired_rules_checked_on_instances"] = len(sub)
    lap("tlc_repaired")
    n_hist = 0
    for inst in insts:
        iid = inst["id"]
        if iid not in il:
            raise MachineryError(f"no INST line for instance {iid}")
        good = replay_history(ck, inst, metas[iid], il[iid], rl.get(iid, {}), inst["hist"], set())
        n_hist += 1
        ck.traces += 1
        if good:
            ck.sample({"shape": metas[iid]["shape"], "n": inst["n"], "ins": inst["ins"], "outs": inst["outs"],
                       "history": inst["hist"], "classes": sorted(il[iid]["classes"])})
    ck.extra["instances_replayed"] = n_hist
    lap("replay")
    # vacuity: every composition kind was exercised, blocks were compared, the model was stepped
    shapes = {m["shape"] for m in metas.values()}
    missing = {"chain", "nested", "parallel", "additive", "parallel_of_chains", "mda", "mda_parallel"} - shapes
    if missing or not ck.extra.get("blocks_compared") or not ck.extra.get("model_steps") \
            or sum(len(v) for v in rl.values()) < len(insts):
        raise MachineryError(f"vacuous run: missing shapes {sorted(missing)}, blocks {ck.extra.get('blocks_compared')}, "
                             f"model steps {ck.extra.get('model_steps')}, REQ lines {sum(len(v) for v in rl.values())}")
    # ... and the self-overwriting family was replayed: linear members, >= 2 names updated at once and read later
    by_class = {}
    for inst in insts:
        if inst["poly"]:
            continue
        for c in il[inst["id"]]["classes"]:
            if c in SELF_CLASSES:
                by_class[c] = by_class.get(c, 0) + 1
    by_class["alone"] = sum(1 for i in insts if i["n"] == 1 and "self_overwriting" in il[i["id"]]["classes"])
    by_class["polynomial"] = sum(1 for i in insts if i["poly"] and "self_overwriting" in il[i["id"]]["classes"])
    ck.extra["self_overwriting_instances_replayed"] = by_class
    need = {"self_overwriting_cross": 12, "self_overwriting_repeated": 8, "self_overwriting_read": 8, "alone": 3, "polynomial": 8}
    if any(by_class.get(c, 0) < k for c, k in need.items()):
        raise MachineryError(f"vacuous run: self-overwriting instances replayed {by_class}, needed {need}")
    exhaustive_histories(ck, rng, seq_topos, ind_topos, self_topos, next_id=len(insts) + 1)
    lap("exhaustive_histories")
    refute_known_classes(ck, rng)
    lap("refute")
    ck.extra["instances_by_shape"] = {s: sum(1 for m in metas.values() if m["shape"] == s) for s in
                                      sorted({m["shape"] for m in metas.values()})}
    ck.exhaustive = False
    ck.assumptions += [
        "exact-arithmetic slice: integer partial Jacobians (entries -2..2, polynomial leaves -1..1), sizes 1..2, <= 4 leaves, one level of nesting",
        "MDAChain is linearized with chain_linearize=True (the chain rule); chain_linearize=False delegates to JacobianAssembly, which is property C07",
        "the leaves' differentiated sets predicted by the implementation-shaped model are compared with the real objects as evidence only (not a clause of the property)",
        "self-overwriting members (a discipline that reads and writes the same names) are enumerated in sequential chains (flat and nested, <= 3 leaves, <= 2 names updated by a member); linear members carry the exactness clause of the accumulation, polynomial members the 'partials at the point the member has read' clause (known finding D18e)",
        "a process discipline with a full cache set at the chain level (MemoryFullCache/HDF5Cache) is a cache-transparency matter (C05), not enumerated here: every process of this check keeps its default cache",
    ]


if __name__ == "__main__":
    main("C09", run)
