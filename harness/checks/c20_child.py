"""C20 - the other side of the spawn-like round trip: a separate interpreter that unpickles the objects the
parent pickled (gemseo imported from the same PYTHONPATH), optionally runs a probe on them, and sends them
back pickled.  Frames: 8-byte little-endian length + pickle of a dict."""
from __future__ import annotations

import logging
import os
import pickle
import struct
import sys
import threading
import time
import warnings


_CATALOGUE = None


def stop_children():
    """Restoring a full cache starts gemseo's multiprocessing manager (a forked server process) here too."""
    import multiprocessing

    for p in multiprocessing.active_children():
        try:
            p.terminate()
        except Exception:  # noqa: BLE001
            pass


def run_probe(obj, probe):
    from harness.checks import c20_catalog as cat
    from harness.checks import c20_replay as rp

    global _CATALOGUE
    if _CATALOGUE is None:
        _CATALOGUE = {e.name: e for e in cat.catalogue()}
    entry = _CATALOGUE[probe["entry"]]
    ad = rp.ADAPTERS[entry.adapter](entry, probe["grammar"], None)
    for k, v in probe["binding"].items():
        setattr(entry, k, v)
    # execute at every requested point <<x, default>>: at least one of them is not in the cache that came along
    out = []
    for x, v in probe["points"]:
        if entry.pname is not None:
            ad.set_default(obj, v)
        out.append(ad.execute(obj, x))
    return out


def main():
    logging.disable(logging.CRITICAL)
    warnings.filterwarnings("ignore")
    # the write end of our stdin may be inherited by other children of the parent (multiprocessing manager):
    # do not rely on EOF alone to notice that the parent is gone
    parent = os.getppid()

    def watch():
        while True:
            time.sleep(2.0)
            if os.getppid() != parent:
                stop_children()
                os._exit(0)

    threading.Thread(target=watch, daemon=True).start()
    inp, out = sys.stdin.buffer, sys.stdout.buffer
    sys.stdout = sys.stderr  # nothing else may write to the frame channel
    while True:
        head = inp.read(8)
        if len(head) < 8:
            break
        (n,) = struct.unpack("<Q", head)
        if n == 0:   # quit frame
            break
        req = pickle.loads(inp.read(n))
        try:
            obj = pickle.loads(req["blob"])
            ans = {"class": type(obj).__name__}
            probe = req.get("probe")
            if probe is not None:
                # run the executions in THIS process on a second restored instance and report what they returned
                ans["probe"] = run_probe(pickle.loads(req["blob"]), probe)
            ans["blob"] = pickle.dumps(obj)
        except BaseException as ex:  # noqa: BLE001
            ans = {"error": str(ex)[:500], "error_type": type(ex).__name__}
        data = pickle.dumps(ans)
        out.write(struct.pack("<Q", len(data)) + data)
        out.flush()
    stop_children()


if __name__ == "__main__":
    main()
