"""C20 - the other interpreter: a separate Python process (gemseo imported from the same PYTHONPATH, its own
string-hash seed) that

* "spawn":   unpickles the objects the parent pickled, optionally runs a probe on them, and sends them back
             pickled (request {"blob", "probe"});
* "session": RESTORES an object from the pickle file another interpreter wrote (gemseo.utils.pickle.from_pickle)
             and KEEPS it: every later action of the behaviour on that world is performed here, through the same
             adapter the parent uses (request {"op": "load" | "call" | "repickle" | "save" | "reset"}), and only
             what the adapter returns (values, projections) travels back.

Frames: 8-byte little-endian length + pickle of a dict."""
from __future__ import annotations

import logging
import os
import pickle
import struct
import sys
import threading
import time
import warnings
from pathlib import Path


_CATALOGUE = None
_OBJECTS = {}     # handle -> (adapter, object)


def stop_children():
    """Restoring a full cache starts gemseo's multiprocessing manager (a forked server process) here too."""
    import multiprocessing

    for p in multiprocessing.active_children():
        try:
            p.terminate()
        except Exception:  # noqa: BLE001
            pass


def adapter_of(spec):
    """The adapter of a catalogue entry, with the binding of the abstract inputs computed by the parent."""
    from harness.checks import c20_catalog as cat
    from harness.checks import c20_replay as rp

    global _CATALOGUE
    if _CATALOGUE is None:
        _CATALOGUE = {e.name: e for e in cat.catalogue()}
    entry = _CATALOGUE[spec["entry"]]
    for k, v in spec["binding"].items():
        setattr(entry, k, v)
    work = spec.get("work")
    return rp.ADAPTERS[entry.adapter](entry, spec["grammar"], None if work is None else Path(work))


def run_probe(obj, probe):
    ad = adapter_of(probe)
    entry = ad.e
    # execute at every requested point <<x, default>>: at least one of them is not in the cache that came along
    out = []
    for x, v in probe["points"]:
        if entry.pname is not None:
            ad.set_default(obj, v)
        out.append(ad.execute(obj, x))
    return out


def serve(req):
    op = req.get("op")
    if op is None:
        obj = pickle.loads(req["blob"])
        ans = {"class": type(obj).__name__}
        probe = req.get("probe")
        if probe is not None:
            # run the executions in THIS process on a second restored instance and report what they returned
            ans["probe"] = run_probe(pickle.loads(req["blob"]), probe)
        ans["blob"] = pickle.dumps(obj)
        return ans
    if op == "load":
        # a fresh session reading the file written by to_pickle
        from gemseo.utils.pickle import from_pickle

        _OBJECTS[req["handle"]] = (adapter_of(req["spec"]), from_pickle(Path(req["path"])))
        return {"class": type(_OBJECTS[req["handle"]][1]).__name__}
    if op == "call":
        ad, obj = _OBJECTS[req["handle"]]
        return {"result": getattr(ad, req["method"])(obj, *req.get("args", ()))}
    if op == "repickle":
        # the object held here is pickled and restored again, in this interpreter
        ad, obj = _OBJECTS[req["src"]]
        if req["how"] == "file":
            from gemseo.utils.pickle import from_pickle, to_pickle

            to_pickle(obj, Path(req["path"]))
            new = from_pickle(Path(req["path"]))
        else:
            new = pickle.loads(pickle.dumps(obj))
        _OBJECTS[req["dst"]] = (ad, new)
        return {"class": type(new).__name__, "same_object": new is obj}
    if op == "save":
        from gemseo.utils.pickle import to_pickle

        ad, obj = _OBJECTS[req["handle"]]
        to_pickle(obj, Path(req["path"]))
        return {}
    if op == "dumps":
        ad, obj = _OBJECTS[req["handle"]]
        return {"blob": pickle.dumps(obj)}
    if op == "reset":
        _OBJECTS.clear()
        return {}
    if op == "hash_probe":
        # evidence that this interpreter does not hash like the parent
        return {"result": [hash("c20"), hash(b"c20"), sys.flags.hash_randomization]}
    raise ValueError(op)


def main():
    logging.disable(logging.CRITICAL)
    warnings.filterwarnings("ignore")
    # the write end of our stdin may be inherited by other children of the parent (multiprocessing manager):
    # do not rely on EOF alone to notice that the parent is gone
    parent = os.getppid()

    def watch():
        while True:
            time.sleep(2.0)
            if os.getppid() != parent:
                stop_children()
                os._exit(0)

    threading.Thread(target=watch, daemon=True).start()
    inp, out = sys.stdin.buffer, sys.stdout.buffer
    sys.stdout = sys.stderr  # nothing else may write to the frame channel
    while True:
        head = inp.read(8)
        if len(head) < 8:
            break
        (n,) = struct.unpack("<Q", head)
        if n == 0:   # quit frame
            break
        req = pickle.loads(inp.read(n))
        try:
            ans = serve(req)
        except BaseException as ex:  # noqa: BLE001
            ans = {"error": str(ex)[:500], "error_type": type(ex).__name__}
        try:
            data = pickle.dumps(ans)
        except BaseException as ex:  # noqa: BLE001
            data = pickle.dumps({"error": f"answer not picklable: {ex}"[:500], "error_type": "HarnessTransport"})
        out.write(struct.pack("<Q", len(data)) + data)
        out.flush()
    stop_children()


if __name__ == "__main__":
    main()
