"""C02 - design space views stay consistent, normalisation is an exact bijection.

Specification: specs/DesignSpace.tla (abstract: ordered variables with per-component dyadic bounds,
optional current value, integer-normalisation switch; every view is an operator) and
specs/DesignSpaceImpl.tla (adds the derived state the code keeps - index map, dimension, normalisation
policy, validity flag and cached arrays, current-value caches - with the repaired invalidation rules and
the coherence invariants).

Binding (spec -> code):
 1. TLC explores DesignSpace.tla exhaustively within the bounds and checks the algebra of the property on
    every state x probe vector (round trip, unit image, gradient scaling, projection/membership, partition).
 2. TLC explores DesignSpaceImpl.tla (coherence invariants; refinement of the abstract next-state
    relation) and dumps the labelled state graph.  For every abstract state of the graph TLC
    (DesignSpaceViews.tla, states passed as JSON) computes the `View` record: the expected result of every
    public accessor as scaled integers (eighths).  A transition tour of the graph is replayed on real
    gemseo DesignSpace objects: after every step the object is projected through PUBLIC accessors (on deep
    copies, so that the cache state of the object under test is driven by the tour only) and compared with
    the View of the target state.
 3. For each of D1, D3, D15, D16 the rule as coded today is switched on in the Impl module and TLC must
    refute the matching coherence invariant (the invariants are not vacuous).
 4. DesignSpaceSim.tla (`tlc -simulate`): longer random behaviours over larger alphabets, replayed the same way.
 5. Representation of gradients/Jacobians: the View has a probe Jacobian (2 x dim, distinct rows, zero entries) and
    its images under normalize_grad / unnormalize_grad, computed once by TLC; the harness presents the matrix in
    every representation of View.greprs (1-D rows, dense 2-D, scipy.sparse CSR / CSC / COO), densifies each result
    and compares it with TLC's value; the argument must be unchanged and not shared with the result.  Done after
    every first-taken transition (on a copy) and by the query kind "grad" on the object under test itself.
Python only transports values (eighths -> floats, building arguments, comparing).
"""
from __future__ import annotations

import collections
import copy
import json
import random
import shutil
import time
import traceback

import numpy as np
import scipy.sparse

from ..core import Check, Graph, MachineryError, main
from ..tlaval import _freeze

INF = 1000000
ABS_INVS = ["TypeOK", "Partition", "Algebra", "JacAlgebra"]
IMPL_INVS = ["TypeOK", "IndexCoherence", "PolicyCoherence", "NormCacheCoherence", "MemberCacheCoherence",
             "CurCacheCoherence", "NormalForm"]
MUTATORS = ("AddVariable", "RemoveVariable", "RenameVariable", "FilterVariables", "FilterDimensions",
            "SetLowerBound", "SetUpperBound", "SetCurrentValue", "SetCurrentVariable", "InitializeMissing",
            "ToggleIntegerNormalization")
QUERIES = ("QNormalize", "QMembership", "QCurrent", "QNormCurrent")
# rules as the code had them (D1..D16, now repaired) and one rule it never had (S1: remove_variable drops the
# current-value caches only when the removed variable had a value), each with the invariant TLC must refute
REFUTE = {"D1": "IndexCoherence", "D3": "MemberCacheCoherence", "D15": "CurCacheCoherence", "D16": "PolicyCoherence",
          "S1": "CurCacheCoherence"}


def tla_set(xs):
    return "{" + ", ".join(str(x) if not isinstance(x, str) else f'"{x}"' for x in xs) + "}"


def constants(c):
    return (f"CONSTANTS NNames = {c['nnames']}\n MaxVars = {c['maxvars']}\n TemplateIds = {tla_set(c['templates'])}\n"
            f" LBVals = {tla_set(c['lbvals'])}\n UBVals = {tla_set(c['ubvals'])}\n"
            f" InfBounds = {'TRUE' if c['infbounds'] else 'FALSE'}\n CurChoices = {tla_set(c['cur'])}\n"
            f" MaxLevel = {c['level']}\n")


def abs_cfg(c):
    s = constants(c) + "SPECIFICATION Spec\nCONSTRAINT Bounded\nCHECK_DEADLOCK FALSE\n"
    for i in ABS_INVS:
        s += f"INVARIANT {i}B\n"
    return s


def impl_cfg(c, as_coded=(), refine=True, bounded=True):
    s = constants(c) + (f" AsCoded = {tla_set(as_coded)}\n Vias = {tla_set(c['vias'])}\n Forms = {tla_set(c['forms'])}\n"
                        f" QKinds = {tla_set(c['qkinds'])}\n FilterModes = {tla_set(c['fmodes'])}\n"
                        f" Enabled = {tla_set(c.get('enabled', MUTATORS + QUERIES))}\n")
    s += "SPECIFICATION ImplSpec\nCONSTRAINT Bounded\nCHECK_DEADLOCK FALSE\n"
    for i in IMPL_INVS:
        s += f"INVARIANT {i}{'' if as_coded or not bounded else 'B'}\n"
    if refine and not as_coded:
        s += "PROPERTY Spec\n"
    return s


# ------------------------------------------------------------------ transport of values

def ph(v):
    return np.inf if v == INF else (-np.inf if v == -INF else v / 8.0)


def vec(t):
    return np.array([ph(v) for v in t], dtype=float)


def same(actual, expected):
    """Exact comparison of an array returned by gemseo with a vector of eighths computed by TLC."""
    a = np.asarray(actual)
    e = vec(expected)
    if a.dtype.kind == "c":
        if np.any(a.imag != 0):
            return False
        a = a.real
    return a.shape == e.shape and bool(np.array_equal(a.astype(float), e))


def between(actual, lo, hi):
    """actual equals lo or hi component-wise (rounding ties may go either way)."""
    a = np.asarray(actual, dtype=float)
    lo, hi = vec(lo), vec(hi)
    return a.shape == lo.shape and bool(np.all((a == lo) | (a == hi)))


def same_where(actual, expected, mask):
    a = np.asarray(actual, dtype=float)
    e = vec(expected)
    m = np.array(mask, dtype=bool)
    return a.shape == e.shape and bool(np.array_equal(a[m], e[m]))


def value_of(var):
    """The current value of a variable of the abstract state as the array a user would pass."""
    if not var["hasv"]:
        return None
    return np.array([ph(v) for v in var["val"]], dtype=np.int64 if var["type"] == "integer" else float)


def absstate(state):
    return _freeze((state["vars"], state["intNorm"]))


def build(DesignSpace, state):
    """A fresh design space showing the abstract state (used for twins and for resynchronisation)."""
    ds = DesignSpace()
    for v in state["vars"]:
        ds.add_variable(v["name"], v["size"], v["type"], vec(v["lb"]), vec(v["ub"]))
    for v in state["vars"]:
        if v["hasv"]:  # (set_current_variable: the value may be outside bounds that were changed later)
            ds.set_current_variable(v["name"], value_of(v))
    if state["intNorm"]:
        ds.enable_integer_variables_normalization = True
    return ds


def fill_caches(ds, state, view):
    """Bring the caches of a rebuilt object to the cache state of the Impl state."""
    if not state["vars"]:
        return
    if state["normValid"]:
        ds.normalize_vect(vec(view["xs"][0]))
    if not view["hascur"]:
        return  # (hidden caches - kept while a value is missing - cannot be rebuilt without the history)
    if len(state["curArrC"]):
        ds.get_current_value()
    if len(state["normCurC"]):
        ds.get_current_value(normalize=True)


# ------------------------------------------------------------------ representations of a gradient / Jacobian

REPR_CALLS = collections.Counter()   # vacuity evidence: calls of normalize_grad/unnormalize_grad per representation


def present(jac, rep):
    """The arguments (one per call) that hand the matrix `jac` to gemseo in the representation `rep`."""
    if rep == "dense1d":
        return [jac[r].copy() for r in range(jac.shape[0])]
    if rep == "dense2d":
        return [jac.copy()]
    if rep in ("csr", "csc", "coo"):
        return [getattr(scipy.sparse, rep + "_array")(jac)]
    raise MachineryError(f"unknown representation {rep}")


def parts(a):
    """The arrays that hold the content of an argument (to see that a call left it unchanged / did not alias it)."""
    if scipy.sparse.issparse(a):
        if a.format in ("csr", "csc"):
            return [a.data, a.indices, a.indptr]
        return [a.data, *a.coords]
    return [a]


def frozen(a):
    return (getattr(a, "format", "dense"), tuple(a.shape), [np.array(x, copy=True) for x in parts(a)])


def densify(results):
    out = []
    for r in results:
        r = r.toarray() if scipy.sparse.issparse(r) else np.asarray(r)
        if r.dtype.kind == "c":
            if np.any(r.imag != 0):
                return None
            r = r.real
        out.append(r.astype(float))
    return out[0] if len(out) == 1 and out[0].ndim == 2 else (np.vstack(out) if all(r.ndim == 1 for r in out) else None)


def grad_representations(ds, view, report):
    """normalize_grad / unnormalize_grad of the probe Jacobian of the View, presented in every representation TLC
    lists (View.greprs); the densified results must be the images TLC computed (View.ngj, View.ugj; unnormalize_grad
    only on the columns where it is defined), the argument must be unchanged and not shared with the result."""
    jac = np.vstack([vec(r) for r in view["jac"]])
    exp_n = np.vstack([vec(r) for r in view["ngj"]])
    exp_u = np.vstack([vec(r) for r in view["ugj"]])
    cols = np.array(view["ugdef"], dtype=bool)
    for rep in view["greprs"]:
        for fname, exp, mask in (("normalize_grad", exp_n, slice(None)), ("unnormalize_grad", exp_u, cols)):
            args = present(jac, rep)
            before = [frozen(a) for a in args]
            REPR_CALLS[rep] += len(args)
            try:
                res = [getattr(ds, fname)(a) for a in args]
            except Exception as ex:  # noqa: BLE001
                if not raised_by_gemseo(ex):
                    raise
                report(fname + "_repr", {"exception": type(ex).__name__, "message": str(ex)[:300], "sig": {"repr": rep}})
                continue
            got = densify(res)
            if got is None or got.shape != exp.shape or not np.array_equal(got[:, mask], exp[:, mask]):
                report(fname + "_repr", {"got": repr(None if got is None else got.tolist())[:400],
                                         "expected": repr(exp.tolist())[:400], "sig": {"repr": rep}})
            if rep == "dense1d" and any(np.ndim(r) != 1 for r in res):
                report(fname + "_repr", {"got": "a 1-D gradient did not come back 1-D", "sig": {"repr": rep}})
            for a, b, r in zip(args, before, res):
                now = frozen(a)
                if now[:2] != b[:2] or len(now[2]) != len(b[2]) or any(
                        x.shape != y.shape or not np.array_equal(x, y) for x, y in zip(now[2], b[2])):
                    report(fname + "_argument_changed", {"got": "the argument was modified by the call", "sig": {"repr": rep}})
                elif r is a or any(np.shares_memory(x, y) for x in parts(a) for y in parts(r)
                                   if isinstance(x, np.ndarray) and isinstance(y, np.ndarray)):
                    report(fname + "_argument_aliased", {"got": "the result shares memory with the argument", "sig": {"repr": rep}})


# ------------------------------------------------------------------ one step on the real object

def apply_action(ds, DesignSpace, act, args, src, dst, view, fails):
    """Perform the public call that the action stands for.  Query results are compared with the view."""
    dvars = dst["vars"]
    if act == "AddVariable":
        v = dvars[-1]
        a = (v["name"], v["size"], v["type"], vec(v["lb"]), vec(v["ub"]), value_of(v))
        via = args[2]
        if via == "add":
            ds.add_variable(*a)
        else:
            other = DesignSpace()
            other.add_variable(*a)
            if via == "extend":
                ds.extend(other)
            else:
                ds.add_variables_from(other, v["name"])
    elif act == "RemoveVariable":
        ds.remove_variable(args[0])
    elif act == "RenameVariable":
        k = [v["name"] for v in src["vars"]].index(args[0])
        ds.rename_variable(args[0], dvars[k]["name"])
    elif act == "FilterVariables":
        if args[1] == "copy":
            before = list(ds.variable_names)
            new = ds.filter(sorted(args[0]), copy=True)
            if list(ds.variable_names) != before or new is ds:
                fails.append(("filter_copy_original", {}))
            return new
        ds.filter(sorted(args[0]))
    elif act == "FilterDimensions":
        ds.filter_dimensions(args[0], [i - 1 for i in sorted(args[1])])
    elif act == "SetLowerBound":
        ds.set_lower_bound(args[0], ph(args[1]))
    elif act == "SetUpperBound":
        ds.set_upper_bound(args[0], ph(args[1]))
    elif act == "SetCurrentValue":
        if args[1] == "array":
            ds.set_current_value(np.concatenate([vec(v["val"]) for v in dvars]))
        else:
            ds.set_current_value({v["name"]: vec(v["val"]) for v in dvars})
    elif act == "SetCurrentVariable":
        v = next(v for v in dvars if v["name"] == args[0])
        ds.set_current_variable(args[0], value_of(v))
    elif act == "InitializeMissing":
        ds.initialize_missing_current_values()
    elif act == "ToggleIntegerNormalization":
        ds.enable_integer_variables_normalization = dst["intNorm"]
    elif act == "QNormalize":
        kind = args[0]
        if kind == "normalize":
            if not same(ds.normalize_vect(vec(view["xs"][0])), view["nxs"][0]):
                fails.append(("normalize_vect", {}))
        elif kind == "unnormalize":
            if not between(ds.unnormalize_vect(vec(view["ys"][0]), no_check=True), view["ulo"][0], view["uhi"][0]):
                fails.append(("unnormalize_vect", {}))
        elif kind == "round":
            if not between(ds.round_vect(vec(view["rs"][0])), view["rlo"][0], view["rhi"][0]):
                fails.append(("round_vect", {}))
        elif kind == "grad":
            grad_representations(ds, view, lambda cl, det: fails.append((cl, det)))
        else:
            if not same(ds.project_into_bounds(vec(view["xs"][2])), view["proj"][2]):
                fails.append(("project", {}))
    elif act == "QMembership":
        if member(ds, vec(view["xs"][0])) != view["mem"][0]:
            fails.append(("member_array", {}))
    elif act == "QCurrent":
        if not same(ds.get_current_value(), view["cur"]):
            fails.append(("cur_array", {}))
    elif act == "QNormCurrent":
        if not same(ds.get_current_value(normalize=True), view["curn"]):
            fails.append(("cur_norm", {}))
    else:
        raise MachineryError(f"unknown action {act}")
    return ds


def raised_by_gemseo(ex):
    """An exception counts against gemseo only if it passed through gemseo code (otherwise the harness is wrong)."""
    return any("/gemseo/" in fr.filename.replace("\\", "/") for fr in traceback.extract_tb(ex.__traceback__))


def member(ds, x):
    try:
        ds.check_membership(x)
        return True
    except ValueError:
        return False


# ------------------------------------------------------------------ projection through public accessors

def project(ds0, DesignSpace, state, view):
    """Compare every public view of the object with the View TLC computed.  Returns [(clause, detail)].
    Each group of accessors works on its own deep copy: the caches of the object under test are
    filled by the actions of the tour only, and a cache filled by one group cannot hide a stale one
    from another group."""
    fails = []
    names = list(view["names"])
    n = len(names)
    dim = view["dim"]
    vars_ = state["vars"]

    def clause(name, fn):
        try:
            r = fn()
        except Exception as ex:  # noqa: BLE001  (an exception on a query the specification allows)
            if not raised_by_gemseo(ex):
                raise
            fails.append((name, {"exception": type(ex).__name__, "message": str(ex)[:300]}))
            return
        if isinstance(r, dict):
            fails.append((name, r))
        elif r is not True:
            fails.append((name, {"got": r}))

    def eq(actual, expected):
        return True if actual == expected else repr(actual)[:400]

    def arr(actual, expected):
        return True if same(actual, expected) else repr(np.asarray(actual).tolist())[:400]

    def arr2(actual, lo, hi):
        return True if between(actual, lo, hi) else repr(np.asarray(actual).tolist())[:400]

    # ---- group 1: structure, bounds, membership, current value
    ds = copy.deepcopy(ds0)
    clause("names", lambda: eq(list(ds.variable_names), names))
    clause("dimension", lambda: eq(int(ds.dimension), dim))
    clause("sizes", lambda: eq({k: int(s) for k, s in ds.variable_sizes.items()}, dict(zip(names, view["sizes"]))))
    clause("types", lambda: eq({k: str(t) for k, t in ds.variable_types.items()}, dict(zip(names, view["types"]))))
    clause("ranges", lambda: eq({k: (r.start, r.stop) for k, r in ds.names_to_indices.items()},
                                dict(zip(names, (tuple(r) for r in view["ranges"])))))
    clause("policy", lambda: eq({k: [bool(b) for b in p] for k, p in ds.normalize.items()},
                                dict(zip(names, (list(p) for p in view["policy"])))))
    if n:
        clause("lb_array", lambda: arr(ds.get_lower_bounds(), view["lb"]))
        clause("ub_array", lambda: arr(ds.get_upper_bounds(), view["ub"]))
        lbd = {v["name"]: v["lb"] for v in vars_}
        ubd = {v["name"]: v["ub"] for v in vars_}

        def dict_bounds(getter, one, exp):
            d = getter(as_dict=True)
            if set(d) != set(exp):
                return repr(sorted(d))
            for k in exp:
                if not same(d[k], exp[k]) or not same(one(k), exp[k]):
                    return repr({k: np.asarray(d[k]).tolist()})
            return True

        clause("lb_dict", lambda: dict_bounds(ds.get_lower_bounds, ds.get_lower_bound, lbd))
        clause("ub_dict", lambda: dict_bounds(ds.get_upper_bounds, ds.get_upper_bound, ubd))
        rev = names[::-1]
        idxrev = list(view["idxrev"])
        clause("lb_subset", lambda: arr(ds.get_lower_bounds(rev), [view["lb"][i] for i in idxrev]))
        clause("ub_subset", lambda: arr(ds.get_upper_bounds(rev), [view["ub"][i] for i in idxrev]))
        clause("indexes", lambda: eq((list(map(int, ds.get_variables_indexes(rev, False))),
                                      list(map(int, ds.get_variables_indexes(rev, True)))),
                                     (idxrev, list(view["idxall"]))))
        # membership: array form first (it is the reader of the cached bounds that ignores the flag)
        for p in range(3):
            clause("member_array", lambda p=p: eq(member(ds, vec(view["xs"][p])), view["mem"][p]))
        for p in range(3):
            clause("member_dict", lambda p=p: eq(
                member(ds, {nm: vec(s) for nm, s in zip(names, split_by(view, view["xs"][p]))}), view["mem"][p]))
    clause("has_current_value", lambda: eq(bool(ds.has_current_value), view["hascur"]))
    valued = [v for v in vars_ if v["hasv"]]

    def cur_dict(normalize):
        d = ds.get_current_value(as_dict=True, normalize=normalize)
        exp = {v["name"]: v["val"] for v in valued} if not normalize else \
            dict(zip(names, split_by(view, view["curn"])))
        if set(d) != set(exp):
            return "keys " + repr(sorted(d))
        for k in exp:
            if not same(d[k], exp[k]):
                return repr({k: np.asarray(d[k]).tolist()})
        return True

    clause("cur_dict", lambda: cur_dict(False))
    for v in valued:
        clause("cur_subset", lambda v=v: arr(ds.get_current_value([v["name"]]), v["val"]))
    if view["hascur"]:
        clause("cur_array", lambda: arr(ds.get_current_value(), view["cur"]))
        clause("cur_norm", lambda: arr(ds.get_current_value(normalize=True), view["curn"]))
        clause("cur_norm_dict", lambda: cur_dict(True))
        if n > 1:
            rev = names[::-1]
            clause("cur_subset", lambda: arr(ds.get_current_value(rev), [view["cur"][i] for i in view["idxrev"]]))
            clause("cur_norm_subset", lambda: arr(ds.get_current_value(rev, normalize=True),
                                                  [view["curn"][i] for i in view["idxrev"]]))
    if not n:
        return fails

    # ---- group 2: normalisation family (vectors, batches, gradients)
    ds = copy.deepcopy(ds0)
    xs = [vec(x) for x in view["xs"]]
    for p, x in enumerate(xs):
        clause("normalize_vect", lambda p=p, x=x: arr(ds.normalize_vect(x), view["nxs"][p]))
    clause("normalize_vect_2d", lambda: True if np.array_equal(
        ds.normalize_vect(np.vstack(xs)), np.vstack([vec(t) for t in view["nxs"]])) else "batch differs")
    clause("transform_vect", lambda: arr(ds.transform_vect(xs[0]), view["nxs"][0]))

    def with_out():
        out = np.zeros(dim)
        ds.normalize_vect(xs[3], out=out)
        return arr(out, view["nxs"][3])

    clause("normalize_vect_out", with_out)
    ys = [vec(y) for y in view["ys"]]
    for p, y in enumerate(ys):
        clause("unnormalize_vect", lambda p=p, y=y: arr2(ds.unnormalize_vect(y, no_check=True),
                                                         view["ulo"][p], view["uhi"][p]))
    clause("untransform_vect", lambda: arr2(ds.untransform_vect(ys[0]), view["ulo"][0], view["uhi"][0]))

    def unnorm_2d():
        r = np.asarray(ds.unnormalize_vect(np.vstack(ys), no_check=True), dtype=float)
        return True if r.shape == (len(ys), dim) and all(
            between(r[p], view["ulo"][p], view["uhi"][p]) for p in range(len(ys))) else "batch differs"

    clause("unnormalize_vect_2d", unnorm_2d)
    gs = [vec(g) for g in view["gs"]]
    ugdef = list(view["ugdef"])
    clause("normalize_grad", lambda: arr(ds.normalize_grad(gs[0]), view["ng"][0]))
    clause("normalize_grad_2d", lambda: True if np.array_equal(  # a Jacobian: one gradient per row
        np.asarray(ds.normalize_grad(np.vstack([gs[0], gs[0]])), dtype=float),
        np.vstack([vec(view["ng"][0])] * 2)) else "Jacobian differs")
    clause("unnormalize_grad_2d", lambda: True if same_where(
        np.asarray(ds.unnormalize_grad(np.vstack([gs[0], gs[0]])), dtype=float)[1], view["ug"][0], ugdef)
           else "Jacobian differs")

    def grad_frac():
        got = np.asarray(ds.normalize_grad(gs[1]), dtype=float)
        if same(got, view["ng"][1]):
            return True
        # diagnostic for the signature: the only difference is that integer components were rounded
        exp = vec(view["ng"][1])
        only_rounded = got.shape == exp.shape and all(
            a == e or (i and a == np.round(e)) for a, e, i in zip(got, exp, view["isint"]))
        return {"got": repr(got.tolist()), "sig": {"only_integer_components_rounded": bool(only_rounded)}}

    clause("normalize_grad_frac", grad_frac)
    for p, g in enumerate(gs):
        clause("unnormalize_grad", lambda p=p, g=g: True if same_where(ds.unnormalize_grad(g), view["ug"][p], ugdef)
               else repr(np.asarray(ds.unnormalize_grad(g)).tolist()))
    # the two maps are mutually inverse on real vectors (float components with ub > lb)
    clause("round_trip", lambda: True if same_where(
        ds.unnormalize_vect(ds.normalize_vect(xs[3]), no_check=True), view["xs"][3],
        [(not i) and u for i, u in zip(view["isint"], ugdef)]) else "unnormalize(normalize(x)) != x")

    # gradients / Jacobians in every representation (on a copy of its own: a sparse argument takes another branch)
    ds = copy.deepcopy(ds0)
    grad_representations(ds, view, lambda cl, det: fails.append((cl, det)))

    # ---- group 3: rounding and projection
    ds = copy.deepcopy(ds0)
    for p, r in enumerate(view["rs"]):
        clause("round_vect", lambda p=p, r=r: arr2(ds.round_vect(vec(r)), view["rlo"][p], view["rhi"][p]))
    ds = copy.deepcopy(ds0)
    for p, x in enumerate(xs):
        clause("project", lambda p=p, x=x: arr(ds.project_into_bounds(x), view["proj"][p]))
    normed = list(view["norm"])
    for p, y in enumerate(ys):
        clause("project_norm", lambda p=p, y=y: True if same_where(
            ds.project_into_bounds(y, normalized=True), view["p01"][p], normed) else "differs")

    # all components: the normalised ones are clipped into [0,1], the others - still in the units of the variable -
    # into the bounds of the variable (View.pnb)
    def project_norm_bounds(p, y):
        got = np.asarray(ds.project_into_bounds(y, normalized=True), dtype=float)
        if same(got, view["pnb"][p]):
            return True
        # diagnostic for the signature: every component, normalised or not, was clipped into [0,1]
        return {"got": repr(got.tolist()), "expected": repr(vec(view["pnb"][p]).tolist()), "probe": repr(y.tolist()),
                "sig": {"every_component_clipped_to_unit_interval": bool(
                    got.shape == y.shape and np.array_equal(got, np.clip(y, 0.0, 1.0)))}}

    for p, y in enumerate(ys):
        clause("project_norm_bounds", lambda p=p, y=y: project_norm_bounds(p, y))

    def projected_is_member():
        return eq(member(ds, ds.project_into_bounds(xs[2])), True)

    clause("project_member", projected_is_member)

    # ---- group 4: conversions and equality with a freshly built twin
    ds = copy.deepcopy(ds0)

    def conv():
        d = ds.convert_array_to_dict(xs[0])
        exp = dict(zip(names, view["split"]))
        if set(d) != set(exp) or any(not same(d[k], exp[k]) for k in exp):
            return repr({k: np.asarray(v).tolist() for k, v in d.items()})
        return arr(ds.convert_dict_to_array(d), view["xs"][0])

    clause("conversions", conv)

    def twin():
        t = build(DesignSpace, state)
        return True if (ds == t and t == ds) else "not equal to a design space built from the abstract state"

    clause("eq_twin", twin)
    snames = list(view["snames"])
    clause("indexed_names", lambda: eq(list(ds.get_indexed_variable_names()), snames))
    if view["curin"]:  # (to_scalar_variables re-adds the values with add_variable, which rejects values outside the bounds)

        def scalar():
            sc = ds.to_scalar_variables()
            if list(sc.variable_names) != snames:
                return repr(sc.variable_names)
            if any(int(sc.get_size(k)) != 1 for k in snames):
                return "sizes"
            if [str(sc.get_type(k)) for k in snames] != ["integer" if i else "float" for i in view["isint"]]:
                return "types"
            if not same(sc.get_lower_bounds(), view["lb"]) or not same(sc.get_upper_bounds(), view["ub"]):
                return "bounds"
            cur = sc.get_current_value(as_dict=True)
            for k, nm in enumerate(snames):
                has = cur.get(nm) is not None
                if has != view["shasv"][k] or (has and not same(cur[nm], [view["cvals"][k]])):
                    return "current value of " + nm
            return True

        clause("to_scalar_variables", scalar)
    return fails


def split_by(view, x):
    return [x[a:b] for a, b in view["ranges"]]


# ------------------------------------------------------------------ graph helpers

def canonical(g: Graph):
    """Make the graph independent of TLC's worker scheduling: order edges by (source, label, target) text."""
    key = {sid: repr(sorted(st.items(), key=lambda kv: kv[0])) for sid, st in g.states.items()}
    g.edges.sort(key=lambda e: (key[e[0]], e[2], repr(e[3]), key[e[1]]))
    g.out = {}
    for k, e in enumerate(g.edges):
        g.out.setdefault(e[0], []).append(k)
    g.init.sort(key=lambda s: key[s])


def label(e):
    return e[2] + ("(" + ", ".join(fmt_arg(a) for a in e[3]) + ")" if e[3] else "")


def fmt_arg(a):
    if isinstance(a, frozenset):
        return "{" + ",".join(str(x) for x in sorted(a)) + "}"
    return str(a)


def step_facts(act, args, src):
    """Small facts about the step that make signatures precise (taken from the abstract step, not from the failure)."""
    f = {}
    if act in ("FilterDimensions", "RenameVariable"):
        names = [v["name"] for v in src["vars"]]
        v = src["vars"][names.index(args[0])]
        if act == "FilterDimensions":
            f["multichar_name"] = len(args[0]) > 1
            f["has_value"] = bool(v["hasv"])
        else:
            f["renamed_is_last"] = names[-1] == args[0]
    return f


# ------------------------------------------------------------------ the check

QUICK = dict(nnames=3, maxvars=2, templates=[1, 2], lbvals=[16], ubvals=[16], infbounds=True,
             cur=["hi"], level=4, vias=["add", "extend"], forms=["array", "dict"],
             qkinds=["normalize", "project", "grad"], fmodes=["inplace", "copy"])
THOROUGH = dict(nnames=4, maxvars=3, templates=[1, 2, 3, 5], lbvals=[16], ubvals=[16], infbounds=True,
                cur=["lo", "hi"], level=5, vias=["add", "extend", "from"], forms=["array", "dict"],
                qkinds=["normalize", "unnormalize", "round", "project", "grad"], fmodes=["inplace", "copy"])


# the life cycle of the current value: which edits happen while a value is missing, and how it becomes complete again
FOCUS_ACTS = ["AddVariable", "RemoveVariable", "FilterVariables", "FilterDimensions", "SetCurrentVariable",
              "SetCurrentValue", "InitializeMissing", "RenameVariable", "QCurrent", "QNormCurrent"]
FOCUS_Q = dict(QUICK, templates=[1], cur=["hi"], level=6, vias=["add"], forms=["array"], fmodes=["inplace"],
               enabled=FOCUS_ACTS)
FOCUS_T = dict(QUICK, templates=[1, 2], cur=["lo", "hi"], level=7, vias=["add", "extend"], forms=["array", "dict"],
               fmodes=["inplace", "copy"], enabled=FOCUS_ACTS)


def tier_constants(ck: Check):
    return dict(THOROUGH if ck.thorough else QUICK)


def views_for(ck: Check, c, states, tag):
    """Expected views, computed by TLC (DesignSpaceViews), for a list of abstract states (vars, intNorm)."""
    f = ck.work / f"states-{tag}.json"
    f.write_text(json.dumps([{"vars": st[0], "intNorm": st[1]} for st in states]))
    cfg = constants(c) + "INIT VInit\nNEXT VNext\nCHECK_DEADLOCK FALSE\n"
    for i in ABS_INVS + ["EmitIdx"]:
        cfg += f"INVARIANT {i}\n"
    r = ck.tlc("DesignSpaceViews", cfg, workers=1, timeout=1500, coverage=False, count=False,
               env={"STATES_FILE": str(f)})
    out = {}
    for v in r.printed():
        if isinstance(v, tuple) and len(v) == 3 and v[0] == "VIEW":
            out[_freeze(states[v[1] - 1])] = v[2]
    if len(out) != len(states):
        raise MachineryError(f"{len(out)} views for {len(states)} abstract states ({tag})")
    return out


# clauses whose failure says nothing about the state of the object (pure functions of their argument on a copy):
# the behaviour continues with the same object
STATELESS = {"normalize_grad_frac", "project_norm_bounds"}


class Replayer:
    """Steps real design spaces through behaviours of DesignSpaceImpl and compares after every step."""

    def __init__(self, ck, DesignSpace, views):
        self.ck, self.DS, self.views = ck, DesignSpace, views
        self.checked = set()
        self.bad = set()
        self.n_proj = self.n_resync = self.n_steps = 0

    def resync(self, dst, view):
        ds = build(self.DS, dst)
        fill_caches(ds, dst, view)
        self.n_resync += 1
        return ds

    def run(self, steps, source):
        """steps: list of (key, act, args, src_state, dst_state); key identifies a transition of the graph
        (projected the first time it is taken) or is None (always projected)."""
        ck = self.ck
        ds = self.DS()
        hist = []
        for key, act, args, src, dst in steps:
            view = self.views[absstate(dst)]
            lab = act + ("(" + ", ".join(fmt_arg(a) for a in args) + ")" if args else "")
            hist.append(lab)
            self.n_steps += 1
            if key is not None and key in self.bad:
                # this transition is already reported: continue from a rebuilt object in the target state
                ds = self.resync(dst, view)
                continue
            fails = []
            sig = dict({"op": act}, **step_facts(act, args, src))
            try:
                ds = apply_action(ds, self.DS, act, args, src, dst, view, fails)
            except Exception as ex:  # noqa: BLE001  gemseo raised on an operation the specification allows
                if not raised_by_gemseo(ex):
                    raise
                fails = [("raises", {"exception": type(ex).__name__, "message": str(ex)[:300],
                                     "traceback": traceback.format_exc(limit=5)})]
            else:
                if key is None or key not in self.checked:
                    fails += project(ds, self.DS, dst, view)
                    self.n_proj += 1
            if key is not None:
                self.checked.add(key)
            stateful = any(cl not in STATELESS for cl, _ in fails)
            if fails:
                if key is not None and stateful:
                    self.bad.add(key)
                for cl, det in fails:
                    s = dict(sig, clause=cl)
                    if "exception" in det:
                        s["exception"] = det["exception"]
                    s.update(det.pop("sig", {}))
                    ck.violation(cl, s, {"source": source, "history": list(hist), "step": lab,
                                         "expected_state": {"vars": dst["vars"], "intNorm": dst["intNorm"]},
                                         "cache_state_before": {kk: src[kk] for kk in ("normValid", "curArrC", "normCurC")},
                                         **det})
                if stateful:
                    ds = self.resync(dst, view)
        ck.traces += 1
        return hist


EMPTY = {"vars": (), "intNorm": False, "normValid": False, "curArrC": (), "normCurC": ()}


def tour_graph(ck, DesignSpace, c, tag, views, timing, rng, required, refine_on=None, refine=True):
    """TLC: coherence invariants (+ refinement) on the bounded graph of DesignSpaceImpl, dump of the labelled
    graph (one worker: with several, the BFS level of a state - hence the depth-bounded graph - depends on
    scheduling), views of its abstract states, replay of a transition tour on real design spaces."""
    t0 = time.time()
    # refinement of the abstract next-state relation (PROPERTY Spec) is costly - the abstract Next is evaluated on
    # every transition - and is checked on `refine_on` (smaller constants) when given
    ck.tlc("DesignSpaceImpl", impl_cfg(c, refine=refine and refine_on is None), workers=8, timeout=1500, count=False)
    if refine_on is not None:
        ck.tlc("DesignSpaceImpl", impl_cfg(refine_on), workers=8, timeout=1500, count=False)
    timing[tag + "_tlc_verify_s"] = round(time.time() - t0, 1)
    t0 = time.time()
    r = ck.tlc("DesignSpaceImpl", impl_cfg(c, refine=False), workers=1, timeout=1500, dump=True, coverage=False)
    timing[tag + "_tlc_graph_s"] = round(time.time() - t0, 1)
    t0 = time.time()
    g = Graph(ck.work / "DesignSpaceImpl.dot")
    canonical(g)
    if len(g.states) != r.distinct:
        raise MachineryError(f"graph has {len(g.states)} states, TLC found {r.distinct}")
    # vacuity: every enabled action of the module labels at least one transition of the graph
    # (TLC's per-action count of NEW states is 0 for actions whose targets are always found first by another one)
    present = {e[2] for e in g.edges}
    for a in required:
        if a not in present:
            raise MachineryError(f"vacuity: action {a} of DesignSpaceImpl labels no transition ({tag})")
    hidden = sum(1 for st in g.states.values() if not st["hasCur"] and len(st["curArrC"]))
    tour = g.tour()
    info = {"states": len(g.states), "edges": len(g.edges), "tour_paths": len(tour),
            "tour_steps": sum(len(p) for p in tour), "states_with_hidden_current_value_cache": hidden}
    # expected views of the abstract states of the graph, computed by TLC
    abs_states = {}
    for st in g.states.values():
        k = absstate(st)
        if k not in views:
            abs_states.setdefault(k, (st["vars"], st["intNorm"]))
    if abs_states:
        views.update(views_for(ck, c, list(abs_states.values()), tag))
    info["abstract_states"] = len({absstate(st) for st in g.states.values()})
    timing[tag + "_views_s"] = round(time.time() - t0, 1)
    # replay the transition tour on real design spaces
    t0 = time.time()
    rp = Replayer(ck, DesignSpace, views)
    for path in tour:
        steps = [(k, g.edges[k][2], g.edges[k][3], g.states[g.edges[k][0]], g.states[g.edges[k][1]]) for k in path]
        hist = rp.run(steps, tag)
        if rng.random() < 0.01 or len(ck.samples) < 3:
            ck.sample({"tour_path": hist[:12]})
    if len(rp.checked) != len(g.edges):
        raise MachineryError(f"tour covered {len(rp.checked)} of {len(g.edges)} transitions ({tag})")
    timing[tag + "_replay_s"] = round(time.time() - t0, 1)
    info["replay"] = {"steps": rp.n_steps, "projections": rp.n_proj, "resynchronisations": rp.n_resync,
                      "transitions_with_disagreement": len(rp.bad)}
    ck.extra[tag] = info


def run(ck: Check):
    try:
        _run(ck)
    except BaseException:
        shutil.rmtree(ck.work, ignore_errors=True)
        raise


def _run(ck: Check):
    from gemseo.algos.design_space import DesignSpace

    rng = random.Random(ck.seed)
    c = tier_constants(ck)
    timing = {}

    # ---- 1. abstract module: the algebra of the property on every state x probe within the bounds
    t0 = time.time()
    # (8 workers: the BFS level of a state near the depth bound depends on scheduling, so the number of states of
    #  this run may vary by a few; it is reported apart and the deterministic graph run below is what is counted)
    r = ck.tlc("DesignSpace", abs_cfg(c), workers=8, timeout=1500, count=False,
               require_actions=("Add", "SetLB", "SetUB", "FilterDims", "SetCurVar", "ToggleIntNorm"))
    ck.extra["abstract_run"] = {"distinct": r.distinct, "generated": r.generated}
    timing["abstract_tlc_s"] = round(time.time() - t0, 1)

    # ---- 2. the invariants are not vacuous: the rules as coded are refuted at specification level
    t0 = time.time()
    small = dict(c, nnames=3, maxvars=2, level=6, templates=[1, 2], cur=["hi"], vias=["add"], forms=["array"],
                 qkinds=["normalize"], fmodes=["inplace"])
    refuted = {}
    for d, inv in REFUTE.items():
        rr = ck.tlc("DesignSpaceImpl", impl_cfg(small, as_coded=[d]), workers=4, timeout=600, expect_ok=False,
                    count=False, coverage=False)
        if rr.violated != inv:
            raise MachineryError(f"rule as coded ({d}) should refute {inv}; TLC says {rr.violated}")
        refuted[d] = [a for a, _ in rr.counterexample()][1:]
    ck.extra["as_coded_rules_refuted"] = {d: {"invariant": REFUTE[d], "history": h} for d, h in refuted.items()}
    timing["refutations_s"] = round(time.time() - t0, 1)

    # ---- 3.-5. implementation-shaped module: coherence + refinement, labelled state graph, views, tour replay
    views = {}
    tour_graph(ck, DesignSpace, c, "impl_graph", views, timing, rng, required=MUTATORS + QUERIES,
               refine_on=None if not ck.thorough else dict(c, **QUICK))
    # a second, deeper graph restricted to the life cycle of the current value and of its caches: the vector is
    # cached, a value goes missing (add without value), values are edited behind the hidden caches, the value
    # becomes complete again (remove/filter/initialize/set), the vector is read again
    fc = dict(FOCUS_T if ck.thorough else FOCUS_Q)
    tour_graph(ck, DesignSpace, fc, "current_value_graph", views, timing, rng, required=tuple(fc["enabled"]),
               refine=False)  # (same actions as above: the refinement is already checked there)
    ck.exhaustive = True

    # ---- 6. longer random behaviours over larger alphabets (tlc -simulate), replayed the same way
    t0 = time.time()
    sc = sim_constants(ck)
    cfg = impl_cfg(sc, refine=False, bounded=False).replace("SPECIFICATION ImplSpec", "SPECIFICATION SimSpec").replace(
        "CONSTRAINT Bounded\n", "") + f"CONSTANTS Depth = {sc['depth']}\n"
    r = ck.tlc("DesignSpaceSim", cfg, workers=1, timeout=900, simulate=f"num={sc['num']}", depth=sc["depth"] + 2,
               seed=ck.seed, count=False, coverage=False)
    # the Depth values printed by one Finish step are consecutive, in the order TLC enumerates 1..Depth
    behaviours, buf = [], {}
    for v in r.printed():
        if isinstance(v, tuple) and len(v) == 3 and v[0] == "STEP":
            if v[1] in buf:
                raise MachineryError("interleaved STEP records in the simulation output")
            buf[v[1]] = v[2]
            if len(buf) == sc["depth"]:
                behaviours.append([buf[i] for i in range(1, sc["depth"] + 1)])
                buf = {}
    if len(behaviours) != sc["num"]:
        raise MachineryError(f"only {len(behaviours)} simulated behaviours parsed")
    sim_states = {}
    for b in behaviours:
        for st in b:
            sim_states.setdefault(absstate(st), (st["vars"], st["intNorm"]))
    new = [v for k, v in sim_states.items() if k not in views]
    if new:
        views.update(views_for(ck, sc, new, "sim"))
    rs = Replayer(ck, DesignSpace, views)
    for b in behaviours:
        steps, src = [], EMPTY
        for st in b:
            steps.append((None, st["lbl"][0], tuple(st["lbl"][1:]), src, st))
            src = st
        hist = rs.run(steps, "simulation")
        if len(ck.samples) < 6:
            ck.sample({"simulated_behaviour": hist})
    timing["simulation_s"] = round(time.time() - t0, 1)
    ck.extra["simulation"] = {"behaviours": len(behaviours), "depth": sc["depth"], "steps": rs.n_steps,
                              "abstract_states_not_in_graph": len(new), "resynchronisations": rs.n_resync}
    ck.extra["timing"] = timing
    reprs = {rep for v in views.values() for rep in v["greprs"]}
    missing = sorted(rep for rep in reprs if not REPR_CALLS[rep])
    if missing or len(reprs) < 5:
        raise MachineryError(f"vacuity: gradient representations never presented to gemseo: {missing or reprs}")
    ck.extra["gradient_representation_calls"] = dict(REPR_CALLS)
    ck.assumptions += [
        "exact slice: finite bounds in {0,2,4}, probe vectors and values on the 1/8 lattice (TLC checks that no division is inexact)",
        "the current value may leave the bounds after set_lower_bound/set_upper_bound (the code allows it); its normalised image is the affine image",
        "rounding ties of integer components may go either way; dict key order is not compared; dtypes are not compared",
        "check_membership: bounds only (integrality is checked by the code for dict input only and is not part of the property)",
        "project_into_bounds(normalized=True): [0,1] on the normalised components, the bounds of the variable on the others (View.pnb, clause project_norm_bounds: D0201 on the unchanged tree)",
        "gradient/Jacobian arguments: float64 1-D, dense 2-D (2 rows), scipy.sparse csr_array/csc_array/coo_array; the `out=` argument of unnormalize_vect/untransform_vect is not exercised (outside the property)",
        "set_current_value(dict) with a partial dict, set_*_bound with lb > ub (documented to raise) are not in the alphabet",
        "after a reported disagreement the object is rebuilt from the abstract state (caches refilled according to the Impl state)",
        "exhaustive = every transition of the depth-bounded DesignSpaceImpl graph was executed on a real DesignSpace; the simulated behaviours are a sample",
    ]


def sim_constants(ck: Check):
    if ck.thorough:
        return dict(nnames=4, maxvars=3, templates=[1, 2, 3, 4, 5, 6], lbvals=[0, 16], ubvals=[16, 32], infbounds=True,
                    cur=["lo", "hi"], level=100, vias=["add", "extend", "from"], forms=["array", "dict"],
                    qkinds=["normalize", "unnormalize", "round", "project", "grad"], fmodes=["inplace", "copy"], depth=12, num=400)
    return dict(nnames=4, maxvars=3, templates=[1, 2, 3, 4, 5, 6], lbvals=[0, 16], ubvals=[16, 32], infbounds=True,
                cur=["lo", "hi"], level=100, vias=["add", "extend", "from"], forms=["array", "dict"],
                qkinds=["normalize", "unnormalize", "round", "project", "grad"], fmodes=["inplace", "copy"], depth=10, num=60)


if __name__ == "__main__":
    main("C02", run)
