"""C16, histories on one approximator object (DerivApproxHist.tla).

TLC explores the state machine of one approximator bound to a mutable design space (Approximate, Return,
SetUpperBound, SetLowerBound, SetStep) exhaustively, with the invariants of DerivApprox evaluated on every call
(the instance of a call is made of the bounds and the step AT THE TIME OF THE CALL), and dumps the graph.  A transition tour of the graph (every edge, i.e. every call in every context "what changed
since the previous call") is replayed on ONE real approximator + ONE real DesignSpace per path; what each
f_gradient call did (points the function was called at, returned array) is compared with the destination state
of its Approximate edge (inst / jac / pts computed by TLC).
"""
from __future__ import annotations

from collections import deque

import numpy as np

from ..core import Check, Graph, MachineryError
from .c16 import INF, PolyFn, S, approx_class, bound, judge, subset_class

INVS = ["Shape", "WithinBounds", "OneComponent", "ErrorEqualsOrderTerm", "OrderBound", "BoundsAtCallTime",
        "WithinCurrentBounds"]
ACTIONS = ("Approximate", "Return", "SetUpperBound", "SetLowerBound", "SetStep")


def cfg(rich, emit, max_mut, invariants):
    s = f'CONSTANTS K = 7\n Level = "approx"\n Rich = {"TRUE" if rich else "FALSE"}\n'
    s += f' Emit = {"TRUE" if emit else "FALSE"}\n MaxMut = {max_mut}\nSPECIFICATION HSpec\nCHECK_DEADLOCK FALSE\n'
    if invariants:
        s += "".join(f"INVARIANT {i}\n" for i in INVS)
    return s


class HistObject:
    """One real approximator over one logging polynomial function, bound to one real design space."""

    def __init__(self, funs, state):
        from gemseo.algos.design_space import DesignSpace

        obj = state["obj"]
        self.meth, self.dsk, self.fid = obj["meth"], obj["ds"], obj["fid"]
        self.f = PolyFn(funs[self.fid])
        self.n = self.f.n
        self.lbs = [bound(v) for v in state["lbs"]]
        self.ubs = [bound(v) for v in state["ubs"]]
        kw = {}
        self.space = None
        if self.dsk != "none":
            self.space = DesignSpace()
            self.space.add_variable("x", self.n, lower_bound=np.array(self.lbs), upper_bound=np.array(self.ubs))
            kw = {"design_space": self.space, "normalize": self.dsk == "norm"}
        self.ap = approx_class(self.meth)(self.f, step=state["dstep"] / S, **kw)

    def set_upper_bound(self, c, v):
        self.ubs[c - 1] = bound(v)
        self.space.set_upper_bound("x", np.array(self.ubs))

    def set_lower_bound(self, c, v):
        self.lbs[c - 1] = bound(v)
        self.space.set_lower_bound("x", np.array(self.lbs))

    def set_step(self, h):
        self.ap.step = h / S

    def approximate(self, I):
        idx0 = [c - 1 for c in I["idx"]]
        x = np.array(I["X"], dtype=float) / S
        kw = {}
        if not I["dfs"]:  # a step of the call; otherwise the default step of the object
            hs = np.array(I["hs"], dtype=float) / S
            kw["step"] = float(hs[0]) if I["sk"] == "scalar" else hs
        self.f.log.clear()
        g = self.ap.f_gradient(x, x_indices=() if I["dflt"] else idx0, **kw)
        return idx0, g, set(self.f.log)


def replay_path(ck: Check, funs, g: Graph, path, counts):
    """One behaviour on one object.  Stops at the first disagreement (the object may be off afterwards)."""
    s0 = g.states[g.edges[path[0]][0]]
    ob = HistObject(funs, s0)
    since = []  # mutations since the previous call
    recent = deque(maxlen=12)  # the last edges, for the replay file
    ncall = 0
    for e in path:
        _, dst, act, args = g.edges[e]
        counts[act] = counts.get(act, 0) + 1
        if act == "Return":
            continue
        recent.append([act, list(args)])
        if act == "SetUpperBound":
            ob.set_upper_bound(*args)
        elif act == "SetLowerBound":
            ob.set_lower_bound(*args)
        elif act == "SetStep":
            ob.set_step(*args)
        if act != "Approximate":
            since.append(act)
            continue
        d = g.states[dst]
        I, jac, pts = d["inst"], d["jac"], d["pts"]
        ck.traces += 1
        ncall += 1
        sig = {"level": "hist", "method": ob.meth, "ds": ob.dsk, "first_call": ncall == 1,
               "since_previous_call": sorted(set(since)), "step": "default" if I["dfs"] else I["sk"],
               "subset": subset_class([c - 1 for c in I["idx"]], ob.n, I["dflt"])}
        case = {"instance": I, "object": s0["obj"], "initial_bounds": [list(s0["lbs"]), list(s0["ubs"])],
                "last_edges": list(recent), "expected_jac_scaled": jac, "scale": S * S, "bounds_at_the_call": [list(I["lb"]), list(I["ub"])]}
        try:
            idx0, got, logged = ob.approximate(I)
        except Exception as ex:  # noqa: BLE001
            ck.violation("Runs", dict(sig, exception=type(ex).__name__), dict(case, error=repr(ex)))
            return False
        ub = I["ub"]
        near = any(I["ds"] != "none" and ub[c] < INF and ub[c] - abs(h) < I["X"][c] <= ub[c]
                   for c, h in zip(idx0, I["hs"]))
        if not judge(ck, sig, case, I, ob.f.m, ob.n, idx0, got, logged, jac, pts, near):
            return False
        if since:
            key = "+".join(sorted(set(since)))
            counts["calls_after:" + key] = counts.get("calls_after:" + key, 0) + 1
        since = []
    return True


def run(ck: Check, funs):
    rich = ck.thorough
    max_mut = 3 if rich else 2
    # one run: the invariants are evaluated on every state AND the graph is dumped (Emit: the auxiliary record of
    # a call is not kept in the state, the invariants recompute it); that every action was taken is established
    # below on the dumped graph and on the replay (edges per action)
    r = ck.tlc("DerivApproxHist", cfg(rich, True, max_mut, invariants=True), workers=4, timeout=1500, dump=True,
               tag="hist", coverage=False)
    if r.depth < 4:
        raise MachineryError(f"history graph: depth {r.depth}")
    g = Graph(ck.work / "hist" / "DerivApproxHist.dot")
    paths = g.tour()
    counts: dict = {}
    quiet = 0
    for path in paths:
        if replay_path(ck, funs, g, path, counts):
            quiet += 1
    for a in ACTIONS:
        if not counts.get(a):
            raise MachineryError(f"vacuity: no {a} edge replayed on a real approximator")
    stale = {k: v for k, v in counts.items() if k.startswith("calls_after:")}
    if not any("SetUpperBound" in k for k in stale):
        raise MachineryError("vacuity: no call replayed after a change of an upper bound")
    ck.extra["history_graph"] = {"states": len(g.states), "edges": len(g.edges), "objects": len(g.init),
                                 "tour_paths": len(paths), "paths_quiet": quiet, "max_mutations": max_mut}
    ck.extra["history_edges_replayed"] = {a: counts.get(a, 0) for a in ACTIONS}
    ck.extra["history_calls_after_changes"] = stale
    ck.assumptions.append(
        "histories: one object per tour path, serial evaluation; at most "
        f"{max_mut} changes (bounds, default step) per behaviour; between two changes every call of the "
        "enumeration, in a state where nothing changed since the previous call only probing calls")
