------------------------------ MODULE DriverTrace ------------------------------
(***************************************************************************)
(* Validates event traces recorded from real gemseo drivers (every         *)
(* optimizer and DOE of the factories) against Driver.tla.  One TLC run    *)
(* validates a batch of traces (one initial state per trace).              *)
(*                                                                         *)
(* Events (recorded through public listeners and wrapped user callables):  *)
(*   exec    settings of one execute() + counter/len(database) before it   *)
(*   orig    an original callable returned (ok | nan) or raised, at key p   *)
(*   store   the store listener ran: key p, names now stored at p          *)
(*   newiter the (first) new-iteration listener ran for key p              *)
(*   switch  the same driver instance is now used on another, fresh problem*)
(*   end     execute() returned or raised: stop class, result, x_opt,      *)
(*           final counter, len(database), listeners left on the database  *)
(*                                                                         *)
(* Strict mode (Lenient = FALSE): every event must be a step of Driver     *)
(* (the unlogged steps - requests served from the database, the driver's   *)
(* own listener, result building - are silent steps TLC searches for), and *)
(* every logged scalar must equal the specification's value.  The property *)
(* clauses are evaluated in every state of every trace.                    *)
(* Lenient mode (Lenient = TRUE) is the diagnosis of a rejected trace: the *)
(* observed effects are applied without the guards of Driver, and the      *)
(* clauses are evaluated on the observed state, which names the clause of  *)
(* the property that the implementation broke.                             *)
(***************************************************************************)
EXTENDS Driver, Json, IOUtils, TLCExt
CONSTANT Lenient
Traces == JsonDeserialize(IOEnv.TRACE_FILE)   \* <<[id, funcs, npts, events], ...>>
NT == Len(Traces)
VARIABLES tid, l, flag          \* flag: first broken observation clause (lenient mode), "" if none
tvars == <<vars, tid, l, flag>>
T  == Traces[tid]
Ev == T.events[l]
More == l <= Len(T.events)
ToSet(s) == {s[i] : i \in 1..Len(s)}
Fresh == T.npts + 1             \* a point never stored: what an unseen point looks like to the database

TInit ==
  /\ tid \in 1..NT
  /\ l = 1 /\ flag = ""
  /\ funcs = T.funcs
  /\ InitRest

IsEv(e) == More /\ Ev.ev = e /\ l' = l + 1 /\ UNCHANGED <<tid, flag>>
Silent  == UNCHANGED <<tid, l, flag>>

CfgOf(e, x) ==
  [kind |-> e.kind, N |-> e.N, reset |-> e.reset, grad |-> e.grad, useDb |-> e.useDb, storeJac |-> e.storeJac,
   stopIfNan |-> e.stopIfNan, maxTime |-> e.maxTime, kkt |-> e.kkt, nx |-> e.nx, x0 |-> x, samples |-> e.samples,
   composite |-> e.composite, obs |-> e.obs, sub |-> e.sub]

(* ------------------------------------------------------------------ strict: steps of Driver *)
TExec ==
  /\ IsEv("exec")
  /\ Ev.cur = cur /\ Ev.len = Len(keys)
  /\ \E x \in (IF Ev.kind = "opt" THEN 1..Fresh ELSE {NanPt}) : Execute(CfgOf(Ev, x))

\* the request that leads to the next logged original call (gemseo's own loop, or the algorithm)
TAskCall ==
  /\ More /\ Ev.ev = "orig" /\ req.st = "none" /\ Silent
  /\ (AskOwn \/ Ask(<<Ev.fn, Ev.kind>>, Ev.p))
  /\ req'.st = "call" /\ req'.n = <<Ev.fn, Ev.kind>> /\ req'.p = Ev.p

\* linear problems: the original callables cannot be wrapped (MDOLinearFunction, re-created by the
\* normalisation), so the call is inferred from the name the next store adds
TAskCallQuiet ==
  /\ T.noorig /\ More /\ Ev.ev = "store" /\ ~Ev.extra /\ req.st = "none" /\ Silent
  /\ \E n \in ToSet(Ev.names) \ (IF Ev.p \in DOMAIN outs THEN outs[Ev.p] ELSE {}) :
        /\ (AskOwn \/ Ask(n, Ev.p))
        /\ req'.st = "call" /\ req'.n = n /\ req'.p = Ev.p
TOrigQuiet == T.noorig /\ req.st = "call" /\ Silent /\ OrigCall("ok")
\* ... and nothing at all is observable of gemseo's own requests whose result is not stored
\* (no database, or a Jacobian with store_jacobian = False)
TAskOwnBlind ==
  /\ T.noorig /\ todo # <<>> /\ req.st = "none" /\ Silent
  /\ (~cfg.useDb \/ (Head(todo)[2] = "jac" /\ ~cfg.storeJac))
  /\ AskOwn

\* gemseo's own request served from the database, or stopped (NaN input, budget)
TOwnQuiet == todo # <<>> /\ Silent /\ AskOwn /\ req'.st = "none"

\* the algorithm asks an unseen point once the budget is spent: MaxIterReachedException, whatever it asks
\* there (a value, or a Jacobian first: gradient-first algorithms) and whether or not Jacobians are stored.
\* An ORIGINAL call logged at such a point is never explained by this step: TAskCall needs Serve to answer
\* "call", which the specification does not allow at an empty entry once the counter has reached its maximum.
TAlgoMaxIter ==
  /\ More /\ Ev.ev = "end" /\ Ev.cause \in {"MaxIter", "Other"} /\ Silent
  /\ \E n \in Names : Ask(n, Fresh)
  /\ stop' = "MaxIter"

TOrig ==
  /\ IsEv("orig") /\ req.st = "call" /\ req.p = Ev.p /\ req.n = <<Ev.fn, Ev.kind>>
  /\ Ev.cur = cur /\ Ev.len = Len(keys)
  /\ OrigCall(Ev.out)

TStore ==
  /\ IsEv("store") /\ ~Ev.extra /\ req.st = "store" /\ req.p = Ev.p
  /\ Ev.cur = cur
  /\ Store
  /\ outs'[Ev.p] = ToSet(Ev.names) /\ Ev.len = Len(keys')

\* a store made by a listener (the KKT residual by the store listener, the new-iteration observables by
\* their new-iteration listener): no function of the problem is concerned
TExtraStore ==
  /\ IsEv("store") /\ Ev.extra
  /\ \/ req.st = "listen"
     \/ (req.st = "notify" /\ nil[req.k] = "obs")
     \/ (req.st = "none" /\ cfg.obs)            \* an algorithm that evaluates the observables itself
  /\ UNCHANGED vars

TNewIterUser ==
  /\ IsEv("newiter") /\ req.st = "notify" /\ nil[req.k] = "user" /\ req.p = Ev.p
  /\ Ev.cur = cur /\ Ev.len = Len(keys)
  /\ NewIter("none")

TNewIterDrv ==
  /\ req.st = "notify" /\ nil[req.k] \in {"drv", "obs"} /\ Silent
  /\ \E s \in Causes \cup {"none"} : NewIter(s)

\* the driver instance goes to another problem
TSwitch == IsEv("switch") /\ SwitchProblem

\* the documented refusal of inconsistent per-level budgets (ValueError of MultiStart._run)
TReject ==
  /\ IsEv("end") /\ Ev.crashed /\ Ev.refused /\ phase = "rejected"
  /\ Ev.cur = cur /\ Ev.len = Len(keys)
  /\ UNCHANGED vars

\* the algorithm goes on asking after a termination exception was raised in its callback.  This is
\* behaviour of the ENVIRONMENT (the third-party library), not of gemseo: NLopt keeps the Python exception
\* pending and calls back until it looks at its forced-stop flag; the pending exception normally makes these
\* calls fail at once, but it can be consumed meanwhile (a weak-reference callback run by the garbage
\* collector: "Exception ignored in ... returned a result with an exception set"), and the next request is
\* then served normally (seen for NLOPT_BFGS after FunctionIsNan, about 1 run in 100).  gemseo's responses
\* to these requests and every clause of the property still apply (a request at an unseen point once the
\* budget is spent is still answered by MaxIter).  Only taken when the log shows that the algorithm went on.
TSwallow ==
  /\ More /\ Ev.ev \in {"orig", "store"} /\ ~cfg.composite /\ Silent
  /\ ResumeAny

TQuiet ==
  /\ Silent
  /\ \/ PreRunDone \/ NextSample \/ KktPass \/ KktStop \/ ClearListeners \/ Resume
     \/ (More /\ Ev.ev = "end" /\ Ev.cause \in {"Normal", "Other"} /\ AlgoReturn(Ev.cause))
     \/ (More /\ Ev.ev = "end" /\ BuildResult(Ev.xopt))

TEnd ==
  /\ IsEv("end") /\ ~Ev.crashed
  /\ PostRun
  /\ Ev.result = hasResult /\ Ev.xopt = xopt
  /\ (Ev.cause = stop \/ (Ev.cause = "Other" /\ stop # "Normal"))     \* "Other": stopped by gemseo, class unknown
  /\ Ev.cur = cur /\ Ev.len = Len(keys)
  /\ Ev.nni = Len(nil) /\ Ev.nsl = Len(sl)

\* an exception of a user function escaped an optimizer: the only exception execute() may raise
TCrash ==
  /\ IsEv("end") /\ Ev.crashed /\ Ev.userRaise /\ phase = "crashed"
  /\ Ev.cur = cur /\ Ev.len = Len(keys)
  /\ UNCHANGED vars

TNext == TExec \/ TSwallow \/ TAskCall \/ TAskCallQuiet \/ TOrigQuiet \/ TAskOwnBlind \/ TOwnQuiet \/ TAlgoMaxIter \/ TOrig \/ TStore \/ TExtraStore
         \/ TNewIterUser \/ TNewIterDrv \/ TQuiet \/ TEnd \/ TCrash \/ TSwitch \/ TReject

(* ------------------------------------------------------------------ lenient: observed effects *)
Flag(c, s) == IF flag = "" /\ ~c THEN s ELSE flag
LStep(e) == More /\ Ev.ev = e /\ l' = l + 1 /\ UNCHANGED <<tid, funcs>>

LExec ==
  /\ LStep("exec")
  /\ cfg' = CfgOf(Ev, NanPt)
  /\ max' = Ev.N /\ cur' = Ev.cur /\ cur0' = (IF Ev.reset THEN 0 ELSE Ev.cur)
  /\ filled0' = NonEmpty /\ keys0' = keys /\ nil0' = nil
  /\ origPts' = {} /\ raised' = {}
  /\ samples' = Ev.samples /\ si' = Len(Ev.samples)
  /\ phase' = "observed" /\ stop' = "none" /\ hasResult' = FALSE /\ xopt' = NanPt
  /\ flag' = Flag(phase \in {"idle", "postrun"}, "Protocol")
  /\ UNCHANGED <<dbv, lst, req, todo, at, nexec>>

LSwitch ==
  /\ LStep("switch")
  /\ keys' = <<>> /\ outs' = <<>> /\ cur' = 0 /\ max' = 0 /\ nil' = <<"user">>
  /\ filled0' = {} /\ keys0' = <<>> /\ nil0' = <<>> /\ cur0' = 0 /\ origPts' = {} /\ raised' = {}
  /\ phase' = "idle" /\ stop' = "none" /\ hasResult' = FALSE /\ xopt' = NanPt
  /\ flag' = flag
  /\ UNCHANGED <<cfg, sl, mine, req, todo, at, doev, nexec>>

LOrig ==
  /\ LStep("orig")
  /\ origPts' = origPts \cup {Ev.p}
  /\ raised' = (IF Ev.out = "raise" THEN raised \cup {Ev.p} ELSE raised)
  /\ cur' = Ev.cur
  \* Memo: the original is not entered for a value the database holds
  /\ flag' = Flag(~(cfg.useDb /\ Ev.p \in DOMAIN outs /\ <<Ev.fn, Ev.kind>> \in outs[Ev.p]), "Memo")
  /\ UNCHANGED <<phase, cfg, dbv, max, lst, req, todo, at, doev, stop, resv, nexec, histv>>

LStore ==
  /\ LStep("store")
  /\ keys' = (IF Ev.p \in DOMAIN outs THEN keys ELSE Append(keys, Ev.p))
  /\ outs' = (IF Ev.p \in DOMAIN outs THEN [outs EXCEPT ![Ev.p] = ToSet(Ev.names)]
              ELSE (Ev.p :> ToSet(Ev.names)) @@ outs)
  /\ cur' = Ev.cur
  /\ req' = (IF Ev.extra THEN req
             ELSE [NoReq EXCEPT !.p = Ev.p, !.k = IF IsEmpty(Ev.p) THEN 1 ELSE 0])   \* was the entry empty?
  /\ flag' = flag
  /\ UNCHANGED <<phase, cfg, max, lst, todo, at, doev, stop, resv, nexec, histv, origPts, raised>>

LNewIter ==
  /\ LStep("newiter")
  /\ cur' = Ev.cur
  \* NewIterOnce: a new iteration is signalled only by the first non-empty store at a point
  /\ flag' = Flag(req.p = Ev.p /\ req.k = 1, "NewIterOnce")
  /\ req' = [req EXCEPT !.k = 0]
  /\ UNCHANGED <<phase, cfg, dbv, max, lst, todo, at, doev, stop, resv, nexec, histv, origPts, raised>>

LEnd ==
  /\ LStep("end")
  /\ cur' = Ev.cur
  /\ hasResult' = Ev.result /\ xopt' = Ev.xopt /\ stop' = Ev.cause
  /\ nil' = [j \in 1..Ev.nni |-> IF j = 1 THEN "user" ELSE "drv"]
  /\ phase' = (IF Ev.crashed /\ Ev.refused /\ BadLevels(cfg) THEN "rejected"
               ELSE IF Ev.crashed THEN "crashed" ELSE "postrun")
  /\ raised' = (IF Ev.crashed /\ ~Ev.userRaise THEN {} ELSE raised)     \* see AlwaysResult
  \* LevelBudgets: per-level budgets that do not fit the global one are refused
  /\ flag' = (IF flag = "" /\ BadLevels(cfg) /\ ~Ev.crashed THEN "LevelBudgets"
               ELSE Flag(Ev.len = Len(keys), "Protocol"))
  /\ UNCHANGED <<cfg, dbv, max, sl, mine, req, todo, at, doev, nexec, histv, origPts>>

LNext == LExec \/ LOrig \/ LStore \/ LNewIter \/ LEnd \/ LSwitch

Next2 == IF Lenient THEN LNext ELSE TNext
TSpec == TInit /\ [][Next2]_tvars

(* ------------------------------------------------------------------ verdicts (registers; -workers 1) *)
Clause ==
  IF ~Budget THEN "Budget"
  ELSE IF ~AlwaysResult THEN "AlwaysResult"
  ELSE IF ~NoListenerLeak THEN "NoListenerLeak"
  ELSE IF ~RejectClean THEN "RejectClean"
  ELSE IF ~(Lenient /\ stop # "Normal") /\ ~DoeOrder THEN "DoeOrder"
  ELSE IF ~BudgetTight THEN "BudgetTight"
  ELSE IF ~Lenient /\ ~CounterExact THEN "CounterExact"
  ELSE IF ~CounterFinal THEN "CounterFinal"
  ELSE IF flag # "" THEN flag
  ELSE "ok"

Reach ==
  /\ TLCSet(tid, IF TLCGet(tid) < l THEN l ELSE TLCGet(tid))
  /\ (Clause # "ok" /\ TLCGet(NT + tid)[1] = "ok") => TLCSet(NT + tid, <<Clause, l - 1>>)
  /\ Clause = "ok"

RegInit == \A i \in 1..NT : TLCSet(i, 0) /\ TLCSet(NT + i, <<"ok", 0>>)
ASSUME RegInit
Accepted == \A i \in 1..NT :
   PrintT(<<"TRACE", Traces[i].id, TLCGet(i) - 1, Len(Traces[i].events), TLCGet(NT + i)[1], TLCGet(NT + i)[2]>>)
================================================================================
