------------------------------- MODULE Backup -------------------------------
(***************************************************************************)
(* History backup of a scenario (BaseScenario.set_optimization_history_    *)
(* backup + Database.store listeners + HDF append export) with process     *)
(* death during a discipline execution and restart with load=True.         *)
(*                                                                         *)
(* Layer 1 (Spec): the driver is an unconstrained environment: it may ask  *)
(* any output at any point in any order.  Answering a request at a point   *)
(* where the output is missing may need discipline executions              *)
(* (ExecStart/ExecEnd); a crash can only happen while a discipline         *)
(* executes.  A completed evaluation is stored (Store) and the database    *)
(* notifies, in this order and before any other discipline execution: the  *)
(* store listeners (export when the backup is "at each function call"),    *)
(* then - if this was the first non-empty store at that point - the        *)
(* new-iteration listeners (export when the backup is "at each             *)
(* iteration", then the driver's callback: evaluation counter + 1).  The   *)
(* export itself is "file := database" (HDFStore.tla shows append export = *)
(* full export).  A restart loads the file and sets the evaluation counter *)
(* under one of the two counter policies of the drivers                    *)
(* (reset_iteration_counters): "reset" (default: the counter restarts from *)
(* 0 whatever was loaded) or "kept" (the counter is the number of loaded   *)
(* entries).                                                               *)
(*                                                                         *)
(* Layer 2 (RunSpec): a DETERMINISTIC algorithm whose stored values are    *)
(* replayed exactly: its requests are a fixed plan of points, whatever the *)
(* process that serves them.  Every run ends for one of three causes:      *)
(*   "budget": a value is requested at a point without database entry      *)
(*             while counter >= maxIter (ProblemFunction);                 *)
(*   "tol":    GEMSEO's ftol/xtol testers, called by the driver's          *)
(*             new-iteration callback, fire: they are a function of the    *)
(*             last NLast entries of the DATABASE (loaded or not);         *)
(*   "algo":   the algorithm's own convergence (the plan is exhausted).    *)
(* A behaviour is: the uninterrupted run (phase "ref", its final history   *)
(* and cause are remembered), then the same scenario from scratch with     *)
(* crashes at every discipline execution and restarts under either counter *)
(* policy (phase "crashy").  SameHistory is a theorem for every cause x    *)
(* policy except budget x reset (a fresh budget: the reference history is  *)
(* then a prefix).  TesterGuard = "counter" is the model of testers that   *)
(* are skipped while the evaluation COUNTER is below NLast: TLC refutes    *)
(* SameHistory for it (tolerance-stopped run, late crash point, reset);    *)
(* TesterGuard = "new" (testers that wait for NLast entries of the current *)
(* process) is refuted under both policies.                                *)
(***************************************************************************)
EXTENDS Naturals, Sequences, FiniteSets, TLC
CONSTANTS Points,      \* design points (small integers)
          Outs,        \* output names, Jacobians included (small integers); the least one is the objective
          EachCall, EachIter,
          MaxStores,   \* bound on the run length
          MaxCrashes,
          Policies,    \* counter policies a restart may use: subset of {"reset", "kept"}
          NLast,       \* stop_crit_n_x: number of last database entries the tolerance testers look at
          PlanLen,     \* RunSpec: the algorithm requests at most PlanLen points
          MaxIters,    \* RunSpec: the budgets explored (0 = none)
          TesterGuard  \* "database" (the specification); refuted (see above): "counter", and "new" (testers
                       \* that wait for NLast entries added by the current process)
VARIABLES db,        \* memory: sequence of [pt, outs]; lost at a crash
          file,      \* persistent: sequence of [pt, outs]
          stores,    \* ghost: completed stores <<pt, set of outputs>> of the history (never lost)
          executing, \* 0, or the point a discipline is executing for
          crashed, nCrash,
          loaded,    \* ghost: database loaded at the last restart
          req,       \* constant after Init: the outputs the run needs at each point
          reworked,  \* ghost: a discipline was executed at a point whose needed outputs are all stored
          counter,   \* the problem's evaluation counter (memory: lost at a crash)
          policy,    \* "fresh" (no restart yet) or the counter policy of the last restart
          wasReset   \* ghost: some restart of this history used the "reset" policy
bvars == <<db, file, stores, executing, crashed, nCrash, loaded, req, reworked, counter, policy, wasReset>>
VARIABLES plan,      \* the points the deterministic algorithm requests, in order (revisits allowed)
          near,      \* the tolerance testers fire iff the last NLast entries are all at points of this set
          maxIter,   \* the budget (0: none)
          pos, sub,  \* next request: output sub at point plan[pos]
          ran,       \* the point the disciplines of THIS process were last executed at (0: none)
          cause,     \* "running", or why the current run ended: "budget", "tol", "algo"
          ended,     \* the scenario's execute returned (catch-up export done)
          phase,     \* "ref", "crashy"; "free" in the unconstrained layer
          refdb, refcause   \* final history and termination cause of the uninterrupted run
rvars == <<plan, near, maxIter, pos, sub, ran, cause, ended, phase, refdb, refcause>>
vars == <<bvars, rvars>>

Has(d, p) == \E i \in 1..Len(d) : d[i].pt = p
OutsAt(d, p) == IF Has(d, p) THEN d[CHOOSE i \in 1..Len(d) : d[i].pt = p].outs ELSE {}
Put(d, p, O) == IF Has(d, p)
                THEN [i \in 1..Len(d) |-> IF d[i].pt = p THEN [d[i] EXCEPT !.outs = @ \cup O] ELSE d[i]]
                ELSE Append(d, [pt |-> p, outs |-> O])
NonEmpty(d) == Cardinality({i \in 1..Len(d) : d[i].outs # {}})

BInit == /\ db = <<>> /\ file = <<>> /\ stores = <<>> /\ executing = 0
         /\ crashed = FALSE /\ nCrash = 0 /\ loaded = <<>> /\ reworked = FALSE
         /\ req = [p \in Points |-> Outs]
         /\ counter = 0 /\ policy = "fresh" /\ wasReset = FALSE
\* the run layer is idle in the unconstrained layer
RIdle == /\ plan = <<>> /\ near = {} /\ maxIter = 0 /\ pos = 0 /\ sub = 0 /\ ran = 0
         /\ cause = "free" /\ ended = FALSE /\ phase = "free" /\ refdb = <<>> /\ refcause = "free"
Init == BInit /\ RIdle

\* a discipline starts executing for point p: only useful when some output is missing at p
ExecStart(p) == /\ ~crashed /\ executing = 0
                /\ executing' = p
                /\ reworked' = (reworked \/ (req[p] # {} /\ req[p] \subseteq OutsAt(db, p)))
                /\ UNCHANGED <<db, file, stores, crashed, nCrash, loaded, req, counter, policy, wasReset>>
ExecEnd == /\ ~crashed /\ executing # 0 /\ executing' = 0
           /\ UNCHANGED <<db, file, stores, crashed, nCrash, loaded, req, reworked, counter, policy, wasReset>>
\* the values of the outputs O at p are stored by one database.store call (O = {} : an empty
\* entry, e.g. the pre-seeding of a parallel DOE); listeners fire; no discipline runs in between
NewIter(p, O) == OutsAt(db, p) = {} /\ O # {}
Store(p, O) ==
  /\ ~crashed /\ executing = 0 /\ Len(stores) < MaxStores
  /\ (EachCall \/ EachIter)
  /\ O \cap OutsAt(db, p) = {}
  /\ LET db2 == Put(db, p, O)
     IN /\ db' = db2
        /\ file' = (IF EachCall \/ (EachIter /\ NewIter(p, O)) THEN db2 ELSE file)
  /\ stores' = Append(stores, <<p, O>>)
  /\ counter' = (IF NewIter(p, O) THEN counter + 1 ELSE counter)
  /\ UNCHANGED <<executing, crashed, nCrash, loaded, req, reworked, policy, wasReset>>
Crash == /\ ~crashed /\ executing # 0 /\ nCrash < MaxCrashes
         /\ crashed' = TRUE /\ nCrash' = nCrash + 1 /\ db' = <<>> /\ executing' = 0 /\ counter' = 0
         /\ UNCHANGED <<file, stores, loaded, req, reworked, policy, wasReset>>
\* a canonical store sequence that rebuilds a database (entries in order, outputs by increasing id)
Canon(d) == [i \in 1..Len(d) |-> <<d[i].pt, d[i].outs>>]
\* what load=True followed by execute leaves in the evaluation counter: the number of loaded entries
\* (set_optimization_history_backup), then reset or not by the driver (_init_iter_observer)
CounterAfterLoad(pol, d) == IF pol = "kept" THEN Len(d) ELSE 0
\* restart with load=True: the database is the file, nothing else survives; the history that
\* matters from now on is the one the file records (what was stored after the last export is lost)
Restart(pol) == /\ crashed /\ pol \in Policies
                /\ crashed' = FALSE /\ db' = file /\ loaded' = file
                /\ stores' = Canon(file)
                /\ counter' = CounterAfterLoad(pol, file)
                /\ policy' = pol /\ wasReset' = (wasReset \/ pol = "reset")
                /\ UNCHANGED <<file, executing, nCrash, req, reworked>>
\* layer 1: the base actions under an unconstrained driver (the run layer stays idle)
FreeExecStart(p) == ExecStart(p) /\ UNCHANGED rvars
FreeExecEnd == ExecEnd /\ UNCHANGED rvars
FreeStore(p, O) == Store(p, O) /\ UNCHANGED rvars
FreeCrash == Crash /\ UNCHANGED rvars
FreeRestart(pol) == Restart(pol) /\ UNCHANGED rvars
Next == \/ \E p \in Points : FreeExecStart(p)
        \/ FreeExecEnd
        \/ \E p \in Points, O \in SUBSET Outs : FreeStore(p, O)
        \/ FreeCrash
        \/ \E pol \in Policies : FreeRestart(pol)
Spec == Init /\ [][Next]_vars

\* ------------------------------------------------ layer 2: deterministic runs
Obj == CHOOSE o \in Outs : \A q \in Outs : o <= q
NextOut(o) == IF \E q \in Outs : q > o
              THEN CHOOSE q \in Outs : q > o /\ \A r \in Outs : r > o => q <= r
              ELSE 0
\* GEMSEO's tolerance testers (ObjectiveToleranceTester / DesignToleranceTester): a function of the
\* last NLast entries of the database, whoever put them there
TolFires(d, c) == /\ Len(d) >= NLast
                  /\ \A i \in (Len(d) - NLast + 1)..Len(d) : d[i].pt \in near /\ Obj \in d[i].outs
                  /\ (TesterGuard = "counter" => c >= NLast)
                  /\ (TesterGuard = "new" => Len(d) - Len(loaded) >= NLast)
RECURSIVE SeqsUpTo(_)
SeqsUpTo(n) == IF n = 0 THEN {<<>>}
               ELSE LET S == SeqsUpTo(n - 1)
                    IN S \cup {Append(s, p) : s \in {t \in S : Len(t) = n - 1}, p \in Points}
RInit == /\ BInit
         /\ plan \in (SeqsUpTo(PlanLen) \ {<<>>}) /\ near \in SUBSET Points /\ maxIter \in MaxIters
         /\ pos = 1 /\ sub = Obj /\ ran = 0 /\ cause = "running" /\ ended = FALSE
         /\ phase = "ref" /\ refdb = <<>> /\ refcause = "none"

Running == ~crashed /\ cause = "running" /\ executing = 0 /\ pos \in 1..Len(plan)
P == plan[pos]
Missing == sub \notin OutsAt(db, P)
\* ProblemFunction: the budget is tested when a value is missing at a point WITHOUT database entry
BudgetHit == OutsAt(db, P) = {} /\ maxIter > 0 /\ counter >= maxIter
\* the algorithm got the value it asked for and goes on (or has converged: plan exhausted)
Advance == IF NextOut(sub) # 0 THEN sub' = NextOut(sub) /\ pos' = pos /\ cause' = cause
           ELSE IF pos < Len(plan) THEN sub' = Obj /\ pos' = pos + 1 /\ cause' = cause
           ELSE sub' = sub /\ pos' = pos /\ cause' = "algo"
\* the value is in the database (computed by this process or loaded): no event at all
RServe == /\ Running /\ ~Missing /\ Advance
          /\ UNCHANGED <<bvars, plan, near, maxIter, ran, ended, phase, refdb, refcause>>
RBudget == /\ Running /\ Missing /\ BudgetHit /\ cause' = "budget"
           /\ UNCHANGED <<bvars, plan, near, maxIter, pos, sub, ran, ended, phase, refdb, refcause>>
\* the disciplines of this process have not run at P: they do (a crash is possible), once per point
RExecStart == /\ Running /\ Missing /\ ~BudgetHit /\ ran # P /\ ExecStart(P)
              /\ UNCHANGED rvars
RExecEnd == /\ executing # 0 /\ ran' = executing /\ ExecEnd
            /\ UNCHANGED <<plan, near, maxIter, pos, sub, cause, ended, phase, refdb, refcause>>
\* the value is stored; at a new iteration the driver's callback counts it and calls the testers
RStore == /\ Running /\ Missing /\ ~BudgetHit /\ ran = P /\ Store(P, {sub})
          /\ (IF NewIter(P, {sub}) /\ TolFires(db', counter')
              THEN cause' = "tol" /\ UNCHANGED <<pos, sub>>
              ELSE Advance)
          /\ UNCHANGED <<plan, near, maxIter, ran, ended, phase, refdb, refcause>>
\* BaseScenario.execute: catch-up export when the run started from a non-empty database and added entries
RFinish == /\ ~crashed /\ cause \in {"budget", "tol", "algo"} /\ ~ended /\ ended' = TRUE
           /\ file' = (IF (EachCall \/ EachIter) /\ 0 < Len(loaded) /\ Len(loaded) < Len(db) THEN db ELSE file)
           /\ UNCHANGED <<db, stores, executing, crashed, nCrash, loaded, req, reworked, counter, policy, wasReset,
                          plan, near, maxIter, pos, sub, ran, cause, phase, refdb, refcause>>
\* the uninterrupted run is over: remember it, start the same scenario from scratch, now with crashes
StartOver == /\ phase = "ref" /\ ended /\ phase' = "crashy" /\ refdb' = db /\ refcause' = cause
             /\ db' = <<>> /\ file' = <<>> /\ stores' = <<>> /\ counter' = 0
             /\ pos' = 1 /\ sub' = Obj /\ ran' = 0 /\ cause' = "running" /\ ended' = FALSE
             /\ UNCHANGED <<executing, crashed, nCrash, loaded, req, reworked, policy, wasReset, plan, near, maxIter>>
RCrash == /\ phase = "crashy" /\ Crash /\ ran' = 0
          /\ UNCHANGED <<plan, near, maxIter, pos, sub, cause, ended, phase, refdb, refcause>>
\* a new process: the algorithm starts again from its first request
RRestart(pol) == /\ Restart(pol) /\ pos' = 1 /\ sub' = Obj /\ ran' = 0 /\ cause' = "running" /\ ended' = FALSE
                 /\ UNCHANGED <<plan, near, maxIter, phase, refdb, refcause>>
\* the same actions under the names the coverage (vacuity) report needs: the end of a restarted run for
\* every (termination cause of the uninterrupted run) x (counter policy of the restart), and the crash
\* points split into the late ones (the file holds all but the last NLast - 1 entries of the
\* uninterrupted history, or more: the loaded entries alone nearly fill the testers' window) and the others
FinishRef == phase = "ref" /\ RFinish
FinishUncrashed == phase = "crashy" /\ policy = "fresh" /\ RFinish
FinishBudgetReset == phase = "crashy" /\ refcause = "budget" /\ policy = "reset" /\ RFinish
FinishBudgetKept == phase = "crashy" /\ refcause = "budget" /\ policy = "kept" /\ RFinish
FinishTolReset == phase = "crashy" /\ refcause = "tol" /\ policy = "reset" /\ RFinish
FinishTolKept == phase = "crashy" /\ refcause = "tol" /\ policy = "kept" /\ RFinish
FinishAlgoReset == phase = "crashy" /\ refcause = "algo" /\ policy = "reset" /\ RFinish
FinishAlgoKept == phase = "crashy" /\ refcause = "algo" /\ policy = "kept" /\ RFinish
LateFile == Len(file) + NLast > Len(refdb)
CrashLate == LateFile /\ RCrash
CrashEarly == ~LateFile /\ RCrash
RNext == \/ RServe \/ RBudget \/ RExecStart \/ RExecEnd \/ RStore \/ StartOver
         \/ FinishRef \/ FinishUncrashed
         \/ FinishBudgetReset \/ FinishBudgetKept \/ FinishTolReset \/ FinishTolKept
         \/ FinishAlgoReset \/ FinishAlgoKept
         \/ CrashLate \/ CrashEarly
         \/ \E pol \in Policies : RRestart(pol)
RunSpec == RInit /\ [][RNext]_vars

\* ---------------------------------------------------------------- properties
\* database after the first k stores of the (crash-free part of the) history, de-duplicated:
\* a store repeated after a restart (same point, same output) changes nothing
RECURSIVE After(_)
After(k) == IF k = 0 THEN <<>> ELSE Put(After(k - 1), stores[k][1], stores[k][2])
FilePrefix == \E k \in 0..Len(stores) : file = After(k)
\* at each function call: the file holds every completed store, at every moment (hence at a crash)
FileExactEachCall == EachCall => file = After(Len(stores))
\* at each iteration only: the file is the database as it was when the newest iteration was opened
FileAtLastIteration == (EachIter /\ ~EachCall) =>
   \E k \in 0..Len(stores) :
      /\ file = After(k)
      /\ \A j \in (k + 1)..Len(stores) :
            stores[j][2] = {} \/ OutsAt(After(j - 1), stores[j][1]) # {}
\* the loaded entries are kept, in order, by the restarted run
IsPrefixDb(a, b) == /\ Len(a) <= Len(b)
                    /\ \A i \in 1..Len(a) : a[i].pt = b[i].pt /\ a[i].outs \subseteq b[i].outs
LoadedKept == ~crashed => IsPrefixDb(loaded, db)
MemoryAhead == ~crashed => IsPrefixDb(file, db)
\* the counter: what the last restart left (the loaded entries under "kept", nothing under "reset")
\* plus the iterations opened since
CounterCounts == ~crashed =>
   counter = CounterAfterLoad(policy, loaded) + NonEmpty(db) - NonEmpty(loaded)
\* NoRework is an assumption on the environment in layer 1 (ExecStart sets the ghost); it is a theorem
\* of layer 2 and the clause BackupTrace checks on recorded restarts
NoRework == ~reworked

\* When stored values are replayed exactly, is the restarted run due to end with the history of the
\* uninterrupted run?  Yes, except when the uninterrupted run was ended by the budget and a restart
\* reset the counter (documented: the restarted run gets a fresh budget; the reference history is then
\* a prefix).  BackupTrace applies the same operator to recorded restarts.
SameHistoryDue(rc, reset) == ~(rc = "budget" /\ reset)
EndedAfterCrash == phase = "crashy" /\ ended /\ ~crashed
SameHistory == (EndedAfterCrash /\ SameHistoryDue(refcause, wasReset)) => (db = refdb /\ cause = refcause)
RefIsPrefix == EndedAfterCrash => IsPrefixDb(refdb, db)
\* refuted by TLC (budget x reset), which is why SameHistoryDue has an exception
SameHistoryAlways == EndedAfterCrash => db = refdb
=============================================================================
