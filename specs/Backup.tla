------------------------------- MODULE Backup -------------------------------
(***************************************************************************)
(* History backup of a scenario (BaseScenario.set_optimization_history_    *)
(* backup + Database.store listeners + HDF append export) with process     *)
(* death during a discipline execution and restart with load=True.         *)
(*                                                                         *)
(* The driver is an unconstrained environment: it may ask any output at    *)
(* any point in any order.  Answering a request at a point where the       *)
(* output is missing may need discipline executions (ExecStart/ExecEnd);   *)
(* a crash can only happen while a discipline executes.  A completed       *)
(* evaluation is stored (Store) and the database notifies, in this order   *)
(* and before any other discipline execution: the store listeners (export  *)
(* when the backup is "at each function call"), then - if this was the     *)
(* first non-empty store at that point - the new-iteration listeners       *)
(* (export when the backup is "at each iteration").  The export itself is  *)
(* "file := database" (HDFStore.tla shows append export = full export).    *)
(***************************************************************************)
EXTENDS Naturals, Sequences, FiniteSets, TLC
CONSTANTS Points,      \* design points (small integers)
          Outs,        \* output names, Jacobians included (small integers)
          EachCall, EachIter,
          MaxStores,   \* bound on the run length
          MaxCrashes
VARIABLES db,        \* memory: sequence of [pt, outs]; lost at a crash
          file,      \* persistent: sequence of [pt, outs]
          stores,    \* ghost: completed stores <<pt, set of outputs>> of the history (never lost)
          executing, \* 0, or the point a discipline is executing for
          crashed, nCrash,
          loaded,    \* ghost: database loaded at the last restart
          req,       \* constant after Init: the outputs the run needs at each point
          reworked   \* ghost: a discipline was executed at a point whose needed outputs are all stored
vars == <<db, file, stores, executing, crashed, nCrash, loaded, req, reworked>>

Has(d, p) == \E i \in 1..Len(d) : d[i].pt = p
OutsAt(d, p) == IF Has(d, p) THEN d[CHOOSE i \in 1..Len(d) : d[i].pt = p].outs ELSE {}
Put(d, p, O) == IF Has(d, p)
                THEN [i \in 1..Len(d) |-> IF d[i].pt = p THEN [d[i] EXCEPT !.outs = @ \cup O] ELSE d[i]]
                ELSE Append(d, [pt |-> p, outs |-> O])

Init == /\ db = <<>> /\ file = <<>> /\ stores = <<>> /\ executing = 0
        /\ crashed = FALSE /\ nCrash = 0 /\ loaded = <<>> /\ reworked = FALSE
        /\ req = [p \in Points |-> Outs]

\* a discipline starts executing for point p: only useful when some output is missing at p
ExecStart(p) == /\ ~crashed /\ executing = 0
                /\ executing' = p
                /\ reworked' = (reworked \/ (req[p] # {} /\ req[p] \subseteq OutsAt(db, p)))
                /\ UNCHANGED <<db, file, stores, crashed, nCrash, loaded, req>>
ExecEnd == /\ ~crashed /\ executing # 0 /\ executing' = 0
           /\ UNCHANGED <<db, file, stores, crashed, nCrash, loaded, req, reworked>>
\* the values of the outputs O at p are stored by one database.store call (O = {} : an empty
\* entry, e.g. the pre-seeding of a parallel DOE); listeners fire; no discipline runs in between
Store(p, O) ==
  /\ ~crashed /\ executing = 0 /\ Len(stores) < MaxStores
  /\ (EachCall \/ EachIter)
  /\ O \cap OutsAt(db, p) = {}
  /\ LET newIter == OutsAt(db, p) = {} /\ O # {}
         db2 == Put(db, p, O)
     IN /\ db' = db2
        /\ file' = (IF EachCall \/ (EachIter /\ newIter) THEN db2 ELSE file)
  /\ stores' = Append(stores, <<p, O>>)
  /\ UNCHANGED <<executing, crashed, nCrash, loaded, req, reworked>>
Crash == /\ ~crashed /\ executing # 0 /\ nCrash < MaxCrashes
         /\ crashed' = TRUE /\ nCrash' = nCrash + 1 /\ db' = <<>> /\ executing' = 0
         /\ UNCHANGED <<file, stores, loaded, req, reworked>>
\* a canonical store sequence that rebuilds a database (entries in order, outputs by increasing id)
Canon(d) == [i \in 1..Len(d) |-> <<d[i].pt, d[i].outs>>]
\* restart with load=True: the database is the file, nothing else survives; the history that
\* matters from now on is the one the file records (what was stored after the last export is lost)
Restart == /\ crashed /\ crashed' = FALSE /\ db' = file /\ loaded' = file
           /\ stores' = Canon(file)
           /\ UNCHANGED <<file, executing, nCrash, req, reworked>>
Next == \/ \E p \in Points : ExecStart(p)
        \/ ExecEnd
        \/ \E p \in Points, O \in SUBSET Outs : Store(p, O)
        \/ Crash \/ Restart
Spec == Init /\ [][Next]_vars

\* ---------------------------------------------------------------- properties
\* database after the first k stores of the (crash-free part of the) history, de-duplicated:
\* a store repeated after a restart (same point, same output) changes nothing
RECURSIVE After(_)
After(k) == IF k = 0 THEN <<>> ELSE Put(After(k - 1), stores[k][1], stores[k][2])
FilePrefix == \E k \in 0..Len(stores) : file = After(k)
\* at each function call: the file holds every completed store, at every moment (hence at a crash)
FileExactEachCall == EachCall => file = After(Len(stores))
\* at each iteration only: the file is the database as it was when the newest iteration was opened
FileAtLastIteration == (EachIter /\ ~EachCall) =>
   \E k \in 0..Len(stores) :
      /\ file = After(k)
      /\ \A j \in (k + 1)..Len(stores) :
            stores[j][2] = {} \/ OutsAt(After(j - 1), stores[j][1]) # {}
\* the loaded entries are kept, in order, by the restarted run
IsPrefixDb(a, b) == /\ Len(a) <= Len(b)
                    /\ \A i \in 1..Len(a) : a[i].pt = b[i].pt /\ a[i].outs \subseteq b[i].outs
LoadedKept == ~crashed => IsPrefixDb(loaded, db)
MemoryAhead == ~crashed => IsPrefixDb(file, db)
\* NoRework is an assumption on the environment in this module (ExecStart sets the ghost);
\* it is the clause BackupTrace checks on recorded restarts
=============================================================================
