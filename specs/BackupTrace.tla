----------------------------- MODULE BackupTrace -----------------------------
(* Validates event traces recorded from real scenarios with a history backup  *)
(* (uninterrupted runs, and runs restarted with load=True after a crash).     *)
(* For every discipline execution of a trace TLC prints the file content the  *)
(* specification predicts at that crash point (CRASHFILE): the harness kills  *)
(* a child process in exactly that execution and compares the real file.      *)
(* At the end of a run TLC judges the final history against the uninterrupted *)
(* run of the same scenario (DONE): equal when Backup!SameHistoryDue says so  *)
(* for the termination cause of the uninterrupted run and the counter policy  *)
(* of the restart, a continuation of it otherwise.                            *)
EXTENDS Backup, Json, IOUtils, TLCExt
Traces == JsonDeserialize(IOEnv.TRACE_FILE)
\* trace: [id, init (seq of [pt, outs]), req (seq over Points of seq of outs), events,
\*         policy ("fresh" | "reset" | "kept"), maxiter, exact (0/1: stored values are replayed exactly),
\*         ref (final history of the uninterrupted run, seq of [pt, outs]; <<>> for that run itself),
\*         refcause ("budget" | "tol" | "algo" | "none")]
VARIABLES tid, l
tvars == <<vars, tid, l>>
T == Traces[tid]
Ev == T.events[l]
ToSet(s) == {s[i] : i \in 1..Len(s)}
Db(s) == [i \in 1..Len(s) |-> [pt |-> s[i].pt, outs |-> ToSet(s[i].outs)]]

TInit == /\ tid \in 1..Len(Traces) /\ l = 1
         /\ db = Db(T.init) /\ file = Db(T.init) /\ loaded = Db(T.init)
         /\ stores = Canon(Db(T.init))
         /\ executing = 0 /\ crashed = FALSE /\ nCrash = 0 /\ reworked = FALSE
         /\ req = [p \in Points |-> IF p <= Len(T.req) THEN ToSet(T.req[p]) ELSE {}]
         /\ policy = T.policy /\ wasReset = (T.policy = "reset")
         /\ counter = CounterAfterLoad(T.policy, Db(T.init))
         /\ plan = <<>> /\ near = {} /\ maxIter = T.maxiter /\ pos = 0 /\ sub = 0 /\ ran = 0
         /\ cause = "running" /\ ended = FALSE /\ phase = "trace"
         /\ refdb = Db(T.ref) /\ refcause = T.refcause

IsEv(e) == l <= Len(T.events) /\ Ev.ev = e /\ l' = l + 1 /\ UNCHANGED tid

TExecStart == /\ IsEv("exec_start") /\ Ev.p \in Points /\ ExecStart(Ev.p)
              /\ ~reworked'                                   \* NoRework
              /\ PrintT(<<"CRASHFILE", T.id, Ev.k, file>>)
              /\ UNCHANGED rvars
TExecEnd   == IsEv("exec_end") /\ executing = Ev.p /\ ExecEnd /\ UNCHANGED rvars
\* an export must follow when the backup option says so
ExportDue(p, O) == EachCall \/ (EachIter /\ OutsAt(db, p) = {} /\ O # {})
TStore     == /\ IsEv("store") /\ Ev.p \in Points /\ ToSet(Ev.os) \subseteq Outs
              /\ Store(Ev.p, ToSet(Ev.os))
              /\ (ExportDue(Ev.p, ToSet(Ev.os)) => (l < Len(T.events) /\ T.events[l + 1].ev = "export"))
              /\ UNCHANGED rvars
\* every export (the due ones, the catch-up export at the end of BaseScenario.execute, or any
\* additional one) leaves in the real file exactly the database of that moment
TExport    == /\ IsEv("export") /\ Db(Ev.file) = db /\ executing = 0 /\ file' = db
              /\ UNCHANGED <<db, stores, executing, crashed, nCrash, loaded, req, reworked, counter, policy, wasReset>>
              /\ UNCHANGED rvars
\* the run is over: its database is the model's; the final history is judged against the uninterrupted
\* run (T.ref) by the rule that Backup.tla proves for deterministic runs replayed exactly.
\*   due:    SameHistory is demanded for this (cause of the uninterrupted run, counter policy)
\*   same:   the final history is the one of the uninterrupted run, and the run ended for the same cause
\*   prefix: the history of the uninterrupted run is the beginning of the final history
\*   count:  the real evaluation counter is the model's (evidence only: not a clause of the property)
TDone      == /\ IsEv("done") /\ Db(Ev.db) = db /\ executing = 0
              /\ PrintT(<<"DONE", T.id,
                          [due    |-> (T.exact = 1 /\ SameHistoryDue(refcause, wasReset)),
                           same   |-> (db = refdb /\ Ev.cause = refcause),
                           prefix |-> IsPrefixDb(refdb, db),
                           count  |-> (Ev.counter = counter),
                           cause  |-> Ev.cause, refcause |-> refcause, policy |-> policy,
                           counter |-> counter, entries |-> Len(db), loaded |-> Len(loaded)]>>)
              /\ cause' = Ev.cause /\ ended' = TRUE
              /\ UNCHANGED <<bvars, plan, near, maxIter, pos, sub, ran, phase, refdb, refcause>>

TNext == TExecStart \/ TExecEnd \/ TStore \/ TExport \/ TDone
TSpec == TInit /\ [][TNext]_tvars

Reach == TLCSet(tid, IF TLCGet(tid) < l THEN l ELSE TLCGet(tid))
RegInit == \A i \in 1..Len(Traces) : TLCSet(i, 0)
ASSUME RegInit
Accepted == \A i \in 1..Len(Traces) :
   PrintT(<<"TRACE", Traces[i].id, TLCGet(i) - 1, Len(Traces[i].events)>>)
================================================================================
