--------------------------- MODULE OptHistoryReport ---------------------------
(***************************************************************************)
(* code -> spec for C04: the answers of the real gemseo objects, judged by *)
(* the relation of OptHistory.                                             *)
(*                                                                         *)
(* Every instance enumerated by OptHistory is built as a real Database +   *)
(* OptimizationProblem (harness/checks/c04_replay.py); what                *)
(*   problem.optimum, OptimizationResult.from_optimization_problem,        *)
(*   history.last_point and history.feasible_points                        *)
(* answered is written, in the integer vocabulary of the specification, to *)
(* a JSON batch.  One initial state per report; the invariant Judge prints *)
(* the first clause of the relation that each answer breaks ("ok": none).  *)
(*                                                                         *)
(*  report = [c, h,  opt  : [idx, feas, f, c, g], optb  (FALSE: it raised),*)
(*            res  : [built, idx, oi, feas, f, c, g],                      *)
(*            last : [idx, feas, f, c, g],        lastb,                   *)
(*            fp   : <<indices of the feasible points>>, fpb,              *)
(*            vm   : <<[feas, v]>> check_design_point_is_feasible per point, vmb] *)
(***************************************************************************)
EXTENDS OptHistory

Reports == JsonDeserialize(IOEnv.TRACE_FILE)

VARIABLE tid
R == Reports[tid]

RInit == /\ tid \in 1..Len(Reports)
         /\ inst = [c |-> Reports[tid].c, h |-> Reports[tid].h]
RNext == UNCHANGED <<inst, tid>>

OptV  == IF R.optb THEN Verdict(C, H, R.opt) ELSE "Raised"
MeasV == IF R.vmb THEN MeasureVerdict(C, H, R.vm) ELSE "Raised"
Judge == PrintT(ToJson(<<"V", tid,
                         HistoryClass(C, H),
                         OptV,
                         IF R.optb THEN Why(C, H, R.opt, OptV) ELSE "-",
                         ResultVerdict(C, H, R.res),
                         IF R.res.built THEN Why(C, H, AsSolution(C, R.res), Verdict(C, H, AsSolution(C, R.res))) ELSE "-",
                         IF R.lastb THEN LastVerdict(C, H, R.last) ELSE "Raised",
                         IF R.fpb THEN FeasiblePointsVerdict(C, H, R.fp) ELSE "Raised",
                         MeasV,
                         IF R.vmb THEN MeasureWhy(C, H, R.vm, MeasV) ELSE "-">>))

\* the relation itself (not only its diagnostic) is evaluated on every accepted report
JudgeIsRelation == /\ (R.optb /\ OptV = "ok") => Acceptable(C, H, R.opt)
                   /\ (ResultVerdict(C, H, R.res) = "ok") => ResultAcceptable(C, H, R.res)
================================================================================
