------------------------------- MODULE MatC09 -------------------------------
(* Small exact integer matrices for ChainRule (C09).  A matrix is a sequence *)
(* of rows, a row a sequence of integers; all matrices have >= 1 row and    *)
(* >= 1 column (variable sizes are 1..2).  A vector is a sequence of ints.  *)
(* (specs/Mat.tla belongs to C07 and carries determinants/adjugates; only   *)
(* the ring operations are needed here, so this module stands alone.)       *)
EXTENDS Integers, Sequences

NRows(A) == Len(A)
NCols(A) == Len(A[1])
Shape(A) == <<NRows(A), NCols(A)>>

Zero(m, n)  == [r \in 1..m |-> [c \in 1..n |-> 0]]
Ident(n)    == [r \in 1..n |-> [c \in 1..n |-> IF r = c THEN 1 ELSE 0]]
ZeroVec(n)  == [r \in 1..n |-> 0]

IsMat(A, m, n, lo, hi) ==
    /\ Len(A) = m
    /\ \A r \in 1..m : (Len(A[r]) = n /\ \A c \in 1..n : A[r][c] \in lo..hi)

MAdd(A, B) == [r \in 1..NRows(A) |-> [c \in 1..NCols(A) |-> A[r][c] + B[r][c]]]
MNeg(A)    == [r \in 1..NRows(A) |-> [c \in 1..NCols(A) |-> 0 - A[r][c]]]
MT(A)      == [r \in 1..NCols(A) |-> [c \in 1..NRows(A) |-> A[c][r]]]

\* sum_{k=1..n} f(k), n >= 0
RECURSIVE SumTo(_, _)
SumTo(f, n) == IF n = 0 THEN 0 ELSE f[n] + SumTo(f, n - 1)

MMul(A, B) == [r \in 1..NRows(A) |-> [c \in 1..NCols(B) |->
                 SumTo([k \in 1..NCols(A) |-> A[r][k] * B[k][c]], NCols(A))]]
MVec(A, x) == [r \in 1..NRows(A) |-> SumTo([k \in 1..NCols(A) |-> A[r][k] * x[k]], NCols(A))]
VAdd(x, y) == [r \in 1..Len(x) |-> x[r] + y[r]]
VSquare(x) == [r \in 1..Len(x) |-> x[r] * x[r]]
\* A . diag(d): column c scaled by d[c]
MScaleCols(A, d) == [r \in 1..NRows(A) |-> [c \in 1..NCols(A) |-> A[r][c] * d[c]]]
=============================================================================
