--------------------------- MODULE DerivApproxHist ---------------------------
(* C16 - HISTORIES on one gradient approximator object.                        *)
(*                                                                            *)
(* DerivApprox enumerates single calls.  Here one approximator (FirstOrderFD,  *)
(* CenteredDifferences or ComplexStep over one function of the catalogue) is   *)
(* bound to a mutable design space and lives through a behaviour:              *)
(*   Approximate(x, ix, dfl, st)  f_gradient(x, x_indices, step) - st is the   *)
(*                                object's default step or a step of the call  *)
(*   SetUpperBound(c, v)          design_space.set_upper_bound (v may be Inf)  *)
(*   SetLowerBound(c, v)          design_space.set_lower_bound                 *)
(*   SetStep(h)                   approximator.step = h                        *)
(*   Return                       (the call is over: its record is dropped)    *)
(* A call computes, BY THE DEFINITIONS OF DerivApprox, the Jacobian and the    *)
(* evaluation points of the instance made of the object's state AT THE TIME OF *)
(* THE CALL: the variables inst / jac / pts / aux of DerivApprox hold the last  *)
(* call, so that Shape, WithinBounds, OneComponent, ErrorEqualsOrderTerm and   *)
(* OrderBound are the very same formulas - WithinBounds refers to inst.lb and  *)
(* inst.ub, the bounds (in the coordinates of the function) when the call was  *)
(* made.  Nothing of an earlier call or of an earlier state of the design      *)
(* space is part of the meaning.                                               *)
(*                                                                            *)
(* `last` (what the object has seen at its previous call) is a history         *)
(* variable: it does not occur in the meaning of a call, it keeps apart the    *)
(* states "bounds/step changed since the previous call" so that the transition *)
(* tour replayed on real objects takes every call in every such context.       *)
(* Normalised function (ds = "norm"): component c of the function's argument   *)
(* is the normalised variable when both bounds are finite (then its bounds are *)
(* 0 and 1), the variable itself otherwise - setting or removing a bound       *)
(* changes the coordinates' bounds from/to infinity.                           *)
EXTENDS DerivApprox

CONSTANTS MaxMut    \* number of mutations (bounds, step) in a behaviour

VARIABLES obj,      \* [fid, meth, ds]: the approximator and how it is bound to the design space
          lbs, ubs, \* physical bounds of the design space (scale S; -Inf / Inf: unbounded)
          dstep,    \* the default step of the object
          last,     \* [valid, lbs, ubs, dstep]: the object's state at its previous call
          nmut
hvars == <<obj, lbs, ubs, dstep, last, nmut>>

Inf == 64 * S
HN == Funs[obj.fid].n
Normalized(c) == obj.ds = "norm" /\ lbs[c] > -Inf /\ ubs[c] < Inf
FLb(c) == IF Normalized(c) THEN 0 ELSE lbs[c]
FUb(c) == IF Normalized(c) THEN S ELSE ubs[c]

\* value sets: the LAST component carries the upper-bound changes, the FIRST one the
\* lower-bound changes and the change of normalisation status (bounded / unbounded above)
UbVals(c) == IF c = HN THEN {S \div 2, S, Inf} ELSE {S, Inf}
LbVals(c) == IF c = 1 THEN {-2 * S, 0} ELSE {-2 * S}
DStepVals == {S \div 8, S \div 64}
\* steps of a call: the default step of the object ("default"), or an explicit one
StepKinds == IF Rich THEN {"default", "vector", "scalar"} ELSE {"default", "vector"}
StepOf(k) == IF k = "default" THEN [sk |-> "default", hc |-> <<dstep, dstep, dstep>>]
             ELSE IF k = "vector" THEN [sk |-> "vector", hc |-> <<S \div 16, S \div 8, S \div 64>>]
             ELSE [sk |-> "scalar", hc |-> <<S \div 32, S \div 32, S \div 32>>]
HIdx == IF Rich THEN AscSeqs(HN) ELSE {<<HN>>, [k \in 1..HN |-> k]}

\* coordinates of component c: on / within one step of every finite upper-bound value of
\* the component, zero (on the lower bound 0 when it is set)
HCand(c, h) ==
  LET ah == Abs(h)
      ubv == UbVals(c) \ {Inf}
  IN {v \in (IF obj.meth = "cs" THEN {S, S \div 2, 0}
             ELSE IF c = HN THEN UNION {{B, B - ah \div 2} : B \in ubv} \cup {0}
             ELSE {S - ah \div 2, 0}) :
        FLb(c) <= v /\ v <= FUb(c)}
IsPoint(x, hc) == Len(x) = HN /\ \A c \in 1..HN : x[c] \in HCand(c, hc[c])
\* constant supersets of the parameters (TLC labels the edges of the dumped graph with the
\* parameter values of an action only when the quantifier bounds are constants)
MaxN == 2
Lattice == {S, S \div 2, 0}
           \cup {B - a \div 2 : B \in {S, S \div 2}, a \in {S \div 8, S \div 16, S \div 32, S \div 64}}
PointsAll == UNION {[1..n -> Lattice] : n \in 1..MaxN}
IdxAll == UNION {AscSeqs(n) : n \in 1..MaxN}
BoundVals == {-2 * S, 0, S \div 2, S, Inf}

Snap == [valid |-> TRUE, lbs |-> lbs, ubs |-> ubs, dstep |-> dstep]
\* nothing changed since the previous call (or no call yet): such calls are the single
\* calls of DerivApprox; only probing calls (all components, default step) are taken there
Fresh == ~last.valid \/ last = Snap

HInit ==
  /\ \E fid \in (IF Rich THEN {1, 5} ELSE {5}), me \in {"fd", "cd", "cs"} :
     \E d \in (IF me = "cs" /\ ~Rich THEN {"none", "phys"} ELSE {"none", "phys", "norm"}) :
       obj = [fid |-> fid, meth |-> me, ds |-> d]
  /\ lbs = [c \in 1..HN |-> -2 * S]
  /\ ubs = [c \in 1..HN |-> S]
  /\ dstep = S \div 8
  /\ last = [valid |-> FALSE, lbs |-> lbs, ubs |-> ubs, dstep |-> dstep]
  /\ nmut = 0
  /\ phase = "idle" /\ inst = <<>> /\ jac = <<>> /\ pts = {} /\ out = <<>> /\ aux = <<>>

CallInst(x, ix, dfl, st) ==
  [lvl |-> "approx", fid |-> obj.fid, meth |-> obj.meth, ds |-> obj.ds,
   lb |-> [c \in 1..HN |-> FLb(c)], ub |-> [c \in 1..HN |-> FUb(c)],
   idx |-> ix, dflt |-> dfl, sk |-> (IF st.sk = "default" THEN "scalar" ELSE st.sk),
   dfs |-> (st.sk = "default"), sf |-> "real",
   hs |-> [j \in 1..Len(ix) |-> st.hc[ix[j]]], X |-> x]

Approximate(x, ix, dfl, sk) ==
  /\ phase = "idle"
  /\ (Fresh => dfl /\ sk = "default")
  /\ ix \in HIdx /\ (dfl => ix = [k \in 1..HN |-> k])
  /\ IsPoint(x, StepOf(sk).hc)
  /\ LET st == StepOf(sk)
         I == CallInst(x, ix, dfl, st)
         A == AuxApprox(I)
     IN /\ inst' = I
        /\ aux' = (IF Emit THEN <<>> ELSE A)
        /\ jac' = JacFrom(I, A)
        /\ pts' = PtsApprox(I)
  /\ phase' = "done"
  /\ out' = <<>>
  /\ last' = Snap
  /\ UNCHANGED <<obj, lbs, ubs, dstep, nmut>>

Return ==
  /\ phase = "done"
  /\ phase' = "idle" /\ inst' = <<>> /\ jac' = <<>> /\ pts' = {} /\ aux' = <<>>
  /\ UNCHANGED <<out, obj, lbs, ubs, dstep, last, nmut>>

Mutation ==
  /\ phase = "idle" /\ nmut < MaxMut /\ nmut' = nmut + 1
  /\ UNCHANGED <<inst, phase, jac, pts, out, aux, obj, last>>
SetUpperBound(c, v) ==
  /\ c <= HN /\ v \in UbVals(c)
  /\ Mutation /\ obj.ds # "none" /\ v # ubs[c] /\ v > lbs[c]
  /\ ubs' = [ubs EXCEPT ![c] = v] /\ UNCHANGED <<lbs, dstep>>
SetLowerBound(c, v) ==
  /\ c <= HN /\ v \in LbVals(c)
  /\ Mutation /\ obj.ds # "none" /\ v # lbs[c] /\ v < ubs[c]
  /\ lbs' = [lbs EXCEPT ![c] = v] /\ UNCHANGED <<ubs, dstep>>
SetStep(h) ==
  /\ Mutation /\ h # dstep
  /\ dstep' = h /\ UNCHANGED <<lbs, ubs>>

HNext ==
  \/ \E x \in PointsAll, ix \in IdxAll, dfl \in BOOLEAN, sk \in StepKinds : Approximate(x, ix, dfl, sk)
  \/ Return
  \/ \E c \in 1..MaxN, v \in BoundVals : SetUpperBound(c, v)
  \/ \E c \in 1..MaxN, v \in BoundVals : SetLowerBound(c, v)
  \/ \E h \in DStepVals : SetStep(h)

HSpec == HInit /\ [][HNext]_<<vars, hvars>>

-------------------------------------------------------------------------------
\* the instance of a call is made of the object's state at the time of the call
BoundsAtCallTime ==
  Done => /\ inst.lb = [c \in 1..HN |-> FLb(c)]
          /\ inst.ub = [c \in 1..HN |-> FUb(c)]
          /\ last = Snap
          /\ (inst.dfs => \A j \in 1..Len(inst.idx) : inst.hs[j] = dstep)
\* the evaluation points lie in the box of the time of the call (WithinBounds of
\* DerivApprox, stated on the current state of the design space)
WithinCurrentBounds ==
  Done /\ obj.ds # "none" =>
    \A p \in pts : \A c \in 1..HN : FLb(c) <= p[c][1] /\ p[c][1] <= FUb(c)
===============================================================================
