---------------------------- MODULE DiscCacheTrace ----------------------------
(* C05, code -> spec: what the real gemseo discipline + cache returned along a replayed *)
(* history (recorded by harness/checks/c05.py) is fed, event by event, into the history *)
(* variables of DiscCache, and TLC evaluates every clause of the property in every      *)
(* state of every trace.  A batch of traces of one (Kind, Tol) configuration per run.   *)
(* A trace has a value kind (field vkind, see DiscCache).                                *)
(* Events (JSON objects, all fields always present):                                    *)
(*   op in "exec" | "lin"  : c (cell or "lit"), x = [xi, zi] the completed input AT CALL *)
(*                            TIME, after (lattice index in the caller's array afterwards), *)
(*                            hasOut, src, ran, req, jl, jsrc, lin  as in DiscCache!ret *)
(*                            (src / jsrc = [0, 0] when the returned value is not the   *)
(*                            value of any lattice point); relin: the members of a      *)
(*                            process discipline were re-executed during linearization; *)
(*   op = "mutate"          : c, v  (in-place edit of the caller's array), same (the    *)
(*                            entries shown by the cache are those shown before the edit)*)
(*   op in "clear" | "setcache" : the cache was emptied                                  *)
(*   op = "reopen"          : same (entries of the new object = entries of the old one) *)
(*   op = "setdiff"         : no effect on the history                                  *)
EXTENDS DiscCache, Json, IOUtils, TLCExt
Traces == JsonDeserialize(IOEnv.TRACE_FILE)
VARIABLES tid, l
tvars == <<avars, tid, l>>
T  == Traces[tid]
Ev == T.events[l]
Pt(a) == <<a[1], a[2]>>
Rec(e) == [op |-> e.op, x |-> Pt(e.x), hasOut |-> e.hasOut, src |-> Pt(e.src), ran |-> e.ran,
           req |-> e.req, jl |-> e.jl, jsrc |-> Pt(e.jsrc), lin |-> e.lin]

TInit == /\ cell = [c \in Cells |-> IF c = "c1" THEN 1 ELSE 2]
         /\ HInit
         /\ tid \in 1..Len(Traces)
         /\ vkind = Traces[tid].vkind
         /\ l = 1
Step == l <= Len(T.events) /\ l' = l + 1 /\ UNCHANGED tid
\* the recorded input of a call through a cell is the content of that cell (recorder sanity)
TCall    == /\ Step /\ Ev.op \in {"exec", "lin"}
            /\ (Ev.c \in Cells => Ev.x[1] = cell[Ev.c])
            /\ ObserveX(Rec(Ev), Ev.relin)
            \* after: content of the caller's array after the call (a self-coupled discipline whose body
            \* updates its input in place has changed it)
            /\ cell' = IF Ev.c \in Cells THEN [cell EXCEPT ![Ev.c] = Ev.after] ELSE cell
TMutate  == /\ Step /\ Ev.op = "mutate"
            /\ cell' = [cell EXCEPT ![Ev.c] = Ev.v] /\ ObserveMutate(Ev.same)
TReset   == /\ Step /\ Ev.op \in {"clear", "setcache"}
            /\ ObserveReset /\ UNCHANGED cell
TReopen  == /\ Step /\ Ev.op = "reopen"
            /\ ObserveReopen(Ev.same) /\ UNCHANGED cell
TOther   == /\ Step /\ Ev.op = "setdiff" /\ UNCHANGED avars
TNext == TCall \/ TMutate \/ TReset \/ TReopen \/ TOther

\* verdicts: one line per (trace, event index, clause) that does not hold after that event
Says(name, holds) == holds \/ PrintT(<<"BAD", T.id, l - 1, name>>)
Diag == /\ Says("TransparentOut", TransparentOut)
        /\ Says("TransparentJac", TransparentJac)
        /\ Says("AtMostOnce", AtMostOnce)
        /\ Says("SimpleKeepsLast", SimpleKeepsLast)
        /\ Says("ReopenSame", ReopenSame)
        /\ Says("Uncached", Uncached)
        /\ Says("CallerCannotCorrupt", CallerCannotCorrupt)
\* acceptance: every event of every trace was consumed (registers; -workers 1)
Reach == /\ TLCSet(tid, IF TLCGet(tid) < l THEN l ELSE TLCGet(tid))
         /\ Diag
RegInit == \A i \in 1..Len(Traces) : TLCSet(i, 0)
ASSUME RegInit
Accepted == \A i \in 1..Len(Traces) :
   PrintT(<<"TRACE", Traces[i].id, TLCGet(i) - 1, Len(Traces[i].events)>>)
================================================================================
