----------------------------- MODULE ProblemLife -----------------------------
(* G06 (specification growth): the life cycle of an OptimizationProblem under any sequence of   *)
(* public calls                                                                                 *)
(*   src/gemseo/algos/evaluation_problem.py   add_observable / preprocess_functions /           *)
(*                                            evaluate_functions / reset / check                *)
(*   src/gemseo/algos/optimization_problem.py add_constraint / functions / reset                *)
(*   src/gemseo/algos/problem_function.py     evaluate / jac / n_calls                          *)
(*   src/gemseo/algos/database.py             store / new-iteration listeners / clear           *)
(*   src/gemseo/algos/evaluation_counter.py   current / maximum                                 *)
(* One action per public call.  The problem has an objective "f", at most one constraint "g"    *)
(* and at most one observable "o"; an observable added with new_iter=True sits in TWO lists      *)
(* (observables and new_iter_observables): slot "o" and its twin slot "n".  A slot is wrapped    *)
(* (a ProblemFunction around the original MDOFunction) or not.                                   *)
(*                                                                                               *)
(* n_calls exists on wrappers only; reset() nevertheless reads and writes `n_calls` on whatever  *)
(* sits in the lists, so an ORIGINAL function may carry a planted attribute (ocalls, Absent when *)
(* it has none and reading it raises AttributeError).                                            *)
(*                                                                                               *)
(* Rules AS CODED behind constant switches (the harness replays the as-coded values; TLC refutes *)
(* the documented clause under them and proves it under the other value):                        *)
(*   SharedOriginal = TRUE       the observable and its new-iteration twin wrap the SAME original*)
(*                               object, so the n_calls that reset(function_calls=False,        *)
(*                               preprocessing=True) hands back is written twice on one object  *)
(*                               and the twin's count wins                                       *)
(*   NewIterCallsCleared = FALSE reset(function_calls=True) walks problem.functions, which does  *)
(*                               not contain the new-iteration twins                             *)
(*   LateAdd = TRUE              add_constraint / add_observable are accepted on a preprocessed  *)
(*                               problem; the function is never wrapped                          *)
EXTENDS Naturals, Integers, FiniteSets, Sequences, TLC

\* (a configuration file has no records: an argument made of flags is the SET of the flags that are true)
CONSTANTS Points,        \* physical design points (one variable x in [0, 4]: the normalized value of p is p/4), e.g. {1, 2}
          Starts,        \* how the problem is built, sets \subseteq {"g", "o", "n", "att", "nox0"}: with a constraint, with an
                         \* observable, the observable is also a new-iteration one, the driver's listeners are attached,
                         \* the design space has no current value (otherwise it is X0)
          PreOpts,       \* arguments of preprocess_functions, sets \subseteq {"norm", "db"}
          ResetFlags,    \* arguments of reset, sets \subseteq {"db", "it", "ds", "fc", "pp"}
          EvalForms,     \* \subseteq {"norm", "phys", "cur"}: how evaluate_functions gets its point
          EvalJac,       \* \subseteq BOOLEAN: evaluate_functions(..., jacobian_functions=())
          DirectSlots,   \* slots whose function is evaluated directly (function.evaluate(x))
          JacSlots,      \* slots whose Jacobian is evaluated directly (function.jac(x))
          Maxs,          \* values given to evaluation_counter.maximum (0 = unlimited)
          Acts,          \* the action families enabled in this run
          LateAdd, SharedOriginal, NewIterCallsCleared,
          MaxResets, MaxSteps

Slots   == {"f", "g", "o", "n"}
Fns     == {"f", "g", "o"}
Fn(s)   == IF s = "n" THEN "o" ELSE s             \* the original function behind a slot
Grad(n) == CASE n = "f" -> "@f" [] n = "g" -> "@g" [] n = "o" -> "@o"
Names   == Fns \cup {Grad(n) : n \in Fns}          \* what the database stores
Absent  == -1                                      \* no n_calls attribute
NoPoint == 0                                       \* no current value
X0      == 1                                       \* the current value the design space is built with
AllOpts  == [norm : BOOLEAN, db : BOOLEAN]
NoOpts   == [norm |-> FALSE, db |-> FALSE]
Opts(S)  == [norm |-> "norm" \in S, db |-> "db" \in S]
Flags(S) == [db |-> "db" \in S, it |-> "it" \in S, ds |-> "ds" \in S, fc |-> "fc" \in S, pp |-> "pp" \in S]

VARIABLES x0,       \* the current value captured when the problem was built (NoPoint: none)
          cur,      \* design_space current value
          pre,      \* _functions_are_preprocessed
          opts,     \* the options of the preprocessing in force
          present,  \* Slots -> BOOLEAN
          wrapped,  \* Slots -> BOOLEAN
          inorm,    \* Slots -> BOOLEAN: expects_normalized_inputs of what sits in the slot
          wcalls,   \* Slots -> Nat: n_calls of the wrapper (0 when not wrapped)
          ocalls,   \* Slots -> Int: n_calls attribute of the original function behind the slot
          runs,     \* Fns -> Nat: how many times the callable really ran (counted inside the callable)
          jruns,    \* Fns -> Nat: the same for the Jacobian callable
          db,       \* Points -> SUBSET Names ({}: no entry)
          ord,      \* the points of the database in insertion order
          cnt, max, \* evaluation_counter.current / .maximum
          obsL,     \* new_iter_observables.evaluate is a new-iteration listener of the database
          cntL,     \* the driver's counting callback is a new-iteration listener of the database
          nResets,
          last,     \* what the last call did
          steps
core == <<x0, cur, pre, opts, present, wrapped, inorm, wcalls, ocalls, runs, jruns, db, ord, cnt, max, obsL, cntL>>
vars == <<core, nResets, last, steps>>

Empty == <<>>
Ext(f, k, v) == [x \in DOMAIN f \cup {k} |-> IF x = k THEN v ELSE f[x]]
NoCall(a) == [act |-> a, outcome |-> "ok", arg |-> Empty, seen |-> {}, ran |-> [fn \in Fns |-> 0], ret |-> Empty]

P == {s \in Slots : present[s]}
Broken == pre /\ ~wrapped["f"]          \* left by a reset that failed half-way; only Preprocess is modelled then
ExpectsNorm(s) == inorm[s]
MaxReached(c) == max # 0 /\ c >= max
\* the n_calls a caller reads on what sits in slot s
Vis(w, wc, oc, s) == IF w[s] THEN wc[s] ELSE oc[s]
\* writing the n_calls attribute of the original function behind slot s
SetO(oc, s, v) == IF SharedOriginal /\ s \in {"o", "n"}
                  THEN [t \in Slots |-> IF t \in {"o", "n"} THEN v ELSE oc[t]]
                  ELSE [oc EXCEPT ![s] = v]

TypeOK ==
  /\ x0 \in Points \cup {NoPoint} /\ cur \in Points \cup {NoPoint} /\ pre \in BOOLEAN /\ opts \in AllOpts
  /\ present \in [Slots -> BOOLEAN] /\ wrapped \in [Slots -> BOOLEAN] /\ inorm \in [Slots -> BOOLEAN]
  /\ wcalls \in [Slots -> Nat] /\ ocalls \in [Slots -> Nat \cup {Absent}]
  /\ runs \in [Fns -> Nat] /\ jruns \in [Fns -> Nat]
  /\ db \in [Points -> SUBSET Names] /\ ord \in Seq(Points)
  /\ cnt \in Nat /\ max \in Nat /\ obsL \in BOOLEAN /\ cntL \in BOOLEAN
  /\ steps \in 0..MaxSteps /\ nResets \in 0..MaxResets

Init ==
  \E st \in Starts :
    /\ x0 = (IF "nox0" \in st THEN NoPoint ELSE X0) /\ cur = x0 /\ pre = FALSE /\ opts = NoOpts
    /\ ("n" \in st => "o" \in st)
    /\ present = [s \in Slots |-> s = "f" \/ s \in st]
    /\ wrapped = [s \in Slots |-> FALSE] /\ inorm = [s \in Slots |-> FALSE] /\ wcalls = [s \in Slots |-> 0] /\ ocalls = [s \in Slots |-> Absent]
    /\ runs = [fn \in Fns |-> 0] /\ jruns = [fn \in Fns |-> 0]
    /\ db = [p \in Points |-> {}] /\ ord = <<>> /\ cnt = 0 /\ max = 0
    /\ obsL = ("att" \in st /\ "n" \in st) /\ cntL = ("att" \in st)
    /\ nResets = 0 /\ last = NoCall("none") /\ steps = 0

Step(a) == steps < MaxSteps /\ steps' = steps + 1 /\ a \in Acts

\* ----------------------------------------------------------------- building the problem
AddConstraint ==
  /\ Step("Add") /\ ~Broken /\ ~present["g"] /\ (LateAdd \/ ~pre)
  /\ present' = [present EXCEPT !["g"] = TRUE]
  /\ last' = NoCall("AddConstraint")
  /\ UNCHANGED <<x0, cur, pre, opts, wrapped, inorm, wcalls, ocalls, runs, jruns, db, ord, cnt, max, obsL, cntL, nResets>>
\* an observable whose name is already observed is ignored (a warning is logged)
AddObservable(newIter) ==
  /\ Step("Add") /\ ~Broken /\ (LateAdd \/ ~pre)
  /\ present' = IF present["o"] THEN present ELSE [present EXCEPT !["o"] = TRUE, !["n"] = newIter]
  /\ last' = [NoCall("AddObservable") EXCEPT !.outcome = IF present["o"] THEN "ignored" ELSE "ok"]
  /\ UNCHANGED <<x0, cur, pre, opts, wrapped, inorm, wcalls, ocalls, runs, jruns, db, ord, cnt, max, obsL, cntL, nResets>>

\* preprocess_functions(is_function_input_normalized=o.norm, use_database=o.db): returns at once when the
\* functions are flagged as preprocessed; otherwise wraps what the lists contain now
Preprocess(os) ==
  /\ Step("Preprocess")
  /\ last' = [NoCall("Preprocess") EXCEPT !.arg = Opts(os), !.outcome = IF pre THEN "ignored" ELSE "ok"]
  /\ IF pre THEN UNCHANGED <<pre, opts, wrapped, inorm, wcalls>>
     ELSE /\ pre' = TRUE /\ opts' = Opts(os) /\ wrapped' = present /\ wcalls' = [s \in Slots |-> 0]
          \* the twins are wrapped without normalization: the listeners get the physical point
          /\ inorm' = [s \in Slots |-> present[s] /\ "norm" \in os /\ s # "n"]
  /\ UNCHANGED <<x0, cur, present, ocalls, runs, jruns, db, ord, cnt, max, obsL, cntL, nResets>>

SetCurrent(p) ==
  /\ Step("SetCurrent") /\ ~Broken /\ p # cur /\ cur' = p
  /\ last' = NoCall("SetCurrent")
  /\ UNCHANGED <<x0, pre, opts, present, wrapped, inorm, wcalls, ocalls, runs, jruns, db, ord, cnt, max, obsL, cntL, nResets>>

\* what a driver does when it starts: problem.add_listener(new_iter_observables.evaluate) when there is a
\* new-iteration observable, problem.add_listener(counting callback); a listener is registered once
Attach ==
  /\ Step("Listen") /\ ~Broken
  /\ obsL' = (obsL \/ present["n"]) /\ cntL' = TRUE
  /\ (obsL' # obsL \/ ~cntL)
  /\ last' = NoCall("Attach")
  /\ UNCHANGED <<x0, cur, pre, opts, present, wrapped, inorm, wcalls, ocalls, runs, jruns, db, ord, cnt, max, nResets>>
Detach ==       \* database.clear_listeners()
  /\ Step("Listen") /\ ~Broken /\ (obsL \/ cntL)
  /\ obsL' = FALSE /\ cntL' = FALSE
  /\ last' = NoCall("Detach")
  /\ UNCHANGED <<x0, cur, pre, opts, present, wrapped, inorm, wcalls, ocalls, runs, jruns, db, ord, cnt, max, nResets>>
SetMax(m) ==    \* evaluation_counter.maximum = m
  /\ Step("SetMax") /\ ~Broken /\ m # max /\ max' = m
  /\ last' = NoCall("SetMax")
  /\ UNCHANGED <<x0, cur, pre, opts, present, wrapped, inorm, wcalls, ocalls, runs, jruns, db, ord, cnt, obsL, cntL, nResets>>
DbClear ==      \* database.clear()
  /\ Step("DbClear") /\ ~Broken /\ ord # <<>>
  /\ db' = [p \in Points |-> {}] /\ ord' = <<>>
  /\ last' = NoCall("DbClear")
  /\ UNCHANGED <<x0, cur, pre, opts, present, wrapped, inorm, wcalls, ocalls, runs, jruns, cnt, max, obsL, cntL, nResets>>
Check ==        \* problem.check()
  /\ Step("Check") /\ ~Broken
  /\ last' = NoCall("Check")
  /\ UNCHANGED <<core, nResets>>

\* ----------------------------------------------------------------- evaluations
\* the part of the state an evaluation works on
M0 == [db |-> db, ord |-> ord, cnt |-> cnt, wc |-> wcalls, runs |-> runs, jruns |-> jruns,
       seen |-> {}, ran |-> [fn \in Fns |-> 0], ret |-> Empty, exc |-> "none"]
\* the callable of fn really runs on the vector it is handed (sp: which space that vector lives in)
RunF(m, fn, p, sp) == [m EXCEPT !.runs[fn] = @ + 1, !.seen = @ \cup {<<fn, "f", p, sp>>}, !.ran[fn] = @ + 1]
RunJ(m, fn, p, sp) == [m EXCEPT !.jruns[fn] = @ + 1, !.seen = @ \cup {<<fn, "j", p, sp>>}]
Put(m, p, name) == [m EXCEPT !.db[p] = @ \cup {name}, !.ord = IF m.db[p] = {} THEN Append(@, p) ELSE @]
\* Database.store on an entry that had no output yet notifies the new-iteration listeners with the PHYSICAL
\* point: the new-iteration observables are evaluated (stored when they are wrapped), the counter counts
Notify(m, p) ==
  LET a == IF obsL /\ present["n"]
           THEN (IF ~wrapped["n"] THEN RunF(m, "o", p, "phys")
                 ELSE LET b == [m EXCEPT !.wc["n"] = @ + 1] IN
                      IF ~opts.db THEN RunF(b, "o", p, "phys")
                      ELSE IF "o" \in b.db[p] THEN b
                      ELSE Put(RunF(b, "o", p, "phys"), p, "o"))
           ELSE m
  IN IF cntL THEN [a EXCEPT !.cnt = @ + 1] ELSE a
\* slot s evaluated on a vector living in space sp.  A wrapper counts the call, serves a recorded value, refuses
\* a new point when the budget is spent, otherwise runs the original at the physical point and records; a
\* function that is not wrapped just runs on the vector as it is.
EvalStep(m, s, p, sp) ==
  IF m.exc # "none" THEN m
  ELSE IF ~wrapped[s] THEN [RunF(m, Fn(s), p, sp) EXCEPT !.ret = Ext(@, Fn(s), <<p, sp>>)]
  ELSE LET b == [m EXCEPT !.wc[s] = @ + 1, !.ret = Ext(@, Fn(s), <<p, "phys">>)] IN
       IF ~opts.db THEN RunF(b, Fn(s), p, "phys")
       ELSE IF Fn(s) \in b.db[p] THEN b
       ELSE IF b.db[p] = {} /\ MaxReached(b.cnt) THEN [b EXCEPT !.exc = "max_iter"]
       ELSE LET c == Put(RunF(b, Fn(s), p, "phys"), p, Fn(s)) IN
            IF b.db[p] = {} THEN Notify(c, p) ELSE c
JacStep(m, s, p, sp) ==
  IF m.exc # "none" THEN m
  ELSE IF ~wrapped[s] THEN RunJ(m, Fn(s), p, sp)
  ELSE IF ~opts.db THEN RunJ(m, Fn(s), p, "phys")
  ELSE IF Grad(Fn(s)) \in m.db[p] THEN m
  ELSE IF m.db[p] = {} /\ MaxReached(m.cnt) THEN [m EXCEPT !.exc = "max_iter"]
  ELSE LET c == Put(RunJ(m, Fn(s), p, "phys"), p, Grad(Fn(s))) IN
       IF m.db[p] = {} THEN Notify(c, p) ELSE c
\* an evaluation that raised keeps what it had already done
Apply(m, a, arg) ==
  /\ db' = m.db /\ ord' = m.ord /\ cnt' = m.cnt /\ wcalls' = m.wc /\ runs' = m.runs /\ jruns' = m.jruns
  /\ last' = [act |-> a, outcome |-> IF m.exc = "none" THEN "ok" ELSE m.exc, arg |-> arg, seen |-> m.seen,
              ran |-> m.ran, ret |-> IF m.exc = "none" THEN m.ret ELSE Empty]
  /\ UNCHANGED <<x0, cur, pre, opts, present, wrapped, inorm, ocalls, max, obsL, cntL, nResets>>

\* evaluate_functions(point): the objective, the constraints, the observables (not the twins), then - when asked -
\* their Jacobians; the vector is converted ONCE, to the space the objective expects
EvalAll(p, form, jac) ==
  /\ Step("EvalAll") /\ ~Broken /\ form \in EvalForms /\ jac \in EvalJac
  /\ (IF form = "cur" THEN p = cur ELSE p \in Points)
  /\ IF p = NoPoint
     THEN /\ last' = [NoCall("EvalAll") EXCEPT !.outcome = "key_error"]      \* no current value
          /\ UNCHANGED <<core, nResets>>
     ELSE LET sp == IF ExpectsNorm("f") THEN "norm" ELSE "phys"
              E(m, s) == IF present[s] THEN EvalStep(m, s, p, sp) ELSE m
              J(m, s) == IF jac /\ present[s] THEN JacStep(m, s, p, sp) ELSE m
          IN Apply(J(J(J(E(E(E(M0, "f"), "g"), "o"), "f"), "g"), "o"), "EvalAll", Empty)
\* function.evaluate(x) / function.jac(x) on what sits in a slot, x given in the space that function expects
\* (last.arg tells the caller which space that is)
InSpace(s) == IF ExpectsNorm(s) THEN "norm" ELSE "phys"
EvalFn(s, p) ==
  /\ Step("EvalFn") /\ ~Broken /\ s \in DirectSlots /\ present[s]
  /\ Apply(EvalStep(M0, s, p, InSpace(s)), "EvalFn", InSpace(s))
JacFn(s, p) ==
  /\ Step("JacFn") /\ ~Broken /\ s \in JacSlots /\ present[s]
  /\ Apply(JacStep(M0, s, p, InSpace(s)), "JacFn", InSpace(s))

\* ----------------------------------------------------------------- reset, in the order of the code
\* OptimizationProblem.reset: [preprocessing] read the n_calls of the objective and of the constraints, put the
\* originals back, [not function_calls] write the counts on the originals; then EvaluationProblem.reset:
\* counter, database, current value, [function_calls] zero n_calls on problem.functions and - while the flag
\* says preprocessed - on their originals, [preprocessing] the same dance for the observables and their twins,
\* and only then the flag.  Reading n_calls on an original that never got one raises AttributeError.
Reset(fs) ==
  /\ Step("Reset") /\ ~Broken /\ nResets < MaxResets /\ nResets' = nResets + 1
  /\ LET fl       == Flags(fs)
         unwrap   == fl.pp /\ pre
         v0(s)    == Vis(wrapped, wcalls, ocalls, s)
         optFails == unwrap /\ \E s \in {"f", "g"} \cap P : v0(s) = Absent
         w1  == IF unwrap THEN [s \in Slots |-> IF s \in {"f", "g"} THEN FALSE ELSE wrapped[s]] ELSE wrapped
         oc1 == IF unwrap /\ ~fl.fc
                THEN [s \in Slots |-> IF s \in {"f", "g"} \cap P THEN v0(s) ELSE ocalls[s]] ELSE ocalls
         cnt1 == IF fl.it THEN 0 ELSE cnt
         db1  == IF fl.db THEN [p \in Points |-> {}] ELSE db
         ord1 == IF fl.db THEN <<>> ELSE ord
         cur1 == IF fl.ds THEN x0 ELSE cur
         walked == IF NewIterCallsCleared THEN P ELSE P \ {"n"}          \* problem.functions
         wc2 == IF fl.fc THEN [s \in Slots |-> IF s \in walked /\ w1[s] THEN 0 ELSE wcalls[s]] ELSE wcalls
         zeroed == {s \in walked : ~w1[s] \/ pre}
         oc2 == IF fl.fc
                THEN [s \in Slots |-> IF s \in zeroed \/ (SharedOriginal /\ s \in {"o", "n"} /\ "o" \in zeroed)
                                      THEN 0 ELSE oc1[s]]
                ELSE oc1
         v2(s) == Vis(w1, wc2, oc2, s)
         obsFails == unwrap /\ \E s \in {"o", "n"} \cap P : v2(s) = Absent
         w3  == IF unwrap THEN [s \in Slots |-> FALSE] ELSE w1
         oc3 == IF unwrap /\ ~fl.fc
                THEN LET a == IF "o" \in P THEN SetO(oc2, "o", v2("o")) ELSE oc2
                     IN IF "n" \in P THEN SetO(a, "n", v2("n")) ELSE a
                ELSE oc2
         res(o) == [NoCall("Reset") EXCEPT !.arg = fl, !.outcome = o]
     IN IF optFails
        THEN \* raised before anything was touched
             /\ last' = res("attribute_error")
             /\ UNCHANGED core
        ELSE IF obsFails
        THEN \* raised after the objective and the constraints were unwrapped: the flag still says preprocessed
             /\ last' = res("attribute_error")
             /\ wrapped' = w1 /\ inorm' = [s \in Slots |-> w1[s] /\ inorm[s]] /\ wcalls' = [s \in Slots |-> IF w1[s] THEN wc2[s] ELSE 0] /\ ocalls' = oc2
             /\ cnt' = cnt1 /\ db' = db1 /\ ord' = ord1 /\ cur' = cur1
             /\ UNCHANGED <<x0, pre, opts, present, runs, jruns, max, obsL, cntL>>
        ELSE /\ last' = res("ok")
             /\ wrapped' = w3 /\ inorm' = [s \in Slots |-> w3[s] /\ inorm[s]] /\ wcalls' = [s \in Slots |-> IF w3[s] THEN wc2[s] ELSE 0] /\ ocalls' = oc3
             /\ cnt' = cnt1 /\ db' = db1 /\ ord' = ord1 /\ cur' = cur1
             /\ pre' = (pre /\ ~unwrap)
             /\ UNCHANGED <<x0, opts, present, runs, jruns, max, obsL, cntL>>

Next ==
  \/ AddConstraint
  \/ \E b \in BOOLEAN : AddObservable(b)
  \/ \E os \in PreOpts : Preprocess(os)
  \/ \E p \in Points : SetCurrent(p)
  \/ Attach \/ Detach
  \/ \E m \in Maxs : SetMax(m)
  \/ DbClear \/ Check
  \/ \E p \in Points \cup {NoPoint}, form \in {"norm", "phys", "cur"}, jac \in BOOLEAN : EvalAll(p, form, jac)
  \/ \E s \in Slots, p \in Points : EvalFn(s, p)
  \/ \E s \in Slots, p \in Points : JacFn(s, p)
  \/ \E fs \in ResetFlags : Reset(fs)
Spec == Init /\ [][Next]_vars

\* ================================================================= the contract
IsEval == last.act \in {"EvalAll", "EvalFn", "JacFn"}
V(s)   == Vis(wrapped, wcalls, ocalls, s)
VNext(s) == Vis(wrapped', wcalls', ocalls', s)
NameOf(t) == IF t[2] = "f" THEN t[1] ELSE Grad(t[1])
AllTrue == [db |-> TRUE, it |-> TRUE, ds |-> TRUE, fc |-> TRUE, pp |-> TRUE]
OkReset == last.act = "Reset" /\ last.outcome = "ok"

\* ---- clauses that hold as coded
\* a wrapper exists only under the flag; the twin of an observable follows it
WrappedUnderFlag == \A s \in Slots : wrapped[s] => (pre /\ present[s])
TwinsTogether == present["n"] => (present["o"] /\ wrapped["n"] = wrapped["o"])
\* nothing is recorded, counted or budgeted for a problem that is not preprocessed
UnpreprocessedNoRecord ==
  [][(~pre /\ last'.act \in {"EvalAll", "EvalFn", "JacFn"}) => (db' = db /\ cnt' = cnt /\ wcalls' = wcalls)]_vars
\* a second preprocess_functions changes nothing, whatever its options
SecondPreprocessNoop == [][(last'.act = "Preprocess" /\ pre) => UNCHANGED core]_vars
\* the first one - also the first one after reset(preprocessing=True) - takes its options and wraps what is there
PreprocessTakesOptions ==
  [][(last'.act = "Preprocess" /\ ~pre) =>
       (pre' /\ opts' = last'.arg /\ \A s \in Slots : (wrapped'[s] = present[s] /\ wcalls'[s] = 0))]_vars
\* a recorded value is served without running the original again; what runs is recorded (wrapped, with database)
ServedFromDatabase ==
  [][(last'.act \in {"EvalAll", "EvalFn", "JacFn"} /\ pre /\ opts.db) =>
       \A t \in last'.seen : (\E s \in Slots : Fn(s) = t[1] /\ wrapped[s])
                              => (NameOf(t) \notin db[t[3]] /\ NameOf(t) \in db'[t[3]])]_vars
\* while the counting listener is attached the counter counts the new entries of the database, within the budget
CounterCountsNewEntries ==
  [][(last'.act \in {"EvalAll", "EvalFn", "JacFn"} /\ cntL) => (cnt' - cnt = Len(ord') - Len(ord))]_vars
BudgetRespected == [][cnt' > cnt => (max = 0 \/ cnt < max)]_vars
\* reset(): each flag does its own job ...
ResetDatabaseFlag ==
  [][(last'.act = "Reset" /\ last'.outcome = "ok") =>
       IF last'.arg.db THEN ord' = <<>> /\ \A p \in Points : db'[p] = {} ELSE db' = db /\ ord' = ord]_vars
ResetIterFlag ==
  [][(last'.act = "Reset" /\ last'.outcome = "ok") => cnt' = (IF last'.arg.it THEN 0 ELSE cnt)]_vars
ResetDesignSpaceFlag ==
  [][(last'.act = "Reset" /\ last'.outcome = "ok") => cur' = (IF last'.arg.ds THEN x0 ELSE cur)]_vars
ResetPreprocessingFlag ==
  [][(last'.act = "Reset" /\ last'.outcome = "ok") =>
       IF last'.arg.pp THEN ~pre' /\ \A s \in Slots : ~wrapped'[s] ELSE pre' = pre /\ wrapped' = wrapped]_vars
\* ... and nothing else: the functions, the listeners, the budget and the captured value stay
ResetLeavesTheRest ==
  [][last'.act = "Reset" => UNCHANGED <<x0, opts, present, runs, jruns, max, obsL, cntL>>]_vars
\* reset() with every flag: as freshly built (no wrapper, no call, no record, counter at 0, captured value back)
ResetAllIsFresh ==
  (OkReset /\ last.arg = AllTrue) =>
     /\ ~pre /\ \A s \in Slots : ~wrapped[s]
     /\ \A s \in P : V(s) \in {0, Absent}
     /\ ord = <<>> /\ cnt = 0 /\ cur = x0

\* ---- documented clauses that the rules as coded refute (design-level observations)
\* function_calls=False: the n_calls one reads on every function of the problem are the same after the reset
ResetKeepsCalls ==
  [][(last'.act = "Reset" /\ last'.outcome = "ok" /\ ~last'.arg.fc) => \A s \in P : VNext(s) = V(s)]_vars
\* function_calls=True: every function of the problem reads 0
ResetClearsCalls ==
  [][(last'.act = "Reset" /\ last'.outcome = "ok" /\ last'.arg.fc) => \A s \in P : VNext(s) = 0]_vars
\* the n_calls carried by an original function never exceeds the number of times it really ran
OriginalCallsAreRealRuns == \A s \in P : ocalls[s] <= runs[Fn(s)]
\* reset never raises, and a call that raises changes nothing
ResetNeverRaises == last.act = "Reset" => last.outcome = "ok"
FailedResetChangesNothing == [][(last'.act = "Reset" /\ last'.outcome # "ok") => UNCHANGED core]_vars
\* the flag and the objective agree; under the flag every function of the problem is wrapped
NeverHalfReset == pre => wrapped["f"]
PreprocessedMeansWrapped == pre => \A s \in P : wrapped[s]
\* every original runs on the physical point, at most once per evaluate_functions
EvaluatedAtPhysicalPoint == IsEval => \A t \in last.seen : t[4] = "phys"
OncePerCall == last.act = "EvalAll" => \A fn \in Fns : last.ran[fn] <= 1
\* under the flag with a database, everything evaluate_functions returns is recorded
ReturnedIsRecorded ==
  (last.act = "EvalAll" /\ last.outcome = "ok" /\ pre /\ opts.db) =>
     \A n \in DOMAIN last.ret : n \in db[last.ret[n][1]]
=============================================================================
