---------------------------- MODULE DesignSpaceSim ----------------------------
(* C02 - behaviour generator: the actions of DesignSpaceImpl with a history        *)
(* variable recording the label of every step and the state it leads to; used     *)
(* with `tlc -simulate` (random behaviours of length Depth over larger alphabets   *)
(* than the exhaustively explored graph).  A behaviour is printed when complete.   *)
EXTENDS DesignSpaceImpl
CONSTANT Depth
VARIABLE hist
simvars == <<vars, intNorm, n2i, dimC, policy, normValid, lbC, ubC, maskC, intC, hasCur, curArrC, normCurC, hist>>
Rec(lbl) == hist' = Append(hist, [lbl |-> lbl, vars |-> vars', intNorm |-> intNorm', normValid |-> normValid',
                                  curArrC |-> curArrC', normCurC |-> normCurC'])
SInit == IInit /\ hist = <<>>
Acts ==
     \/ \E t \in TemplateIds, wv \in BOOLEAN, via \in Vias : AddVariable(t, wv, via) /\ Rec(<<"AddVariable", t, wv, via>>)
     \/ \E n \in Names : RemoveVariable(n) /\ Rec(<<"RemoveVariable", n>>)
     \/ \E n \in Names : RenameVariable(n) /\ Rec(<<"RenameVariable", n>>)
     \/ \E keep \in SUBSET Names, mode \in FilterModes : FilterVariables(keep, mode) /\ Rec(<<"FilterVariables", keep, mode>>)
     \/ \E n \in Names, S \in SUBSET (1..3) : FilterDimensions(n, S) /\ Rec(<<"FilterDimensions", n, S>>)
     \/ \E n \in Names, b \in LBSet : SetLowerBound(n, b) /\ Rec(<<"SetLowerBound", n, b>>)
     \/ \E n \in Names, b \in UBSet : SetUpperBound(n, b) /\ Rec(<<"SetUpperBound", n, b>>)
     \/ \E c \in CurChoices, form \in Forms : SetCurrentValue(c, form) /\ Rec(<<"SetCurrentValue", c, form>>)
     \/ \E n \in Names, c \in CurChoices : SetCurrentVariable(n, c) /\ Rec(<<"SetCurrentVariable", n, c>>)
     \/ InitializeMissing /\ Rec(<<"InitializeMissing">>)
     \/ ToggleIntegerNormalization /\ Rec(<<"ToggleIntegerNormalization">>)
     \/ \E kind \in QKinds : QNormalize(kind) /\ Rec(<<"QNormalize", kind>>)
     \/ QMembership /\ Rec(<<"QMembership">>)
     \/ QCurrent /\ Rec(<<"QCurrent">>)
     \/ QNormCurrent /\ Rec(<<"QNormCurrent">>)
\* The behaviour is printed by a final step, evaluated only when TLC expands the state it has CHOSEN at depth Depth
\* (an invariant would also print the unchosen successors); one value per step, steps 1..Depth are consecutive.
Finish ==
  /\ Len(hist) = Depth
  /\ \A i \in 1..Depth : PrintT(<<"STEP", i, hist[i]>>)
  /\ hist' = Append(hist, [lbl |-> <<"end">>])
  /\ UNCHANGED implvars
SNext == (Len(hist) < Depth /\ Acts) \/ Finish
SimSpec == SInit /\ [][SNext]_simvars
===============================================================================
