------------------------------ MODULE HDFStore ------------------------------
(* C11 - abstract specification of gemseo.algos.database.Database together     *)
(* with the content of the HDF5 file it is exported to (to_hdf) and reloaded   *)
(* from (from_hdf / update_from_hdf).                                          *)
(*                                                                             *)
(* A database is a sequence of entries [key, outs]; outs maps output names to  *)
(* [kind, val] (a Python float is a "scalar"; ndarrays of shape (1,), (n,),    *)
(* (m, n) are "size1", "vector", "matrix").  An entry may have no output.      *)
(* Keys are numbered by the order of their first store (the points are         *)
(* interchangeable).  The value of output n at key is the small integer        *)
(* Val(key, n), distinct for distinct (key, name): the harness turns it into   *)
(* distinguishable floats / arrays, so that "the reloaded value of n at key is *)
(* Val(key, n) with the kind of n" means names, scalar slots and array indices *)
(* stayed aligned.  Overwriting an output with a different value between two   *)
(* exports and deletions are outside the property, hence not actions.          *)
(*                                                                             *)
(* Besides its own file, the database may read files written by OTHER          *)
(* databases (update_from_hdf), at any moment between its exports: the content *)
(* of such a file is a parameter of the action UpdateFrom, not a variable.     *)
(*                                                                             *)
(* disk is the *content* of the file (what a loader must return); the way the  *)
(* file lays this content out (x / k / v / arr_i groups, index bookkeeping of  *)
(* the append mode, pending buffer) is in HDFStoreImpl, which refines this     *)
(* module.                                                                     *)
EXTENDS Naturals, Sequences, FiniteSets, TLC
CONSTANTS NKeys,       \* keys are 1..NKeys
          Names,       \* the output names in use, a subset of Universe
          Scalars,     \* names whose values are Python floats / ints
          Size1s,      \* names whose values are arrays of shape (1,)
          Vectors,     \* names whose values are arrays of shape (n,), n > 1
          Matrices,    \* names whose values are 2-D arrays
          WithProblem  \* BOOLEAN: the database belongs to an OptimizationProblem that is exported too
VARIABLES db,          \* the database in memory: sequence of entries
          pending,     \* keys stored since the last export (or since the load)
          disk,        \* content of the file: sequence of entries
          exists,      \* the file exists
          descr        \* the file holds the description of the problem (functions, solution, settings)

avars == <<db, pending, disk, exists, descr>>

\* The names the configurations choose from, in the order of Python's sorted() on str, i.e. by
\* code point ('@' = 64 < 'X' = 88 < '_' = 95 < 'a' = 97); TLC cannot compare strings, and its
\* configuration files cannot hold a tuple, hence the order is written here once.
Universe == <<"@f", "@g", "Xtra", "_h", "c", "f", "f2", "g", "obj">>
Sorted == SelectSeq(Universe, LAMBDA n : n \in Names)
Kinds == {"scalar", "size1", "vector", "matrix"}
ASSUME /\ NKeys \in Nat /\ WithProblem \in BOOLEAN
       /\ Names \subseteq {Universe[i] : i \in 1..Len(Universe)}
       /\ Scalars \cup Size1s \cup Vectors \cup Matrices = Names
       /\ Cardinality(Scalars) + Cardinality(Size1s) + Cardinality(Vectors) + Cardinality(Matrices)
            = Cardinality(Names)

KindOf(n) == IF n \in Scalars THEN "scalar" ELSE IF n \in Size1s THEN "size1"
             ELSE IF n \in Vectors THEN "vector" ELSE "matrix"
Rank(n) == CHOOSE i \in 1..Len(Sorted) : Sorted[i] = n
Val(key, n) == 10 * key + Rank(n)
Out(key, n) == [kind |-> KindOf(n), val |-> Val(key, n)]
Entry(key, names) == [key |-> key, outs |-> [n \in names |-> Out(key, n)]]
NamesOf(e) == DOMAIN e.outs
KeysOf(s) == {s[i].key : i \in DOMAIN s}
Pos(s, key) == CHOOSE i \in DOMAIN s : s[i].key = key
Min(a, b) == IF a <= b THEN a ELSE b

EntryOK(e) == /\ e.key \in 1..NKeys
              /\ NamesOf(e) \subseteq Names
              /\ \A n \in NamesOf(e) : e.outs[n] = Out(e.key, n)
TypeOK == /\ Len(db) <= NKeys /\ \A i \in DOMAIN db : EntryOK(db[i])
          /\ Len(disk) <= NKeys /\ \A i \in DOMAIN disk : EntryOK(disk[i])
          /\ pending \subseteq KeysOf(db)
          /\ exists \in BOOLEAN /\ descr \in BOOLEAN /\ (descr => exists)

Init == db = <<>> /\ pending = {} /\ disk = <<>> /\ exists = FALSE /\ descr = FALSE

\* store(x, outputs) into one database: a new point is appended, an existing one is updated
\* (dict.update: the stored value of a name present on both sides is replaced).
StoreInto(d, e) ==
  IF e.key \in KeysOf(d)
  THEN [d EXCEPT ![Pos(d, e.key)].outs =
          [n \in (DOMAIN @) \cup NamesOf(e) |-> IF n \in NamesOf(e) THEN e.outs[n] ELSE @[n]]]
  ELSE Append(d, e)

\* Database.store(x_new, {names...}) -- possibly no output at all (an empty entry)
Store(key, names) ==
  /\ key = Len(db) + 1 /\ key <= NKeys
  /\ db' = StoreInto(db, Entry(key, names))
  /\ pending' = pending \cup {key}
  /\ UNCHANGED <<disk, exists, descr>>

\* Database.store(x_existing, {new names...}); names = {} is a store that brings nothing new
StoreMore(key, names) ==
  /\ key \in KeysOf(db)
  /\ names \cap NamesOf(db[Pos(db, key)]) = {}
  /\ db' = StoreInto(db, Entry(key, names))
  /\ pending' = pending \cup {key}
  /\ UNCHANGED <<disk, exists, descr>>

\* What an append export adds: the entries of the pending keys, at their position in the
\* database; an entry already in the file keeps what it has and gains the names it lacks.
Gain(d, e) == [d EXCEPT !.outs = [n \in NamesOf(d) \cup NamesOf(e) |->
                                    IF n \in NamesOf(d) THEN d.outs[n] ELSE e.outs[n]]]
Appended ==
  LET touched == {i \in DOMAIN db : db[i].key \in pending}
      idx == (DOMAIN disk) \cup touched
      \* the file entries in index order (a hole would make the file unloadable: see NoHole)
      at(i) == IF i \in DOMAIN disk
               THEN (IF i \in touched THEN Gain(disk[i], db[i]) ELSE disk[i])
               ELSE db[i]
      order == SelectSeq([i \in 1..NKeys |-> i], LAMBDA i : i \in idx)
  IN [j \in 1..Len(order) |-> at(order[j])]

\* Database.to_hdf(path, append); without append the file is rewritten: a problem description
\* that was in it is gone
Export(append) ==
  /\ disk' = IF append /\ exists /\ disk # <<>> THEN Appended ELSE db
  /\ exists' = TRUE
  /\ descr' = (descr /\ append)
  /\ pending' = {}
  /\ UNCHANGED db

\* OptimizationProblem.to_hdf(path, append): the description (written unless appended to a file that
\* has one) and the database of the problem
ExportProblem(append) ==
  /\ WithProblem
  /\ disk' = IF append /\ exists /\ disk # <<>> THEN Appended ELSE db
  /\ exists' = TRUE
  /\ descr' = TRUE
  /\ pending' = {}
  /\ UNCHANGED db

\* the working database is replaced by Database.from_hdf(path): every loaded key is pending again
Reload ==
  /\ exists
  /\ db' = disk
  /\ pending' = KeysOf(disk)
  /\ UNCHANGED <<disk, exists, descr>>

\* db.update_from_hdf(path) into the (possibly non-empty) working database
RECURSIVE StoreAll(_, _, _)
StoreAll(d, s, i) == IF i > Len(s) THEN d ELSE StoreAll(StoreInto(d, s[i]), s, i + 1)
Update ==
  /\ exists
  /\ db' = StoreAll(db, disk, 1)
  /\ pending' = pending \cup KeysOf(disk)
  /\ UNCHANGED <<disk, exists, descr>>

\* db.update_from_hdf(other path): ANOTHER file, written by another database (another run, another
\* process, a colleague), is read into the (possibly non-empty) working database, possibly between two
\* append exports of the working database to its own file.  The other file holds any database:
\* d = <<<<key, names>>, ...>> lists its entries in the order of the file; it may bring new points,
\* new outputs at points the working database (and its file) already has, both or nothing.  The
\* points that are new to the working database are numbered as Store numbers them (by arrival), and
\* the value of output n at a point is Val(point, n) in every file (no overwriting: see the header).
\* Everything that was read is queued for the next export, as if it had been stored one by one.
ForeignOK(d) ==
  /\ \A i, j \in 1..Len(d) : d[i][1] = d[j][1] => i = j
  /\ LET new == SelectSeq(d, LAMBDA p : p[1] \notin KeysOf(db))
     IN \A i \in 1..Len(new) : new[i][1] = Len(db) + i
ForeignDb(d) == [i \in 1..Len(d) |-> Entry(d[i][1], d[i][2])]
ForeignFiles(n) == UNION {[1..m -> (1..NKeys) \X (SUBSET Names)] : m \in 1..n}
UpdateFrom(d) ==
  /\ ForeignOK(d)
  /\ db' = StoreAll(db, ForeignDb(d), 1)
  /\ pending' = pending \cup KeysOf(ForeignDb(d))
  /\ UNCHANGED <<disk, exists, descr>>

\* the working problem is replaced by OptimizationProblem.from_hdf(path)
ReloadProblem ==
  /\ WithProblem /\ descr
  /\ db' = disk
  /\ pending' = KeysOf(disk)
  /\ UNCHANGED <<disk, exists, descr>>

Next == \/ \E key \in 1..NKeys, names \in SUBSET Names : Store(key, names) \/ StoreMore(key, names)
        \/ \E a \in BOOLEAN : Export(a) \/ ExportProblem(a)
        \/ Reload
        \/ Update
        \/ ReloadProblem
        \/ \E d \in ForeignFiles(NKeys) : UpdateFrom(d)
Spec == Init /\ [][Next]_avars

-----------------------------------------------------------------------------
\* Everything in which the file differs from the database is pending.
PendingCovers ==
  /\ Len(disk) <= Len(db)
  /\ \A i \in DOMAIN db : db[i].key \notin pending => (exists /\ i <= Len(disk) /\ disk[i] = db[i])
  /\ \A i \in DOMAIN disk : disk[i].key = db[i].key /\ NamesOf(disk[i]) \subseteq NamesOf(db[i])
\* C11, first sentence: after an export the file reloads to the database.
RoundTrip == (exists /\ pending = {}) => disk = db
\* the same as a step property: whatever the history, whatever the mode (append or full), the
\* export leaves the content of the database in the file -- hence append = one final full export.
ExportStep == \E a \in BOOLEAN : Export(a) \/ ExportProblem(a)
AppendEqualsFull == [][ExportStep => disk' = db']_avars
=============================================================================
