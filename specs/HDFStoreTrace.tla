--------------------------- MODULE HDFStoreTrace ---------------------------
(* C11, code -> spec: histories of store / to_hdf / from_hdf / update_from_hdf *)
(* (from the database's own file and from files written by other databases)   *)
(* performed on a real gemseo Database (larger alphabets than the exhaustive   *)
(* graph: up to 5 points, 6 output names) are recorded with, after every       *)
(* export, the raw layout of the file read with h5py and the database that     *)
(* Database.from_hdf returns.  Every event must be a step of HDFStoreImpl, the *)
(* recorded layout must be the file' the specification computes and the        *)
(* recorded reloaded database must be its db'.                                 *)
EXTENDS HDFStoreImpl, Json, IOUtils, TLCExt
Traces == JsonDeserialize(IOEnv.TRACE_FILE)    \* <<[id, events], ...>>
VARIABLES tid, l
tvars == <<vars, tid, l>>
T == Traces[tid]
Ev == T.events[l]
ToSet(s) == {s[i] : i \in 1..Len(s)}

TInit == Init /\ tid \in 1..Len(Traces) /\ l = 1
IsEv(e) == l <= Len(T.events) /\ Ev.op = e /\ l' = l + 1 /\ UNCHANGED tid

\* recorded database [[key, outs: <<[name, kind, val], ...>>], ...] against a database of the specification
SameDb(rec, d) ==
  /\ Len(rec) = Len(d)
  /\ \A i \in 1..Len(d) :
       /\ rec[i].key = d[i].key
       /\ {<<o.name, o.kind, o.val>> : o \in ToSet(rec[i].outs)}
            = {<<n, d[i].outs[n].kind, d[i].outs[n].val>> : n \in DOMAIN d[i].outs}
       /\ Len(rec[i].outs) = Cardinality(DOMAIN d[i].outs)
\* recorded raw layout [[x, k, v, arr: <<[idx, kind, val], ...>>], ...] (in dataset order) against file
SameLayout(rec, f) ==
  /\ Contiguous(f)
  /\ Len(rec) = Cardinality(DOMAIN f)
  /\ \A i \in DOMAIN f :
       /\ rec[i].x = f[i].x
       /\ rec[i].k = f[i].k
       /\ rec[i].v = f[i].v
       /\ {<<a.idx, a.kind, a.val>> : a \in ToSet(rec[i].arr)} = {<<a.idx, a.kind, a.val>> : a \in f[i].arr}
       /\ Len(rec[i].arr) = Cardinality(f[i].arr)
\* the values the recorder stored are the ones the specification names Val(key, n)
StoredAsSpecified(key, outs) == \A o \in ToSet(outs) : o.val = Abs!Val(key, o.name) /\ o.kind = Abs!KindOf(o.name)

TStore     == IsEv("Store") /\ StoredAsSpecified(Ev.key, Ev.outs)
                 /\ Store(Ev.key, {o.name : o \in ToSet(Ev.outs)})
TStoreMore == IsEv("StoreMore") /\ StoredAsSpecified(Ev.key, Ev.outs)
                 /\ StoreMore(Ev.key, {o.name : o \in ToSet(Ev.outs)})
TExport    == IsEv("Export") /\ Export(Ev.append)
                 /\ SameLayout(Ev.layout, file')          \* ImplLayout
                 /\ SameDb(Ev.loaded, db')                \* RoundTrip: from_hdf(file) = database
                 /\ SameDb(Ev.memory, db')
TReload    == IsEv("Reload") /\ Reload /\ SameDb(Ev.memory, db')
TUpdate    == IsEv("Update") /\ Update /\ SameDb(Ev.memory, db')
\* update_from_hdf(another file): the event carries the database that file was written from
ForeignOfRec(rec) == [i \in 1..Len(rec) |-> <<rec[i].key, {o.name : o \in ToSet(rec[i].outs)}>>]
TUpdateFrom == IsEv("UpdateFrom") /\ (\A i \in 1..Len(Ev.other) : StoredAsSpecified(Ev.other[i].key, Ev.other[i].outs))
                 /\ UpdateFrom(ForeignOfRec(Ev.other)) /\ SameDb(Ev.memory, db')
\* the final full export into a second file: its reloaded content is the database (AppendEqualsFull)
TFull      == IsEv("FullCopy") /\ SameDb(Ev.loaded, db) /\ SameDb(Ev.loaded, DecodeFile(FullLayout(db)))
                 /\ UNCHANGED vars

TNext == TStore \/ TStoreMore \/ TExport \/ TReload \/ TUpdate \/ TUpdateFrom \/ TFull
TSpec == TInit /\ [][TNext]_tvars

\* acceptance: furthest event reached per trace (registers; -workers 1)
Reach == TLCSet(tid, IF TLCGet(tid) < l THEN l ELSE TLCGet(tid))
RegInit == \A i \in 1..Len(Traces) : TLCSet(i, 0)
ASSUME RegInit
Accepted == \A i \in 1..Len(Traces) :
   PrintT(<<"TRACE", Traces[i].id, TLCGet(i) - 1, Len(Traces[i].events)>>)
=============================================================================
