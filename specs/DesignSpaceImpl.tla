--------------------------- MODULE DesignSpaceImpl ---------------------------
(* C02 - implementation-shaped refinement of DesignSpace: the primary state plus  *)
(* the DERIVED state that gemseo's DesignSpace keeps, updated incrementally the   *)
(* way the code does it, with the invalidation rules the code needs for its views *)
(* to stay consistent (i.e. the rules after repair of D1, D3, D15, D16):          *)
(*   n2i       __names_to_indices          name -> <<start, stop>>                *)
(*   dimC      dimension                   running sum of the sizes               *)
(*   policy    normalize                   name -> per-component Boolean          *)
(*   normValid __norm_data_is_computed                                            *)
(*   lbC, ubC  __lower/upper_bounds_array  cached flat bounds                     *)
(*   maskC     __norm_inds                 normalised components (from policy)    *)
(*   intC      __integer_components                                               *)
(*   hasCur    __has_current_value                                                *)
(*   curArrC   __current_value_array       <<>> = not computed                    *)
(*   normCurC  __norm_current_value(_array) <<>> = not computed                   *)
(* Queries are actions here: they fill the caches.  The coherence invariants say  *)
(* that whatever a cache holds while it is valid equals the operator of the       *)
(* primary state defined in DesignSpace.  Abstraction: an invalidated cache is    *)
(* emptied (the code keeps the stale arrays behind the flag; unobservable if the  *)
(* flag is honoured - which is exactly what MemberCacheCoherence is about).       *)
(* The current-value caches are NOT emptied by an edit that leaves some variable  *)
(* without value (the code clears them only when every variable has a value):     *)
(* they stay, hidden behind hasCur, with their contents - which later edits make  *)
(* out of date - and every step that makes the value complete again must drop     *)
(* them (CurCacheCoherence).  The contents are kept in the model, as in the code, *)
(* so that "hidden and out of date" and "hidden but still right" are different    *)
(* states and the transition tour forms the histories that tell them apart.       *)
(*                                                                                *)
(* AsCoded selects, for the demonstration that the invariants are not vacuous,    *)
(* the rules as the code has them today: TLC must refute the matching invariant.  *)
EXTENDS DesignSpace

CONSTANTS AsCoded,   \* subset of {"D1","D3","D15","D16","S1"}; {} = the rules of the code (after repair of D1..D16)
          Vias,      \* subset of {"add","extend","from"}: how a variable is added
          Forms,     \* subset of {"array","dict"}: argument form of set_current_value
          QKinds,    \* subset of {"normalize","unnormalize","round","project","grad"}: which call fills the normalisation data
                     \* ("grad": normalize_grad / unnormalize_grad of the probe Jacobian in every representation of GradReprs)
          FilterModes, \* subset of {"inplace","copy"}: filter(keep) on the object itself or on the copy it returns
          Enabled    \* the actions of this module that may be taken (focused configurations switch some off)

VARIABLES n2i, dimC, policy, normValid, lbC, ubC, maskC, intC, hasCur, curArrC, normCurC
implvars == <<vars, intNorm, n2i, dimC, policy, normValid, lbC, ubC, maskC, intC, hasCur, curArrC, normCurC>>
normvars == <<normValid, lbC, ubC, maskC, intC>>

AllHave(s) == s # <<>> /\ \A i \in 1..Len(s) : s[i].hasv
Shift(r, d) == <<r[1] - d, r[2] - d>>

\* ------------------------------------------------------------------ cache rules
\* every edit of the variables resets __norm_data_is_computed
Invalidate ==
  /\ normValid' = FALSE /\ maskC' = <<>> /\ intC' = <<>>
  /\ (IF "D3" \in AsCoded THEN UNCHANGED <<lbC, ubC>> ELSE lbC' = <<>> /\ ubC' = <<>>)
\* __clear_dependent_data
ClearDep == curArrC' = <<>> /\ normCurC' = <<>>
\* __update_current_metadata: the status is recomputed; the dependent data are cleared ONLY when every variable
\* has a value.  Otherwise they are kept, unreachable (get_current_value() raises) and possibly out of date.
UpdateMeta ==
  /\ hasCur' = AllHave(vars')
  /\ (IF hasCur' THEN ClearDep ELSE UNCHANGED <<curArrC, normCurC>>)
On(a) == a \in Enabled
\* __update_normalization_vars: bounds from the variables, mask from the POLICY dictionary in variable order
Refresh ==
  /\ lbC' = FlatLB /\ ubC' = FlatUB /\ intC' = IsIntVec
  /\ maskC' = Join([i \in 1..Len(vars) |-> policy[vars[i].name]])
  /\ normValid' = TRUE
EnsureNorm == IF normValid THEN UNCHANGED normvars ELSE Refresh

IInit ==
  /\ Init
  /\ n2i = <<>> /\ dimC = 0 /\ policy = <<>>
  /\ normValid = FALSE /\ lbC = <<>> /\ ubC = <<>> /\ maskC = <<>> /\ intC = <<>>
  /\ hasCur = FALSE /\ curArrC = <<>> /\ normCurC = <<>>

\* ------------------------------------------------------------------ mutators
AddVariable(t, wv, via) ==
  /\ On("AddVariable")
  /\ Add(t, wv)
  /\ LET v == vars'[Len(vars')] IN
       /\ n2i' = [m \in DOMAIN n2i \cup {v.name} |-> IF m = v.name THEN <<dimC, dimC + v.size>> ELSE n2i[m]]
       /\ policy' = [m \in DOMAIN policy \cup {v.name} |-> IF m = v.name THEN PolicyOf(v, intNorm) ELSE policy[m]]
       /\ dimC' = dimC + v.size
  /\ Invalidate /\ UpdateMeta

RemoveVariable(n) ==
  /\ On("RemoveVariable")
  /\ Remove(n)
  /\ LET k == Pos(n) sz == vars[k].size IN
       /\ n2i' = [m \in DOMAIN n2i \ {n} |-> IF Pos(m) > k THEN Shift(n2i[m], sz) ELSE n2i[m]]
       /\ dimC' = dimC - sz
  /\ policy' = [m \in DOMAIN policy \ {n} |-> policy[m]]
  /\ Invalidate
  \* ("S1": a rule the code does NOT have - drop the caches only when the removed variable had a value - used to
  \*  show that CurCacheCoherence refutes a removal that makes the value complete again without clearing)
  /\ (IF "S1" \in AsCoded /\ ~vars[Pos(n)].hasv
        THEN hasCur' = AllHave(vars') /\ UNCHANGED <<curArrC, normCurC>>
        ELSE UpdateMeta)

\* filter(keep) = remove_variable for every other variable
\* (mode "copy": filter(keep, copy=True) returns a filtered deep copy - caches included - and leaves the original alone;
\*  the behaviour continues with the copy)
FilterVariables(keep, mode) ==
  /\ On("FilterVariables")
  /\ Filter(keep)
  /\ LET rg == RangesOf(vars') IN
       /\ n2i' = [m \in keep |-> rg[CHOOSE i \in 1..Len(vars') : vars'[i].name = m]]
       /\ dimC' = IF vars' = <<>> THEN 0 ELSE rg[Len(vars')][2]
  /\ policy' = [m \in keep |-> policy[m]]
  /\ Invalidate /\ UpdateMeta

\* rename_variable.  Repaired: in place, and the data keyed by names are dropped.
\* As coded (D1): dict[new] = dict.pop(old) moves the variable to the END of every dictionary, while the
\* index range stays and nothing is invalidated.
RenameVariable(n) ==
  /\ On("RenameVariable")
  /\ IF "D1" \in AsCoded
       THEN /\ Has(n) /\ HasFree /\ UNCHANGED intNorm
            /\ vars' = Append(Sel(vars, {i \in 1..Len(vars) : vars[i].name # n}), [vars[Pos(n)] EXCEPT !.name = FreeName])
            /\ UNCHANGED <<hasCur, curArrC, normCurC>>
       ELSE Rename(n) /\ hasCur' = hasCur /\ ClearDep
  /\ n2i' = [m \in (DOMAIN n2i \ {n}) \cup {FreeName} |-> IF m = FreeName THEN n2i[n] ELSE n2i[m]]
  /\ policy' = [m \in (DOMAIN policy \ {n}) \cup {FreeName} |-> IF m = FreeName THEN policy[n] ELSE policy[m]]
  /\ UNCHANGED <<dimC, normValid, lbC, ubC, maskC, intC>>

\* filter_dimensions.  Repaired: the policy of the variable is re-derived (as coded, D16: left at the old size).
FilterDimensions(n, S) ==
  /\ On("FilterDimensions")
  /\ FilterDims(n, S)
  /\ LET k == Pos(n) nrem == vars[k].size - Cardinality(S) IN
       /\ n2i' = [m \in DOMAIN n2i |-> IF m = n THEN <<n2i[m][1], n2i[m][2] - nrem>>
                                       ELSE IF Pos(m) > k THEN Shift(n2i[m], nrem) ELSE n2i[m]]
       /\ dimC' = dimC - nrem
       /\ policy' = IF "D16" \in AsCoded THEN policy ELSE [policy EXCEPT ![n] = PolicyOf(vars'[k], intNorm)]
  /\ Invalidate /\ UpdateMeta

\* set_lower_bound / set_upper_bound: policy re-derived, normalisation data invalid.
\* Repaired: the normalised current value is dropped as well (as coded, D15: it is kept).
BoundEdit(n) ==
  /\ policy' = [policy EXCEPT ![n] = PolicyOf(vars'[Pos(n)], intNorm)]
  /\ Invalidate
  /\ (IF "D15" \in AsCoded THEN UNCHANGED <<curArrC, normCurC>> ELSE ClearDep)
  /\ UNCHANGED <<n2i, dimC, hasCur>>
SetLowerBound(n, b) == On("SetLowerBound") /\ SetLB(n, b) /\ BoundEdit(n)
SetUpperBound(n, b) == On("SetUpperBound") /\ SetUB(n, b) /\ BoundEdit(n)

SetCurrentValue(c, form) ==
  /\ On("SetCurrentValue")
  /\ SetCurAll(c) /\ UpdateMeta
  /\ UNCHANGED <<n2i, dimC, policy, normValid, lbC, ubC, maskC, intC>>
SetCurrentVariable(n, c) ==
  /\ On("SetCurrentVariable")
  /\ SetCurVar(n, c) /\ UpdateMeta
  /\ UNCHANGED <<n2i, dimC, policy, normValid, lbC, ubC, maskC, intC>>
InitializeMissing ==
  /\ On("InitializeMissing")
  /\ InitMissing /\ UpdateMeta
  /\ UNCHANGED <<n2i, dimC, policy, normValid, lbC, ubC, maskC, intC>>

\* the setter of enable_integer_variables_normalization: policies of the integer variables re-derived
ToggleIntegerNormalization ==
  /\ On("ToggleIntegerNormalization")
  /\ ToggleIntNorm
  /\ policy' = [m \in DOMAIN policy |-> IF vars[Pos(m)].type = "integer" THEN PolicyOf(vars[Pos(m)], intNorm') ELSE policy[m]]
  /\ Invalidate
  /\ (IF "D15" \in AsCoded THEN UNCHANGED <<curArrC, normCurC>> ELSE ClearDep)
  /\ UNCHANGED <<n2i, dimC, hasCur>>

\* ------------------------------------------------------------------ queries (fill caches, abstract state unchanged)
\* normalize_vect / unnormalize_vect / round_vect / project_into_bounds (and the grad/transform wrappers)
QNormalize(kind) ==
  /\ On("QNormalize")
  /\ vars # <<>> /\ EnsureNorm
  /\ UNCHANGED <<vars, intNorm, n2i, dimC, policy, hasCur, curArrC, normCurC>>
\* check_membership(ndarray).  Repaired: reads the bounds through the validity flag.
\* As coded (D3): fills the cached arrays only when they are None and never looks at the flag.
QMembership ==
  /\ On("QMembership")
  /\ vars # <<>>
  /\ (IF "D3" \in AsCoded
        THEN /\ (IF lbC = <<>> THEN lbC' = FlatLB /\ ubC' = FlatUB ELSE UNCHANGED <<lbC, ubC>>)
             /\ UNCHANGED <<normValid, maskC, intC>>
        ELSE EnsureNorm)
  /\ UNCHANGED <<vars, intNorm, n2i, dimC, policy, hasCur, curArrC, normCurC>>
\* get_current_value()
QCurrent ==
  /\ On("QCurrent")
  /\ hasCur
  /\ curArrC' = (IF curArrC = <<>> THEN CurFlat ELSE curArrC)
  /\ UNCHANGED <<vars, intNorm, n2i, dimC, policy, normValid, lbC, ubC, maskC, intC, hasCur, normCurC>>
\* get_current_value(normalize=True): normalises the flat current value with the CACHED normalisation data
CachedN(k, x) == IF ~maskC'[k] THEN x
                 ELSE IF ubC'[k] = lbC'[k] THEN x - lbC'[k]
                 ELSE (U * (x - lbC'[k])) \div (ubC'[k] - lbC'[k])
QNormCurrent ==
  /\ On("QNormCurrent")
  /\ hasCur
  /\ curArrC' = (IF curArrC = <<>> THEN CurFlat ELSE curArrC)
  /\ (IF normCurC = <<>>
        THEN EnsureNorm /\ normCurC' = [k \in 1..Len(curArrC') |-> CachedN(k, curArrC'[k])]
        ELSE UNCHANGED <<normCurC, normValid, lbC, ubC, maskC, intC>>)
  /\ UNCHANGED <<vars, intNorm, n2i, dimC, policy, hasCur>>

INext ==
  \/ \E t \in TemplateIds, wv \in BOOLEAN, via \in Vias : AddVariable(t, wv, via)
  \/ \E n \in Names : RemoveVariable(n)
  \/ \E n \in Names : RenameVariable(n)
  \/ \E keep \in SUBSET Names, mode \in FilterModes : FilterVariables(keep, mode)
  \/ \E n \in Names, S \in SUBSET (1..3) : FilterDimensions(n, S)
  \/ \E n \in Names, b \in LBSet : SetLowerBound(n, b)
  \/ \E n \in Names, b \in UBSet : SetUpperBound(n, b)
  \/ \E c \in CurChoices, form \in Forms : SetCurrentValue(c, form)
  \/ \E n \in Names, c \in CurChoices : SetCurrentVariable(n, c)
  \/ InitializeMissing
  \/ ToggleIntegerNormalization
  \/ \E kind \in QKinds : QNormalize(kind)
  \/ QMembership
  \/ QCurrent
  \/ QNormCurrent
ImplSpec == IInit /\ [][INext]_implvars

\* ------------------------------------------------------------------ coherence (refinement of the cache-free space)
IndexCoherence ==
  /\ DOMAIN n2i = CurNames
  /\ LET rg == Ranges IN \A i \in 1..Len(vars) : n2i[vars[i].name] = rg[i]
  /\ dimC = Dim
PolicyCoherence ==
  /\ DOMAIN policy = CurNames
  /\ \A i \in 1..Len(vars) : policy[vars[i].name] = PolicyOf(vars[i], intNorm)
NormCacheCoherence ==
  normValid => (lbC = FlatLB /\ ubC = FlatUB /\ maskC = NormVec /\ intC = IsIntVec)
\* the bounds check_membership(ndarray) compares with are the bounds of the variables
MemberCacheCoherence ==
  (IF "D3" \in AsCoded THEN lbC # <<>> ELSE normValid) => (lbC = FlatLB /\ ubC = FlatUB)
CurCacheCoherence ==
  /\ hasCur = HasCur
  /\ (hasCur => /\ (curArrC # <<>> => curArrC = CurFlat)
                /\ (normCurC # <<>> => normCurC = NormCur))
\* invalid caches are empty (the normal form this model uses)
NormalForm == ~normValid => (maskC = <<>> /\ intC = <<>>)
\* (guarded versions for the depth-bounded exhaustive run, see DesignSpace!TypeOKB)
IndexCoherenceB == InBound => IndexCoherence
PolicyCoherenceB == InBound => PolicyCoherence
NormCacheCoherenceB == InBound => NormCacheCoherence
MemberCacheCoherenceB == InBound => MemberCacheCoherence
CurCacheCoherenceB == InBound => CurCacheCoherence
NormalFormB == InBound => NormalForm
==============================================================================
