------------------------------- MODULE OptPareto -------------------------------
(***************************************************************************)
(* C04, multi-objective clause: "for multi-objective histories no reported *)
(* Pareto point is dominated by a feasible one".                           *)
(*                                                                         *)
(* A state is one history P: a sequence of <= MaxPts points                *)
(*      [o : <<a, b>> (the 2 objectives) | <<>> (objective not recorded),  *)
(*       feas : the point satisfies the constraints].                      *)
(* Objectives are integers (the binding maps v to the double v/4).         *)
(*                                                                         *)
(* (a) FrontAcceptable(P, front): the RELATION of the property on a        *)
(*     reported front (a set of [idx, o]): every reported point is a       *)
(*     recorded point, reported with the objective recorded for that very  *)
(*     point, and no feasible recorded point dominates it.  Completeness   *)
(*     of the front is NOT demanded (the code drops every member of a      *)
(*     group of duplicated non-dominated points; the property allows it).  *)
(* (b) Front(P): transcription of compute_pareto_optimal_points as used by *)
(*     ParetoFront.__get_optima; TLC checks FrontAcceptable(P, Front(P)).  *)
(***************************************************************************)
EXTENDS Integers, Sequences, FiniteSets, TLC, Json, IOUtils

CONSTANTS MaxPts,       \* maximal number of points
          ObjVals,      \* values of one objective
          WithMissing   \* also enumerate points whose objective is not recorded

VARIABLE pts
pvars == <<pts>>

HasObj(q) == q.o # <<>>
\* a dominates b: nowhere worse, somewhere better (minimisation)
Dominates(a, b) == (\A j \in 1..Len(a) : a[j] <= b[j]) /\ (\E j \in 1..Len(a) : a[j] < b[j])
DominatedByFeasible(P, i) ==
    \E j \in 1..Len(P) : j # i /\ P[j].feas /\ HasObj(P[j]) /\ Dominates(P[j].o, P[i].o)

EntryVerdict(P, e) ==
    IF e.idx \notin 1..Len(P) THEN "RecordedPoint"
    ELSE IF ~HasObj(P[e.idx]) \/ e.o # P[e.idx].o THEN "ObjectiveOfThatPoint"
    ELSE IF DominatedByFeasible(P, e.idx) THEN "DominatedByFeasible"
    ELSE "ok"
FrontAcceptable(P, front) ==
    \A e \in front : /\ e.idx \in 1..Len(P)
                     /\ HasObj(P[e.idx]) /\ e.o = P[e.idx].o
                     /\ ~DominatedByFeasible(P, e.idx)
FrontVerdict(P, front) ==
    IF \A e \in front : EntryVerdict(P, e) = "ok" THEN "ok"
    ELSE EntryVerdict(P, CHOOSE e \in front : EntryVerdict(P, e) # "ok")

\* compute_pareto_optimal_points: a feasible point is kept iff every OTHER feasible point is
\* strictly worse in at least one objective; __get_optima flags a point without objective infeasible
Kept(P, i) == /\ HasObj(P[i]) /\ P[i].feas
              /\ \A j \in 1..Len(P) : (j # i /\ HasObj(P[j]) /\ P[j].feas)
                      => (\E k \in 1..Len(P[i].o) : P[j].o[k] > P[i].o[k])
Front(P) == {[idx |-> i, o |-> P[i].o] : i \in {j \in 1..Len(P) : Kept(P, j)}}

-----------------------------------------------------------------------------
Points == {[o |-> <<a, b>>, feas |-> f] : a \in ObjVals, b \in ObjVals, f \in BOOLEAN}
            \cup (IF WithMissing THEN {[o |-> <<>>, feas |-> f] : f \in BOOLEAN} ELSE {})
SeqsOfLen(S, m) == CASE m = 1 -> {<<a>> : a \in S}
                     [] m = 2 -> {<<a, b>> : a \in S, b \in S}
                     [] m = 3 -> {<<a, b, d>> : a \in S, b \in S, d \in S}
                     [] m = 4 -> {<<a, b, d, e>> : a \in S, b \in S, d \in S, e \in S}

PInit == \E m \in 1..MaxPts : pts \in SeqsOfLen(Points, m)
PNext == UNCHANGED pts
PSpec == PInit /\ [][PNext]_pvars

\* design-level theorem
NonDominated == FrontAcceptable(pts, Front(pts)) /\ FrontVerdict(pts, Front(pts)) = "ok"
\* the relation is not vacuous: a front containing a dominated point is refused
Refuses == \A i \in 1..Len(pts) :
              (HasObj(pts[i]) /\ DominatedByFeasible(pts, i)) => ~FrontAcceptable(pts, {[idx |-> i, o |-> pts[i].o]})

PEmit == PrintT(ToJson([pts |-> pts, front |-> {e.idx : e \in Front(pts)}]))
================================================================================
