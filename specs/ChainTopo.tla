------------------------------ MODULE ChainTopo ------------------------------
(* Enumeration of the process topologies of C09 (one state per topology).    *)
(* Variables 1..NExt are external names; discipline k owns a fresh name (the *)
(* smallest unused one: NExt+k when every discipline before it owns one).    *)
(* Discipline k reads a non-empty set of names that exist before it          *)
(* (external names or names written by earlier disciplines) and writes       *)
(*   - its own name,                                                         *)
(*   - at most one EXTRA name it does not read: a name owned by an earlier   *)
(*     discipline (an overwritten variable) or an external name (the chain   *)
(*     then has an input and an output of that name),                        *)
(*   - a set W of at most MaxSelf names that it READS (self-overwriting      *)
(*     member, a state-update step such as (pos, vel) -> (pos, vel)): it     *)
(*     reads the old values and writes the new ones under the same names;    *)
(*     when W is not empty it may also be a PURE update (no own name).       *)
(* Every such listing is an acyclic data flow: discipline k only reads what  *)
(* exists before it.  TLC prints each topology with its class labels.        *)
EXTENDS ChainTopoDefs, TLC
CONSTANTS MaxN,        \* disciplines
          NExt,        \* external names
          MaxIns,      \* inputs per discipline
          MaxExtra,    \* extra (overwriting) outputs in the whole topology
          ExtraExt,    \* TRUE: an external name may be overwritten too
          MaxSelf,     \* names a discipline may read AND write (0: no self-overwriting member)
          Independent, \* TRUE: members for a parallel / additive chain (see NextInd)
          NPool        \* Independent: number of output names
VARIABLE topo

Avail(s) == (1..NExt) \cup UNION {s[k].outs : k \in 1..Len(s)}          \* the names that exist after the listing s
Max(S) == CHOOSE m \in S : \A x \in S : x <= m
Own(s) == Max(Avail(s)) + 1
NExtra(s) == Cardinality({k \in 1..Len(s) : s[k].extra # {}})

\* The listing is built one discipline at a time: every reachable state with >= 1 discipline is a
\* topology (the set of topologies is prefix-closed), so TLC's breadth-first search enumerates them.
Add(I, E, W, own) == /\ Len(topo) < MaxN
                     /\ topo' = Append(topo, [ins |-> I, outs |-> (IF own THEN {Own(topo)} ELSE {}) \cup E \cup W,
                                              extra |-> E])
Init == topo = <<>>
Next == \E I \in {J \in SUBSET Avail(topo) : J # {} /\ Cardinality(J) <= MaxIns} :
          \E E \in {{}} \cup (IF NExtra(topo) < MaxExtra
                              THEN {{v} : v \in {w \in Avail(topo) \ I : ExtraExt \/ w > NExt}}
                              ELSE {}) :
            \E W \in {X \in SUBSET I : Cardinality(X) <= MaxSelf} :
              \E own \in (IF W # {} /\ E = {} THEN {TRUE, FALSE} ELSE {TRUE}) : Add(I, E, W, own)
\* Members of a parallel / additive chain: every discipline reads external names only and writes a
\* non-empty subset of a pool of NPool output names (several members may write the same name: the
\* later one wins in a parallel chain, they are summed in an additive chain).
\* A member may also write up to MaxSelf of the names it reads (self-overwriting member of a parallel chain:
\* every member reads the data at the entry of the chain, the chain has an input and an output of that name).
NextInd == \E I \in {J \in SUBSET (1..NExt) : J # {}} :
             \E O \in {Q \in SUBSET ((NExt + 1)..(NExt + NPool)) : Q # {}} :
               \E W \in {X \in SUBSET I : Cardinality(X) <= MaxSelf} :
                /\ Len(topo) < MaxN
                /\ topo' = Append(topo, [ins |-> I, outs |-> O \cup W, extra |-> {}])
Spec == Init /\ [][IF Independent THEN NextInd ELSE Next]_topo

AsTopo(s) == [n |-> Len(s), ins |-> [d \in 1..Len(s) |-> s[d].ins], outs |-> [d \in 1..Len(s) |-> s[d].outs]]
T == AsTopo(topo)

\* every enumerated topology is a legal instance of ChainRule
Legal == /\ \A d \in TD(T) : (T.ins[d] # {} /\ T.outs[d] # {} /\ Cardinality(T.ins[d] \cap T.outs[d]) <= MaxSelf)
         /\ TChainOut(T) \subseteq 1..(NExt + (IF Independent THEN NPool ELSE T.n))     \* fresh names are consecutive
         /\ \A d \in TD(T) : T.ins[d] \subseteq TChainIn(T) \cup UNION {T.outs[j] : j \in 1..(d - 1)}
Emit == Len(topo) = 0 \/ PrintT(<<"TOPO", T.n, T.ins, T.outs, Classes(T)>>)
=============================================================================
