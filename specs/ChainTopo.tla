------------------------------ MODULE ChainTopo ------------------------------
(* Enumeration of the process topologies of C09 (one state per topology).    *)
(* Variables 1..NExt are external names; discipline k owns the name NExt+k.  *)
(* Discipline k reads a non-empty set of names that exist before it          *)
(* (external names or names owned by earlier disciplines) and writes its own *)
(* name plus at most one EXTRA name: a name owned by an earlier discipline   *)
(* (an overwritten variable) or an external name (the chain then has an      *)
(* input and an output of that name), never one it reads itself.             *)
(* Every such listing is an acyclic data flow: discipline k only reads what  *)
(* exists before it.  TLC prints each topology with its class labels.        *)
EXTENDS ChainTopoDefs, TLC
CONSTANTS MaxN,        \* disciplines
          NExt,        \* external names
          MaxIns,      \* inputs per discipline
          MaxExtra,    \* extra (overwriting) outputs in the whole topology
          ExtraExt,    \* TRUE: an external name may be overwritten too
          Independent, \* TRUE: members for a parallel / additive chain (see NextInd)
          NPool        \* Independent: number of output names
VARIABLE topo

Own(k) == NExt + k
Before(k) == 1..(NExt + k - 1)
NExtra(s) == Cardinality({k \in 1..Len(s) : Cardinality(s[k].outs) >= 2})

\* The listing is built one discipline at a time: every reachable state with >= 1 discipline is a
\* topology (the set of topologies is prefix-closed), so TLC's breadth-first search enumerates them.
Add(I, E) == /\ Len(topo) < MaxN
             /\ topo' = Append(topo, [ins |-> I, outs |-> {Own(Len(topo) + 1)} \cup E])
Init == topo = <<>>
Next == \E I \in {J \in SUBSET Before(Len(topo) + 1) : J # {} /\ Cardinality(J) <= MaxIns} :
          \E E \in {{}} \cup (IF NExtra(topo) < MaxExtra
                              THEN {{v} : v \in {w \in Before(Len(topo) + 1) \ I : ExtraExt \/ w > NExt}}
                              ELSE {}) : Add(I, E)
\* Members of a parallel / additive chain: every discipline reads external names only and writes a
\* non-empty subset of a pool of NPool output names (several members may write the same name: the
\* later one wins in a parallel chain, they are summed in an additive chain).
NextInd == \E I \in {J \in SUBSET (1..NExt) : J # {}} :
             \E O \in {Q \in SUBSET ((NExt + 1)..(NExt + NPool)) : Q # {}} :
                /\ Len(topo) < MaxN
                /\ topo' = Append(topo, [ins |-> I, outs |-> O])
Spec == Init /\ [][IF Independent THEN NextInd ELSE Next]_topo

AsTopo(s) == [n |-> Len(s), ins |-> [d \in 1..Len(s) |-> s[d].ins], outs |-> [d \in 1..Len(s) |-> s[d].outs]]
T == AsTopo(topo)

\* every enumerated topology is a legal instance of ChainRule
Legal == /\ \A d \in TD(T) : (T.ins[d] # {} /\ T.outs[d] # {} /\ T.ins[d] \cap T.outs[d] = {})
         /\ \A d \in TD(T) : T.ins[d] \subseteq TChainIn(T) \cup UNION {T.outs[j] : j \in 1..(d - 1)}
Emit == Len(topo) = 0 \/ PrintT(<<"TOPO", T.n, T.ins, T.outs, Classes(T)>>)
=============================================================================
