------------------------------ MODULE ChainTopo ------------------------------
(* Enumeration of the process topologies of C09 as initial states.           *)
(* Variables 1..NExt are external names; discipline k owns the name NExt+k.  *)
(* Discipline k reads a non-empty set of names that exist before it          *)
(* (external names or names owned by earlier disciplines) and writes its own *)
(* name plus at most one EXTRA name: a name owned by an earlier discipline   *)
(* (an overwritten variable) or an external name (the chain then has an      *)
(* input and an output of that name), never one it reads itself.             *)
(* Every such listing is an acyclic data flow: discipline k only reads what  *)
(* exists before it.  TLC prints each topology with its class labels.        *)
EXTENDS ChainTopoDefs, TLC
CONSTANTS MaxN,        \* disciplines
          NExt,        \* external names
          MaxIns,      \* inputs per discipline
          MaxExtra,    \* extra (overwriting) outputs in the whole topology
          ExtraExt     \* TRUE: an external name may be overwritten too
VARIABLE topo

Own(k) == NExt + k
Before(k) == 1..(NExt + k - 1)
NExtra(s) == Cardinality({k \in 1..Len(s) : Cardinality(s[k].outs) >= 2})

RECURSIVE Build(_)
Build(k) ==
    IF k = 0 THEN {<<>>}
    ELSE UNION { { Append(s, [ins |-> I, outs |-> {Own(k)} \cup E]) :
                     E \in {{}} \cup (IF NExtra(s) < MaxExtra
                                      THEN {{v} : v \in {w \in Before(k) \ I : ExtraExt \/ w > NExt}}
                                      ELSE {}) } :
                 <<s, I>> \in Build(k - 1) \X {J \in SUBSET Before(k) : J # {} /\ Cardinality(J) <= MaxIns} }

AsTopo(s) == [n |-> Len(s), ins |-> [d \in 1..Len(s) |-> s[d].ins], outs |-> [d \in 1..Len(s) |-> s[d].outs]]
Topos == UNION {{AsTopo(s) : s \in Build(n)} : n \in 1..MaxN}

Init == topo \in Topos
Next == UNCHANGED topo
Spec == Init /\ [][Next]_topo

\* every enumerated topology is a legal instance of ChainRule
Legal == /\ \A d \in TD(topo) : (topo.ins[d] # {} /\ topo.outs[d] # {} /\ topo.ins[d] \cap topo.outs[d] = {})
         /\ \A d \in TD(topo) : topo.ins[d] \subseteq TChainIn(topo) \cup UNION {topo.outs[j] : j \in 1..(d - 1)}
Emit == PrintT(<<"TOPO", topo.n, topo.ins, topo.outs, Classes(topo)>>)
=============================================================================
