------------------------------ MODULE ChainRule ------------------------------
(***************************************************************************)
(* C09 - composite processes differentiate by the exact chain rule.        *)
(*                                                                         *)
(* An INSTANCE (read from the JSON file IOEnv.C09_INPUT, one initial state *)
(* per instance) is a composite process on the exact-arithmetic slice:     *)
(*   n leaves 1..n in listing order, leaf d reads the names ins[d] and     *)
(*   writes the names outs[d]; names are integers 1..nv with sizes 1..2;   *)
(*   leaf d computes  out_o = SUM_i P[d,o,i] . phi(in_i)  with INTEGER     *)
(*   matrices P (entries -2..2) and phi = identity (linear leaves) or the  *)
(*   elementwise square (polynomial leaves: the partial P.diag(2 in_i)     *)
(*   depends on the point);                                                *)
(*   the composition: an outer kind over blocks, a block being a leaf or a *)
(*   one-level composite of leaves (chain / parallel / additive).          *)
(*                                                                         *)
(* ABSTRACT SPECIFICATION.  Final(pt) propagates, in the order and with    *)
(* the visibility rules of the processes' _execute methods (sequential     *)
(* chain: every member sees the data updated by the previous ones, the     *)
(* last writer of a name wins; parallel chain: every member sees the data  *)
(* at the entry of the chain, outputs merged in listing order; additive    *)
(* chain: parallel + the listed outputs summed over the members producing  *)
(* them), the VALUE of every name and its TOTAL DERIVATIVE w.r.t. every    *)
(* chain input - i.e. the sum over the data-flow paths of the products of  *)
(* the partials, evaluated at the point each leaf really reads.            *)
(* A leaf may read AND write a name (self-overwriting member, e.g. a state *)
(* update (pos, vel) -> (pos, vel)): in a sequential chain it reads the    *)
(* OLD value, the members after it read the NEW one, and its partials are  *)
(* evaluated at the OLD value; the path sum runs over the successive       *)
(* VERSIONS of the name.                                                   *)
(*   Total(o, i) == Final.row[o][i]   (a zero block of shape |o| x |i|     *)
(*   when no path exists: the sum is empty)                                *)
(* Total is defined block by block, independently of any request: what a   *)
(* request (inputs subset, outputs subset) must return is Total restricted *)
(* to it, whatever was requested before (RequestIndependence).             *)
(*                                                                         *)
(* IMPLEMENTATION-SHAPED MODEL (flat MDOChain / MDOParallelChain /         *)
(* MDOAdditiveChain of leaves).  The variables are the derived state the   *)
(* code keeps: the chain's cumulative differentiated inputs/outputs        *)
(* (Discipline._differentiated_*_names), each leaf's (set by the two-way   *)
(* BFS of chain_rule.traverse_add_diff_io, only ever growing), the cached  *)
(* MDOChain._last_diff_inouts, and the Jacobian held by the process's      *)
(* cache entry (SimpleCache keeps the FIRST Jacobian stored for an input    *)
(* point and serves it while it covers the request).  Request(r) is one    *)
(* add_differentiated_inputs/outputs + linearize(point) call (or           *)
(* linearize(compute_all_jacobians=True)); it recomputes the Jacobian by   *)
(* the reverse accumulation of chain.py:117-256 as written.                *)
(* Invariants: AccIsTotal (after every request the accumulated blocks      *)
(* equal Total on the requested pairs), RequestIndependence (they equal    *)
(* the blocks a fresh process returns for compute_all_jacobians=True),     *)
(* PathSumIsTotal (Total = explicit sum over data-flow paths), Shapes,     *)
(* StructuralZeros.  On the classes where the code as it was read before   *)
(* the repairs is wrong (SigClass # "plain") TLC REFUTES AccIsTotal        *)
(* (CheckKnown = TRUE, Repaired = FALSE) and the repaired rules (Repaired  *)
(* = TRUE) satisfy it.  The same for the linearization point of the        *)
(* self-overwriting members of an MDOChain (LinVal): evaluated at the      *)
(* value the member has written (RepairedPt = FALSE, the code as read      *)
(* today) AccIsTotal is refuted with polynomial members, evaluated at the  *)
(* value it has read (RepairedPt = TRUE) it holds.                         *)
(***************************************************************************)
EXTENDS Integers, Sequences, FiniteSets, TLC, Json, IOUtils, MatC09, ChainTopoDefs

CONSTANTS Exhaustive,    \* TRUE: every request history over Alphabet up to MaxHist; FALSE: replay inst.hist
          MaxHist,
          FullAlphabet,  \* exhaustive mode: every non-empty subset instead of singletons and full sets
          Repaired,      \* TRUE: the implementation-shaped model uses the REPAIRED assembly rules (fixes/C09-*.patch)
          RepairedPt,    \* TRUE: ... and the REPAIRED linearization point of the self-overwriting members of an MDOChain
          CheckKnown     \* TRUE: AccIsTotal is demanded on every instance (used to show the defect classes at specification level)

Insts == JsonDeserialize(IOEnv.C09_INPUT)
ToSet(s) == {s[k] : k \in 1..Len(s)}
EmptyFn == [v \in {} |-> 0]

VARIABLES inst,     \* the instance (constant along a behaviour)
          hist,     \* requests made so far (observation)
          cIn, cOut,        \* the process's differentiated inputs / outputs (cumulative)
          dIn, dOut,        \* per leaf
          last,             \* MDOChain._last_diff_inouts
          ret,              \* the Jacobian RETURNED by the last request, described by what it was computed from:
                            \*   [ins, outs, all, pt, di, do] (request, point, the leaves' sets at that time)
          sto,              \* the Jacobian held by the process's SimpleCache entry (same description;
                            \*   pt = 0: no entry, ins = {}: an entry without Jacobian)
          failed,           \* the modelled code raised on the last request
          reqIn, reqOut     \* what the last request had to return (observation)
vars == <<inst, hist, cIn, cOut, dIn, dOut, last, ret, sto, failed, reqIn, reqOut>>
jIn == ret.ins
jOut == ret.outs
jAll == ret.all
jacPt == ret.pt

N == inst.n
Var == 1..inst.nv
Sz(v) == inst.size[v]
DIn(d) == ToSet(inst.ins[d])
DOut(d) == ToSet(inst.outs[d])
Blocks == inst.blocks                 \* <<kind, <<members>>, <<summed names>>>>
Topo == [n |-> N, ins |-> [d \in 1..N |-> DIn(d)], outs |-> [d \in 1..N |-> DOut(d)]]

PM(d, o, i) == (CHOOSE e \in ToSet(inst.P) : e[1] = d /\ e[2] = o /\ e[3] = i)[4]
Phi(x) == IF inst.poly THEN VSquare(x) ELSE x
\* the partial Jacobian of leaf d at the input value x of name i
Partial(d, o, i, x) == IF inst.poly THEN MScaleCols(PM(d, o, i), [c \in 1..Len(x) |-> 2 * x[c]]) ELSE PM(d, o, i)

MSumOver(S, F(_), zero) ==
    LET G[k \in 0..inst.nv] == IF k = 0 THEN zero ELSE IF k \in S THEN MAdd(G[k - 1], F(k)) ELSE G[k - 1]
    IN  G[inst.nv]
VSumOver(S, F(_), zero) ==
    LET G[k \in 0..inst.nv] == IF k = 0 THEN zero ELSE IF k \in S THEN VAdd(G[k - 1], F(k)) ELSE G[k - 1]
    IN  G[inst.nv]

-----------------------------------------------------------------------------
(* Grammars of the composite (chain.py:102-111, parallel_chain.py:96-102)   *)
SeqKind(k) == k \in {"leaf", "chain", "mda"}
BIn(b) == LET m == b[2] IN
          IF SeqKind(b[1]) THEN UNION {DIn(m[k]) \ UNION {DOut(m[j]) : j \in 1..(k - 1)} : k \in 1..Len(m)}
          ELSE UNION {DIn(m[k]) : k \in 1..Len(m)}
BOut(b) == UNION {DOut(b[2][k]) : k \in 1..Len(b[2])}
ChainIn == IF SeqKind(inst.outer)
           THEN UNION {BIn(Blocks[k]) \ UNION {BOut(Blocks[j]) : j \in 1..(k - 1)} : k \in 1..Len(Blocks)}
           ELSE UNION {BIn(Blocks[k]) : k \in 1..Len(Blocks)}
ChainOut == UNION {BOut(Blocks[k]) : k \in 1..Len(Blocks)}

-----------------------------------------------------------------------------
(* Abstract specification: forward propagation of values and total         *)
(* derivatives.  A data state S = [val : Var -> vector, row : Var -> (Var  *)
(* -> matrix)], row[v][w] = d v / d (chain input w).                       *)
Point(pt) == inst.points[pt]
S0(pt) == [val |-> [v \in Var |-> IF v \in ChainIn THEN Point(pt)[v] ELSE ZeroVec(Sz(v))],
           row |-> [v \in Var |-> [w \in Var |-> IF v = w /\ v \in ChainIn THEN Ident(Sz(v)) ELSE Zero(Sz(v), Sz(w))]]]
NoOut == [val |-> EmptyFn, row |-> EmptyFn]
LeafEval(d, S) ==
    [val |-> [o \in DOut(d) |-> VSumOver(DIn(d), LAMBDA i : MVec(PM(d, o, i), Phi(S.val[i])), ZeroVec(Sz(o)))],
     row |-> [o \in DOut(d) |-> [w \in Var |->
                MSumOver(DIn(d), LAMBDA i : MMul(Partial(d, o, i, S.val[i]), S.row[i][w]), Zero(Sz(o), Sz(w)))]]]
\* b over a: the later writer of a name wins
Merge(a, b) == [val |-> [v \in DOMAIN a.val \cup DOMAIN b.val |-> IF v \in DOMAIN b.val THEN b.val[v] ELSE a.val[v]],
                row |-> [v \in DOMAIN a.row \cup DOMAIN b.row |-> IF v \in DOMAIN b.row THEN b.row[v] ELSE a.row[v]]]
Apply(S, o) == [val |-> [v \in Var |-> IF v \in DOMAIN o.val THEN o.val[v] ELSE S.val[v]],
                row |-> [v \in Var |-> IF v \in DOMAIN o.row THEN o.row[v] ELSE S.row[v]]]

\* a composite of n children; Child(k, S) is what child k writes when it reads the data S
Comp(kind, n, Child(_, _), sums, S) ==
    IF SeqKind(kind)
    THEN LET F[k \in 0..n] == IF k = 0 THEN [st |-> S, out |-> NoOut]
                              ELSE LET prev == F[k - 1]            \* (bound once: TLC does not memoize F[k-1])
                                       o == Child(k, prev.st)
                                   IN  [st |-> Apply(prev.st, o), out |-> Merge(prev.out, o)]
         IN  F[n].out
    ELSE LET Pa[k \in 0..n] == IF k = 0 THEN NoOut ELSE Merge(Pa[k - 1], Child(k, S))
             par == Pa[n]
             SV[v \in DOMAIN par.val] ==
                 LET G[k \in 0..n] == IF k = 0 THEN ZeroVec(Sz(v))
                                      ELSE IF v \in DOMAIN Child(k, S).val THEN VAdd(G[k - 1], Child(k, S).val[v]) ELSE G[k - 1]
                 IN  G[n]
             SR[v \in DOMAIN par.row] == [w \in Var |->
                 LET G[k \in 0..n] == IF k = 0 THEN Zero(Sz(v), Sz(w))
                                      ELSE IF v \in DOMAIN Child(k, S).row THEN MAdd(G[k - 1], Child(k, S).row[v][w]) ELSE G[k - 1]
                 IN  G[n]]
         IN  IF kind = "parallel" THEN par
             ELSE [val |-> [v \in DOMAIN par.val |-> IF v \in sums THEN SV[v] ELSE par.val[v]],
                   row |-> [v \in DOMAIN par.row |-> IF v \in sums THEN SR[v] ELSE par.row[v]]]

BlockEval(b, S) == IF b[1] = "leaf" THEN LeafEval(b[2][1], S)
                   ELSE Comp(b[1], Len(b[2]), LAMBDA k, U : LeafEval(b[2][k], U), ToSet(b[3]), S)
Final(pt) == Comp(inst.outer, Len(Blocks), LAMBDA k, U : BlockEval(Blocks[k], U), ToSet(inst.osum), S0(pt))
Total(fin, o, i) == fin.row[o][i]

-----------------------------------------------------------------------------
(* Implementation-shaped model                                              *)
Flat == \A k \in 1..Len(Blocks) : (Blocks[k][1] = "leaf" /\ Blocks[k][2] = <<k>>)
Modelled == Flat /\ inst.outer \in {"chain", "parallel", "additive"}

\* the data state each leaf reads (flat composites)
SeqSt(pt) == LET F[k \in 0..N] == IF k = 0 THEN S0(pt) ELSE LET prev == F[k - 1] IN Apply(prev, LeafEval(k, prev)) IN F
ReadSt(pt, d) == IF inst.outer = "chain" THEN SeqSt(pt)[d - 1] ELSE S0(pt)

\* the Jacobian dictionary of leaf d after leaf.linearize(compute_all_jacobians=False): its differentiated
\* outputs x inputs (discipline.py:231-239); empty when one of the two sets is empty (discipline.py:195-197)
\* The value of its input i at which leaf d is linearized.  The specification: the value it has read.  The code
\* as read (RepairedPt = FALSE): MDOChain linearizes every member at member.io.get_input_data(), the member's
\* local data AFTER its execution (chain.py, reverse_chain_rule and _compute_jacobian), where a name the member
\* both reads and writes holds the value it has WRITTEN.  (The members of a parallel/additive chain are
\* re-executed from the chain's input data: parallel_chain.py, DiscParallelLinearization(execute=True).)
LinVal(pt, d, i) == IF ~RepairedPt /\ inst.outer = "chain" /\ i \in DOut(d) THEN SeqSt(pt)[d].val[i]
                    ELSE ReadSt(pt, d).val[i]
LeafJac(d, di, do, pt) ==
    IF di[d] = {} \/ do[d] = {} THEN EmptyFn
    ELSE [o \in do[d] |-> [i \in di[d] |-> Partial(d, o, i, LinVal(pt, d, i))]]

\* --- chain_rule.traverse_add_diff_io on the name-based coupling graph
Traverse(inN, outN) ==
    LET t == Topo
        initIn(d) == inN \cap DIn(d)
        initOut(d) == outN \cap DOut(d)
        srcIn == {d \in 1..N : initIn(d) # {}}
        srcOut == {d \in 1..N : initOut(d) # {}}
        E == {e \in (1..N) \X (1..N) : TEdge(t, e[1], e[2])}
        dirE == {e \in E : \E s \in srcIn : e[1] \in TReach(t, s)}          \* edge_bfs from the input sources
        revE == {e \in E : \E s \in srcOut : s \in TReach(t, e[2])}         \* edge_bfs of the reversed graph
        io(e) == DOut(e[1]) \cap DIn(e[2])
        InOf(ES, d) == UNION {io(e) : e \in {f \in ES : f[2] = d}}
        OutOf(ES, d) == UNION {io(e) : e \in {f \in ES : f[1] = d}}
        Touch(ES, d) == \E e \in ES : (e[1] = d \/ e[2] = d)
        both(d) == Touch(dirE, d) /\ Touch(revE, d)
        mi0(d) == InOf(dirE, d) \cap InOf(revE, d)
        mo0(d) == OutOf(dirE, d) \cap OutOf(revE, d)
        mi1(d) == IF both(d) THEN mi0(d) \cup (IF mo0(d) # {} THEN initIn(d) ELSE {}) ELSE {}
        mo1(d) == IF both(d) THEN mo0(d) \cup (IF mi0(d) # {} THEN initOut(d) ELSE {}) ELSE {}
        special(d) == d \in srcIn \cap srcOut
    IN  [d \in 1..N |-> [in  |-> mi1(d) \cup (IF special(d) THEN initIn(d) ELSE {}),
                         out |-> mo1(d) \cup (IF special(d) THEN initOut(d) ELSE {})]]

\* --- MDOChain.reverse_chain_rule: one output's row through the Jacobian Jd of an earlier discipline
RCRRow(row, Jd) ==
    LET common == DOMAIN row \cap DOMAIN Jd          \* computed before the loop (chain.py:158)
        ord == inst.ord                               \* the names in sorted order
        F[k \in 0..Len(ord)] ==
            IF k = 0 THEN row
            ELSE LET i == ord[k]
                     r == F[k - 1]
                 IN  IF i \in common
                     THEN LET cur == r[i]
                              Ji == Jd[i]
                          IN  [m \in DOMAIN r \cup DOMAIN Ji |->
                                 IF m \in DOMAIN Ji
                                 THEN (IF m \in DOMAIN r /\ m # i THEN MAdd(r[m], MMul(cur, Ji[m]))   \* +=
                                       ELSE MMul(cur, Ji[m]))                                        \* =
                                 ELSE r[m]]
                     ELSE r
    IN  F[Len(ord)]
RCR(acc, Jd, outN) ==
    [o \in DOMAIN acc \cup (outN \cap DOMAIN Jd) |->
        IF o \in DOMAIN acc THEN (IF o \in outN THEN RCRRow(acc[o], Jd) ELSE acc[o]) ELSE Jd[o]]
\* --- the repaired rule (fixes/C09-D18-chain-overwritten-names.patch): the derivatives w.r.t. EVERY name the
\* discipline defines are detached from the row and replaced by derivatives w.r.t. its inputs; an output the
\* discipline defines gets a row (possibly empty) that shadows the earlier definitions of the same name
RCRRowRep(row, Jd, defined) ==
    LET comp == defined \cap DOMAIN row
        rest == [m \in DOMAIN row \ comp |-> row[m]]
        ord == inst.ord
        F[k \in 0..Len(ord)] ==
            IF k = 0 THEN rest
            ELSE LET i == ord[k]
                     r == F[k - 1]
                 IN  IF i \in comp /\ i \in DOMAIN Jd
                     THEN LET cur == row[i]
                              Ji == Jd[i]
                          IN  [m \in DOMAIN r \cup DOMAIN Ji |->
                                 IF m \in DOMAIN Ji
                                 THEN (IF m \in DOMAIN r THEN MAdd(r[m], MMul(cur, Ji[m])) ELSE MMul(cur, Ji[m]))
                                 ELSE r[m]]
                     ELSE r
    IN  F[Len(ord)]
RCRRep(acc, Jd, d, outN) ==
    [o \in DOMAIN acc \cup (outN \cap DOut(d)) |->
        IF o \in DOMAIN acc THEN (IF o \in outN THEN RCRRowRep(acc[o], Jd, DOut(d)) ELSE acc[o])
        ELSE (IF o \in DOMAIN Jd THEN Jd[o] ELSE EmptyFn)]
\* MDOChain._compute_jacobian after _compute_diff_in_outs
ChainAcc(di, do, inN, outN, pt) ==
    LET JN == LeafJac(N, di, do, pt)
        B[m \in 0..(N - 1)] ==
            IF m = 0 THEN (IF Repaired THEN [o \in DOMAIN JN \cup (outN \cap DOut(N)) |-> IF o \in DOMAIN JN THEN JN[o] ELSE EmptyFn]
                           ELSE JN)
            ELSE (IF Repaired THEN RCRRep(B[m - 1], LeafJac(N - m, di, do, pt), N - m, outN)
                  ELSE RCR(B[m - 1], LeafJac(N - m, di, do, pt), outN))
        raw == B[N - 1]
        kept == [o \in DOMAIN raw |-> [i \in DOMAIN raw[o] \cap inN |-> raw[o][i]]]         \* chain.py:242-247
    IN  [o \in DOMAIN kept \cup outN |->                                                     \* _init_jacobian(fill)
            [i \in (IF o \in DOMAIN kept THEN DOMAIN kept[o] ELSE {}) \cup (IF o \in outN THEN inN ELSE {}) |->
                IF o \in DOMAIN kept /\ i \in DOMAIN kept[o] THEN kept[o][i] ELSE Zero(Sz(o), Sz(i))]]

\* MDOParallelChain._compute_jacobian: merge the leaves' dictionaries in listing order, fill with zeros
ParMerge(di, do, pt) ==
    LET F[d \in 0..N] == IF d = 0 THEN EmptyFn
                         ELSE LET J == LeafJac(d, di, do, pt)
                                  a == F[d - 1]
                              IN  IF Repaired     \* the last member defining an output defines its whole row
                                  THEN [o \in DOMAIN a \cup DOMAIN J |->
                                          IF o \in DOut(d) THEN (IF o \in DOMAIN J THEN J[o] ELSE EmptyFn) ELSE a[o]]
                                  ELSE
                                  [o \in DOMAIN a \cup DOMAIN J |->
                                     IF o \in DOMAIN J
                                     THEN (IF o \in DOMAIN a
                                           THEN [i \in DOMAIN a[o] \cup DOMAIN J[o] |-> IF i \in DOMAIN J[o] THEN J[o][i] ELSE a[o][i]]
                                           ELSE J[o])
                                     ELSE a[o]]
    IN  F[N]
Fill(a, inN, outN) ==
    [o \in DOMAIN a \cup outN |->
        [i \in (IF o \in DOMAIN a THEN DOMAIN a[o] ELSE {}) \cup (IF o \in outN THEN inN ELSE {}) |->
            IF o \in DOMAIN a /\ i \in DOMAIN a[o] THEN a[o][i] ELSE Zero(Sz(o), Sz(i))]]
\* MDOAdditiveChain._compute_jacobian: the summed outputs are re-assembled from the leaves' dictionaries
AddFails(di, do, inN, pt) ==
    \E o \in ToSet(inst.osum) :
        \/ \E d \in 1..N : o \notin DOMAIN LeafJac(d, di, do, pt)                       \* KeyError
        \/ \E i \in inN : \A d \in 1..N : i \notin DOMAIN LeafJac(d, di, do, pt)[o]      \* assert
\* repaired (fixes/C09-D18c-D18d-...): only the requested summed outputs, only the members that have the block
AddSumRep(a, di, do, inN, outN, pt) ==
    LET has(d, o, i) == o \in DOMAIN LeafJac(d, di, do, pt) /\ i \in DOMAIN LeafJac(d, di, do, pt)[o]
    IN  Fill([o \in DOMAIN a \cup (ToSet(inst.osum) \cap outN) |->
                IF o \in ToSet(inst.osum) \cap outN
                THEN [i \in {j \in inN : \E d \in 1..N : has(d, o, j)} |->
                        LET G[d \in 0..N] == IF d = 0 THEN Zero(Sz(o), Sz(i))
                                             ELSE IF has(d, o, i) THEN MAdd(G[d - 1], LeafJac(d, di, do, pt)[o][i]) ELSE G[d - 1]
                        IN  G[N]]
                ELSE a[o]], inN, outN)
AddSum(a, di, do, inN, pt) ==
    [o \in DOMAIN a \cup ToSet(inst.osum) |->
        IF o \in ToSet(inst.osum)
        THEN [i \in inN |-> LET G[d \in 0..N] ==
                                  IF d = 0 THEN Zero(Sz(o), Sz(i))
                                  ELSE IF i \in DOMAIN LeafJac(d, di, do, pt)[o]
                                       THEN MAdd(G[d - 1], LeafJac(d, di, do, pt)[o][i]) ELSE G[d - 1]
                            IN  G[N]]
        ELSE a[o]]

-----------------------------------------------------------------------------
(* Requests                                                                 *)
ReqOK(r) == /\ r.ins # {} /\ r.ins \subseteq ChainIn
            /\ r.outs # {} /\ r.outs \subseteq ChainOut
            /\ r.pt \in 1..Len(inst.points)
AsReq(h) == [ins |-> ToSet(h[1]), outs |-> ToSet(h[2]), all |-> h[3], pt |-> h[4]]
\* exhaustive mode: single names and the full sets, plus compute_all_jacobians, at the first point
Alphabet == {[ins |-> I, outs |-> O, all |-> FALSE, pt |-> 1] :
                 I \in (IF FullAlphabet THEN SUBSET ChainIn \ {{}} ELSE {{v} : v \in ChainIn} \cup {ChainIn}),
                 O \in (IF FullAlphabet THEN SUBSET ChainOut \ {{}} ELSE {{v} : v \in ChainOut} \cup {ChainOut})}
            \cup {[ins |-> ChainIn, outs |-> ChainOut, all |-> TRUE, pt |-> 1]}
Covers(j, inN, outN) == outN \subseteq DOMAIN j /\ \A o \in outN : inN \subseteq DOMAIN j[o]

\* The Jacobian dictionary returned by the last request.  It is either freshly computed for the request
\* (jIn, jOut) at point jacPt from the leaves' differentiated sets, or the one held by the cache entry of the
\* process: SimpleCache.cache_jacobian keeps the FIRST Jacobian stored for an input point, and it is returned
\* as long as it covers the request (discipline.py:211-221), even if a larger one was computed in between.
\* A state function of the description `ret` rather than a variable: the blocks are recomputed where an
\* invariant needs them.
Prune(acc, inN, outN) == [o \in DOMAIN acc \cap outN |-> [i \in DOMAIN acc[o] \cap inN |-> acc[o][i]]]   \* discipline.py:231-239
Jac ==
    IF ~Modelled
    THEN LET fin == Final(jacPt) IN [o \in jOut |-> [i \in jIn |-> Total(fin, o, i)]]
    ELSE IF inst.outer = "chain"
    THEN LET acc == ChainAcc(ret.di, ret.do, jIn, jOut, jacPt) IN IF jAll THEN acc ELSE Prune(acc, jIn, jOut)
    ELSE LET par == Fill(ParMerge(ret.di, ret.do, jacPt), jIn, jOut)
             acc == IF inst.outer = "additive" /\ Repaired THEN AddSumRep(par, ret.di, ret.do, jIn, jOut, jacPt)
                    ELSE IF inst.outer = "additive" /\ ~failed THEN AddSum(par, ret.di, ret.do, jIn, jacPt) ELSE par
         IN  IF jAll THEN acc ELSE Prune(acc, jIn, jOut)

NoJac(pt, n) == [ins |-> {}, outs |-> {}, all |-> FALSE, pt |-> pt, di |-> [d \in 1..n |-> {}], do |-> [d \in 1..n |-> {}]]
Request(r) ==
    LET cIn2 == IF r.all THEN cIn ELSE cIn \cup r.ins
        cOut2 == IF r.all THEN cOut ELSE cOut \cup r.outs
        inN == IF r.all THEN ChainIn ELSE cIn2
        outN == IF r.all THEN ChainOut ELSE cOut2
        \* execute() at another point replaces the cache entry (simple_cache.py: cache_outputs)
        sto1 == IF sto.pt = r.pt THEN sto ELSE NoJac(r.pt, N)
        \* discipline.py:211-221: the Jacobian of the cache entry covers the request -> it is returned as is
        hit == outN \subseteq sto1.outs /\ inN \subseteq sto1.ins
        \* chain.py:211-216 / parallel_chain.py:168-200: the leaves' differentiated sets
        refresh == ~(last.set /\ last.ins = inN /\ last.outs = outN)
        tr == Traverse(inN, outN)
        di2 == IF ~Modelled THEN dIn
               ELSE IF inst.outer = "chain" THEN (IF refresh THEN [d \in 1..N |-> dIn[d] \cup tr[d].in] ELSE dIn)
               ELSE [d \in 1..N |-> dIn[d] \cup (DIn(d) \cap inN)]
        do2 == IF ~Modelled THEN dOut
               ELSE IF inst.outer = "chain" THEN (IF refresh THEN [d \in 1..N |-> dOut[d] \cup tr[d].out] ELSE dOut)
               ELSE [d \in 1..N |-> dOut[d] \cup (DOut(d) \cap outN)]
        raises == Modelled /\ ~Repaired /\ ~hit /\ inst.outer = "additive" /\ AddFails(di2, do2, inN, r.pt)
        fresh == [ins |-> inN, outs |-> outN, all |-> r.all, pt |-> r.pt, di |-> di2, do |-> do2]
    IN  /\ hist' = Append(hist, r)
        /\ cIn' = cIn2 /\ cOut' = cOut2
        /\ reqIn' = inN /\ reqOut' = outN
        /\ failed' = raises
        /\ UNCHANGED inst
        /\ IF hit
           THEN /\ ret' = sto1 /\ sto' = sto1
                /\ UNCHANGED <<dIn, dOut, last>>
           ELSE /\ dIn' = di2 /\ dOut' = do2
                /\ last' = (IF Modelled /\ inst.outer = "chain" THEN [set |-> TRUE, ins |-> inN, outs |-> outN] ELSE last)
                /\ ret' = (IF raises THEN NoJac(0, N) ELSE fresh)
                \* simple_cache.py: cache_jacobian keeps the Jacobian already stored for this input point
                /\ sto' = (IF raises \/ sto1.ins # {} THEN sto1 ELSE fresh)

Init == /\ inst \in ToSet(Insts)
        /\ hist = <<>>
        /\ cIn = {} /\ cOut = {}
        /\ dIn = [d \in 1..inst.n |-> {}] /\ dOut = [d \in 1..inst.n |-> {}]
        /\ last = [set |-> FALSE, ins |-> {}, outs |-> {}]
        /\ ret = NoJac(0, inst.n) /\ sto = NoJac(0, inst.n)
        /\ failed = FALSE
        /\ reqIn = {} /\ reqOut = {}
Next == /\ Len(hist) < MaxHist
        /\ IF Exhaustive THEN \E r \in Alphabet : Request(r)
           ELSE (/\ Len(hist) < Len(inst.hist)
                 /\ Request(AsReq(inst.hist[Len(hist) + 1])))
Spec == Init /\ [][Next]_vars
\* the exhaustive configuration identifies histories that reach the same derived state
View == <<inst, cIn, cOut, dIn, dOut, last, ret, sto, failed, reqIn, reqOut>>

-----------------------------------------------------------------------------
(* Properties                                                               *)
WellFormed ==
    /\ N >= 1 /\ Len(inst.ins) = N /\ Len(inst.outs) = N
    /\ \A v \in Var : Sz(v) \in 1..2
    \* (a leaf may read and write the same name: self-overwriting member)
    /\ \A d \in 1..N : (DIn(d) # {} /\ DOut(d) # {} /\ DIn(d) \cup DOut(d) \subseteq Var)
    /\ \A d \in 1..N : \A o \in DOut(d) : \A i \in DIn(d) : IsMat(PM(d, o, i), Sz(o), Sz(i), -2, 2)
    /\ ToSet(inst.ord) = Var /\ Len(inst.ord) = inst.nv
    \* every leaf in exactly one block, blocks in listing order
    /\ LET cat[k \in 0..Len(Blocks)] == IF k = 0 THEN <<>> ELSE cat[k - 1] \o Blocks[k][2]
       IN  cat[Len(Blocks)] = [d \in 1..N |-> d]
    /\ \A k \in 1..Len(Blocks) : (Blocks[k][1] \in {"leaf", "chain", "parallel", "additive"}
                                   /\ (Blocks[k][1] = "leaf" => Len(Blocks[k][2]) = 1)
                                   /\ ToSet(Blocks[k][3]) \subseteq BOut(Blocks[k]))
    /\ inst.outer \in {"chain", "parallel", "additive", "mda"}
    /\ ToSet(inst.osum) \subseteq ChainOut
    /\ \A p \in 1..Len(inst.points) : \A v \in Var : Len(inst.points[p][v]) = Sz(v)
    /\ (~Exhaustive => \A k \in 1..Len(inst.hist) : ReqOK(AsReq(inst.hist[k])))
    \* the order-free kinds are only given data flows without a second definition of a name
    /\ (inst.outer = "mda" => ~Overwritten(Topo))

\* The class of the (instance, request) pair that a violation signature carries.  The classes other than
\* "plain" are those on which the code as read today does NOT implement the specification (DESIGN.md D18
\* and its parallel/additive relatives): TLC refutes AccIsTotal on them when CheckKnown = TRUE.
\* an output written by two members of a parallel chain (not one of the summed outputs of an additive chain)
DupOutput == /\ inst.outer \in {"parallel", "additive"}
             /\ \E v \in Var \ (IF inst.outer = "additive" THEN ToSet(inst.osum) ELSE {}) : Cardinality(Prod(Topo, v)) >= 2
SigClass ==
    IF inst.outer \in {"parallel", "additive"}
    THEN (IF inst.outer = "additive" /\ hist # <<>> /\
              \E o \in ToSet(inst.osum) : (o \notin reqOut \/ \E d \in 1..N : (o \notin DOut(d) \/ DIn(d) \cap reqIn = {}))
          \* a member that is not differentiated for a summed output: it does not write it, or reads none of
          \* the requested inputs, or the summed output is not requested (additive_chain.py:92-102)
          THEN "additive_undifferentiated_member"
          ELSE IF DupOutput
          THEN "duplicate_output"
          ELSE "plain")
    \* a member that reads and writes the same name(s); with polynomial members its partials depend on WHICH
    \* version of the name they are evaluated at
    ELSE IF SelfOverwriting(Topo) THEN (IF inst.poly THEN "self_overwriting_nonlinear" ELSE "self_overwriting")
    \* a name with two definitions along the chain: two producers, or a chain input and a producer
    ELSE (IF Overwritten(Topo) THEN "overwritten_variable" ELSE "plain")
\* The classes on which the model AS CONFIGURED is known to differ from the specification: every class but
\* "plain" for the rules as they were read before the repairs; with the repaired accumulation rules, only the
\* polynomial self-overwriting members as long as the linearization point is the one read in the code today.
DefectClass == IF Repaired THEN (SigClass = "self_overwriting_nonlinear" /\ ~RepairedPt) ELSE SigClass # "plain"
Agrees == LET fin == Final(jacPt)
              jac == Jac
          IN  /\ ~failed
              /\ Covers(jac, reqIn, reqOut)
              /\ \A o \in reqOut : \A i \in reqIn : jac[o][i] = Total(fin, o, i)
\* after every request the accumulated Jacobian is the total derivative on the requested pairs
AccIsTotal == (hist # <<>> /\ Modelled /\ (CheckKnown \/ ~DefectClass)) => Agrees
\* Requesting fewer inputs/outputs, or in several successive calls, never changes a returned block: what the
\* model returns after the history equals, on the requested pairs, what a FRESH process returns for the single
\* request compute_all_jacobians=True.
FreshAll(pt) ==
    IF inst.outer = "chain"
    THEN LET tr == Traverse(ChainIn, ChainOut)
         IN  ChainAcc([d \in 1..N |-> tr[d].in], [d \in 1..N |-> tr[d].out], ChainIn, ChainOut, pt)
    ELSE LET di == [d \in 1..N |-> DIn(d)]
             do == [d \in 1..N |-> DOut(d)]
             par == Fill(ParMerge(di, do, pt), ChainIn, ChainOut)
         IN  IF inst.outer = "additive" THEN (IF Repaired THEN AddSumRep(par, di, do, ChainIn, ChainOut, pt)
                                              ELSE AddSum(par, di, do, ChainIn, pt))
             ELSE par
RequestIndependence ==
    (hist # <<>> /\ Modelled /\ ~failed /\ (CheckKnown \/ ~DefectClass)) =>
        LET jac == Jac
            all == FreshAll(jacPt)
        IN  \A o \in reqOut : \A i \in reqIn : jac[o][i] = all[o][i]

\* The abstract specification written a second way, for the sequential chain of linear leaves: the total
\* derivative of the name v as it stands after the k first disciplines is, when discipline k writes v, the sum
\* over its inputs of partial x total derivative of that input BEFORE k, and is unchanged by k otherwise - the
\* sum over the data-flow paths of the products of the partials (a later writer hides the earlier ones).
RECURSIVE TotAt(_, _, _)
TotAt(k, v, w) ==
    IF k = 0 THEN (IF v = w /\ v \in ChainIn THEN Ident(Sz(v)) ELSE Zero(Sz(v), Sz(w)))
    ELSE IF v \in DOut(k)
    THEN MSumOver(DIn(k), LAMBDA i : MMul(PM(k, v, i), TotAt(k - 1, i, w)), Zero(Sz(v), Sz(w)))
    ELSE TotAt(k - 1, v, w)
PathSumIsTotal ==
    (hist = <<>> /\ Flat /\ inst.outer = "chain" /\ ~inst.poly) =>
        LET fin == Final(1) IN \A o \in ChainOut : \A w \in ChainIn : TotAt(N, o, w) = Total(fin, o, w)

\* blocks have the shape (|o|, |i|), zero blocks included
Shapes == (hist # <<>> /\ ~failed) =>
             LET jac == Jac IN \A o \in DOMAIN jac : \A i \in DOMAIN jac[o] : Shape(jac[o][i]) = <<Sz(o), Sz(i)>>
\* a name no requested input reaches has a zero block (the empty path sum)
StructuralZeros ==
    (hist # <<>> /\ ~failed) =>
       LET fin == Final(jacPt)
       IN  \A o \in reqOut : \A i \in reqIn :
              (i \notin Anc(Topo, o)) => Total(fin, o, i) = Zero(Sz(o), Sz(i))
\* the request contains a pair (output, input) without any data-flow path (its block is a structural zero)
IndependentPair == \E o \in reqOut : \E i \in reqIn : i \notin Anc(Topo, o)
\* the leaves' differentiated sets are within their grammars and only grow
SetsSane == \A d \in 1..N : (dIn[d] \subseteq DIn(d) /\ dOut[d] \subseteq DOut(d))

-----------------------------------------------------------------------------
(* Output for the binding: one INST line per instance (the expected blocks *)
(* and values at every point), one REQ line per request-history state.     *)
TotalTable(pt) == LET fin == Final(pt)
                  IN  [val |-> [o \in ChainOut |-> fin.val[o]],
                       jac |-> [o \in ChainOut |-> [i \in ChainIn |-> Total(fin, o, i)]]]
Emit ==
    IF hist = <<>>
    THEN PrintT(<<"INST", inst.id, ChainIn, ChainOut, Classes(Topo), SigClass,
                  [p \in 1..Len(inst.points) |-> TotalTable(p)]>>)
    ELSE PrintT(<<"REQ", inst.id, hist, reqIn, reqOut, Modelled, dIn, dOut, Agrees, SigClass, IndependentPair, DupOutput>>)
=============================================================================
