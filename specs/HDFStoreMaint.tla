---------------------------- MODULE HDFStoreMaint ----------------------------
(* Growth G02 (outside the listed properties) - the maintenance operations of  *)
(* gemseo.algos.database.Database interleaved with incremental (append) HDF5   *)
(* exports, to one or to two files.                                            *)
(*                                                                             *)
(* C11 / HDFStoreImpl cover "new points and new outputs at existing points".   *)
(* This module adds what the maintenance operations do to the same objects:    *)
(*   remove_empty_entries, clear_from_iteration(k), filter(names),             *)
(*   __delitem__(x), clear -- they edit Database.__data only;                  *)
(*   HDFDatabase.__pending_arrays (ONE buffer per database, whatever the file, *)
(*   in insertion order) is written by store and emptied by a completed        *)
(*   to_file only;                                                             *)
(*   to_file(append) addresses the file by the *position of the point in the   *)
(*   database* at the time of the export.                                      *)
(* The file layout, the reader (Decode) and the writer of one entry are those  *)
(* of HDFStoreImpl (instantiated below); the parts of the writer that the      *)
(* C11 model could leave out because its invariant FileWithinDb holds there    *)
(* (a truncated zip of missing names and indices, an empty index mapping       *)
(* replaced by the default one, an exception in the middle of a loop, which    *)
(* leaves a partly written file and a buffer that is not emptied) are spelled  *)
(* out here, line by line as in _hdf_database.py.                              *)
(*                                                                             *)
(* Two kinds of statements:                                                    *)
(*  - the code-shaped rules (actions): what gemseo does, to be matched by the  *)
(*    real Database and real files on every transition (harness: ImplShape);   *)
(*  - what a maintainer expects of them (ExportSucceeds, FilesLoadable,        *)
(*    FileIsLastExport = NoMissingData + NoStaleData + the order of points,    *)
(*    NoForeignOutputs, NamesAligned, AppendEqualsFull).  TLC refutes these on *)
(*    the code-shaped rules (the verdict on every state is in `viol`); the     *)
(*    harness replays the counterexamples on the real code.  With no           *)
(*    maintenance operation and one file they hold and the module refines      *)
(*    HDFStoreImpl (RefinesBase); a full export always repairs the file        *)
(*    (FullExportRepairs holds).                                               *)
EXTENDS Integers, Sequences, FiniteSets, TLC
CONSTANTS NKeys, Names, Scalars, Size1s, Vectors, Matrices,
          Files,        \* the files exported to, e.g. {"A", "B"}
          MaintOps,     \* the enabled maintenance operations, a subset of AllMaintOps
          Restore,      \* BOOLEAN: a point that was removed may be stored again (it goes to the end)
          MaxMaint,     \* bound on the number of maintenance operations in a history (0: no bound)
          MaxLevel      \* CONSTRAINT Bounded: the histories of at most MaxLevel - 1 operations
VARIABLES db,           \* Database.__data: sequence of [key, outs] (as in HDFStore)
          used,         \* the number of keys ever stored (keys are numbered by their first store)
          nm,           \* the number of maintenance operations so far
          pending,      \* HDFDatabase.__pending_arrays: sequence of keys, in insertion order
          files,        \* file id -> layout (as HDFStoreImpl!file: index -> [x, k, v, arr])
          ex,           \* file id -> the file exists
          diff,         \* file id -> in what the file, once loaded, differs from the content the database
                        \* had at its last completed export to it ({}: in nothing).  (files[f] and that
                        \* content change together, at the exports to f only: the comparison is made once,
                        \* there, instead of carrying the snapshot in the state; an export that raises
                        \* must leave the file as it was.)
          out,          \* the outcome of the last step: "none" or the exception to_file raised
          obs,          \* derived: file id -> what a loader gets (ok, db); a function of files
          viol          \* derived: the expectations that the state breaks; a function of the rest
vars == <<db, used, nm, pending, files, ex, diff, out, obs, viol>>

AllMaintOps == {"RemoveEmptyEntries", "ClearFromIteration", "Filter", "Delete", "Clear"}
ASSUME MaintOps \subseteq AllMaintOps /\ Restore \in BOOLEAN /\ MaxMaint \in Nat /\ Files # {}

\* the constant-level operators of HDFStoreImpl (layout, reader, writer of a fresh entry) and of HDFStore
K == INSTANCE HDFStoreImpl WITH file <- <<>>, exists <- FALSE, descr <- FALSE, WithProblem <- FALSE,
                                pending <- {}
NamesOf(e) == DOMAIN e.outs
KeysOf(s) == K!KeysOf(s)
Pos(s, key) == K!Pos(s, key)
Entry(key, names) == K!Abs!Entry(key, names)
Blank(key) == [x |-> key, k |-> <<>>, v |-> <<>>, arr |-> {}]
InSeq(s, x) == \E i \in 1..Len(s) : s[i] = x
Min(a, b) == IF a <= b THEN a ELSE b

\* ------------------------------------------------------------------ writing one entry (code-shaped)
\* __add_hdf_output_dataset(index, keys_group, values_group, output_values, output_name_to_idx):
\*   output_keys_sorted = sorted(output_values); the names are appended to k FIRST;
\*   "if not output_name_to_idx" -> the default mapping (also when the mapping given is EMPTY);
\*   for name in output_keys_sorted: idx = mapping[name] (KeyError), arrays are written at once
\*   (ValueError when the dataset idx exists), scalars are collected and written after the loop.
RECURSIVE OutLoop(_, _, _, _, _, _)
OutLoop(ks, map, outs, j, arr, vals) ==
  IF j > Len(ks) THEN [arr |-> arr, vals |-> vals, err |-> "none"]
  ELSE LET n == ks[j] IN
       IF n \notin DOMAIN map THEN [arr |-> arr, vals |-> vals, err |-> "KeyError"]
       ELSE IF K!IsArray(outs[n])
            THEN (IF \E a \in arr : a.idx = map[n]
                  THEN [arr |-> arr, vals |-> vals, err |-> "ValueError"]
                  ELSE OutLoop(ks, map, outs, j + 1,
                               arr \cup {[idx |-> map[n], kind |-> outs[n].kind, val |-> outs[n].val]}, vals))
            ELSE OutLoop(ks, map, outs, j + 1, arr, Append(vals, outs[n].val))
\* names: the names to write (a subset of DOMAIN outs); ids: the indices zipped with the sorted names
AddOutputs(fe, outs, names, ids) ==
  LET ks == K!SortNames(names)
      m == Min(Len(ks), Len(ids))                                         \* zip stops at the shorter
      rank(n) == CHOOSE j \in 1..Len(ks) : ks[j] = n
      map == IF m = 0 THEN [n \in names |-> rank(n) - 1]                   \* dict(zip(sorted, range(len)))
             ELSE [n \in {ks[j] : j \in 1..m} |-> ids[rank(n)]]
      r == OutLoop(ks, map, outs, 1, fe.arr, <<>>)
  IN [fe |-> [fe EXCEPT !.k = @ \o ks, !.arr = r.arr,
                        !.v = IF r.err = "none" THEN @ \o r.vals ELSE @],
      err |-> r.err]
\* __create_hdf_input_output: a new x dataset, then the outputs with the default mapping
NewEntry(e) == AddOutputs(Blank(e.key), e.outs, NamesOf(e), <<>>).fe
\* __append_hdf_output / __get_missing_hdf_output_dataset: the names of the database entry that are not
\* in k, with missing_ids = range(len(existing names), len(output_values))
AppendOutputs(fe, e) ==
  LET existing == {fe.k[j] : j \in 1..Len(fe.k)}
      missing == NamesOf(e) \ existing
      n == Cardinality(NamesOf(e))
      ids == [j \in 1..(IF n > Len(fe.k) THEN n - Len(fe.k) ELSE 0) |-> Len(fe.k) + j - 1]
  IN IF missing = {} THEN [fe |-> fe, err |-> "none"] ELSE AddOutputs(fe, e.outs, missing, ids)

FullLayout(d) == [i \in 1..Len(d) |-> NewEntry(d[i])]
Extend(f, p, fe) == [i \in (DOMAIN f) \cup {p} |-> IF i = p THEN fe ELSE f[i]]

\* to_file(append) with a non-empty x group:  for input_values in self.__pending_arrays.values():
\*   output_values = database[input_values]            (KeyError when the point was removed)
\*   index_dataset = position of input_values in the database
\*   str(index_dataset) in x ? __append_hdf_output : __create_hdf_input_output
\* an exception leaves what was written so far in the file (mode "a")
RECURSIVE AppendLoop(_, _)
AppendLoop(f, i) ==
  IF i > Len(pending) THEN [file |-> f, err |-> "none"]
  ELSE IF pending[i] \notin KeysOf(db) THEN [file |-> f, err |-> "KeyError"]
  ELSE LET p == Pos(db, pending[i]) IN
       IF p \in DOMAIN f
       THEN (LET r == AppendOutputs(f[p], db[p]) IN
             IF r.err = "none" THEN AppendLoop([f EXCEPT ![p] = r.fe], i + 1)
             ELSE [file |-> [f EXCEPT ![p] = r.fe], err |-> r.err])
       ELSE AppendLoop(Extend(f, p, NewEntry(db[p])), i + 1)

Written(f, append) ==
  IF append /\ DOMAIN f # {}                                      \* append and len(design_vars_grp) != 0
  THEN AppendLoop(f, 1)
  ELSE [file |-> FullLayout(db), err |-> "none"]                   \* mode "w", or an empty x group

\* ------------------------------------------------------------------ reading (Database.from_hdf)
\* range(len(x)) must hit existing datasets and every array index a name: otherwise the loader raises
Loadable(f) == K!Contiguous(f) /\ \A i \in DOMAIN f : K!DecodeOK(f[i])
\* database.store(x, outputs) entry after entry: two entries with one x are merged (dict.update)
Load(f) == K!Abs!StoreAll(<<>>, K!DecodeFile(f), 1)
ObserveOne(l) == IF Loadable(l) THEN [ok |-> TRUE, db |-> Load(l)] ELSE [ok |-> FALSE, db |-> <<>>]
Observe(fl) == [f \in Files |-> ObserveOne(fl[f])]

\* ------------------------------------------------------------------ what the maintainers expect
OwnerOf(val) == val \div 10                                        \* Val(key, n) = 10 * key + Rank(n)
DecodedEntries(f) == {K!Decode(f[i]) : i \in {j \in DOMAIN f : K!DecodeOK(f[j])}}
Foreign(f) == \E e \in DecodedEntries(f) : \E n \in NamesOf(e) : OwnerOf(e.outs[n].val) # e.key
Misnamed(f) == \E e \in DecodedEntries(f) : \E n \in NamesOf(e) :
                   OwnerOf(e.outs[n].val) = e.key /\ e.outs[n] # K!Abs!Out(e.key, n)
\* l covers d: every point of d is in l with at least the outputs it has in d, and the same values
Covers(l, d) == \A i \in DOMAIN d : \E j \in DOMAIN l :
                   /\ l[j].key = d[i].key
                   /\ \A n \in NamesOf(d[i]) : n \in NamesOf(l[j]) /\ l[j].outs[n] = d[i].outs[n]
\* the file layout l against the content d of the database that was exported to it
DiffKinds == {"MissingData", "StaleData", "Reordered", "PartialWrite"}
Compare(l, d) ==
  IF ~Loadable(l) THEN {}                                          \* reported as Unloadable
  ELSE (IF Covers(Load(l), d) THEN {} ELSE {"MissingData"})        \* something of the database is not in the file
       \cup (IF Covers(d, Load(l)) THEN {} ELSE {"StaleData"})     \* the file has what the database had not
       \cup (IF Covers(Load(l), d) /\ Covers(d, Load(l)) /\ Load(l) # d THEN {"Reordered"} ELSE {})
Verdict(fl, e, df, o) ==
  (IF o # "none" THEN {"ExportRaises"} ELSE {})
  \cup (IF \E g \in Files : e[g] /\ ~Loadable(fl[g]) THEN {"Unloadable"} ELSE {})
  \cup UNION {df[g] : g \in {h \in Files : e[h] /\ Loadable(fl[h])}}
  \cup (IF \E g \in Files : Foreign(fl[g]) THEN {"ForeignOutputs"} ELSE {})
  \cup (IF \E g \in Files : Misnamed(fl[g]) THEN {"MisnamedOutputs"} ELSE {})
\* the derived variables after a step that leaves the files alone / after an export to f (DerivedOK)
QuietDerived == obs' = obs /\ viol' = viol \ {"ExportRaises"}
ExportDerived(f) == /\ obs' = [obs EXCEPT ![f] = ObserveOne(files'[f])]
                    /\ viol' = Verdict(files', ex', diff', out')

\* ------------------------------------------------------------------ actions
Init == /\ db = <<>> /\ used = 0 /\ nm = 0 /\ pending = <<>>
        /\ files = [f \in Files |-> <<>>] /\ ex = [f \in Files |-> FALSE]
        /\ diff = [f \in Files |-> {}] /\ out = "none"
        /\ obs = Observe(files) /\ viol = {}

Touch(key) == IF InSeq(pending, key) THEN pending ELSE Append(pending, key)     \* add_pending_array
Quiet == UNCHANGED <<files, ex, diff>> /\ out' = "none" /\ QuietDerived

\* Database.store(x_new, {names}): a point never stored, or (Restore) one that was removed
Store(key, names) ==
  /\ key \in 1..NKeys /\ key \notin KeysOf(db)
  /\ (key = used + 1 \/ (Restore /\ key <= used))
  /\ db' = Append(db, Entry(key, names))
  /\ used' = IF key > used THEN key ELSE used
  /\ pending' = Touch(key)
  /\ UNCHANGED nm /\ Quiet

\* Database.store(x_existing, {new names}); names = {} is a store that brings nothing new
StoreMore(key, names) ==
  /\ key \in KeysOf(db)
  /\ names \cap NamesOf(db[Pos(db, key)]) = {}
  /\ db' = K!Abs!StoreInto(db, Entry(key, names))
  /\ pending' = Touch(key)
  /\ UNCHANGED <<used, nm>> /\ Quiet

Maint(op) == /\ op \in MaintOps
             /\ (MaxMaint = 0 \/ nm < MaxMaint) /\ nm' = (IF MaxMaint = 0 THEN 0 ELSE nm + 1)
             /\ UNCHANGED <<used, pending>> /\ Quiet           \* the buffer is not told

RemoveEmptyEntries ==
  /\ Maint("RemoveEmptyEntries")
  /\ db' = SelectSeq(db, LAMBDA e : NamesOf(e) # {})

\* iteration in {-N..-1, 1..N}; the items after it are deleted
ClearFromIteration(k) ==
  /\ Maint("ClearFromIteration")
  /\ k # 0 /\ -Len(db) <= k /\ k <= Len(db)
  /\ db' = SubSeq(db, 1, IF k > 0 THEN k ELSE Len(db) + k + 1)

Filter(names) ==
  /\ Maint("Filter")
  /\ db' = [i \in DOMAIN db |-> [db[i] EXCEPT !.outs = [n \in (DOMAIN @) \cap names |-> @[n]]]]

Delete(key) ==
  /\ Maint("Delete")
  /\ key \in KeysOf(db)
  /\ db' = SelectSeq(db, LAMBDA e : e.key # key)

Clear ==
  /\ Maint("Clear")
  /\ db' = <<>>

\* Database.to_hdf(path of f, append); the files are interchangeable: the first export goes to the
\* first file (symmetry)
FirstFile == IF "A" \in Files THEN "A" ELSE CHOOSE f \in Files : TRUE
ExportTo(f, append) ==
  /\ f \in Files /\ (f = FirstFile \/ ex[FirstFile])
  /\ LET w == Written(files[f], append) IN
       /\ files' = [files EXCEPT ![f] = w.file]
       /\ out' = w.err
       /\ pending' = IF w.err = "none" THEN <<>> ELSE pending     \* __pending_arrays.clear(), last line
       /\ diff' = [diff EXCEPT ![f] = IF w.err = "none" THEN Compare(w.file, db)
                                      ELSE @ \cup (IF w.file = files[f] THEN {} ELSE {"PartialWrite"})]
  /\ ex' = [ex EXCEPT ![f] = TRUE]
  /\ UNCHANGED <<db, used, nm>>
  /\ ExportDerived(f)

Next == \/ \E key \in 1..NKeys, names \in SUBSET Names : Store(key, names) \/ StoreMore(key, names)
        \/ RemoveEmptyEntries
        \/ \E k \in -NKeys..NKeys : ClearFromIteration(k)
        \/ \E names \in SUBSET Names : Filter(names)
        \/ \E key \in 1..NKeys : Delete(key)
        \/ Clear
        \/ \E f \in Files, a \in BOOLEAN : ExportTo(f, a)
Spec == Init /\ [][Next]_vars
Bounded == TLCGet("level") <= MaxLevel

-----------------------------------------------------------------------------
\* what holds of the code-shaped rules (checked on every exploration)
FileEntryOK(fe) ==
  /\ fe.x \in 1..NKeys
  /\ \A j \in 1..Len(fe.k) : fe.k[j] \in Names
  /\ \A a \in fe.arr : a.idx \in Nat /\ a.kind \in K!Abs!Kinds \ {"scalar"}
TypeOK == /\ Len(db) <= NKeys /\ \A i \in DOMAIN db : K!Abs!EntryOK(db[i])
          /\ K!NoDup([i \in DOMAIN db |-> db[i].key]) /\ KeysOf(db) \subseteq 1..used /\ used <= NKeys
          /\ K!NoDup(pending) /\ \A i \in 1..Len(pending) : pending[i] \in 1..used
          /\ \A f \in Files : /\ DOMAIN files[f] \subseteq 1..NKeys
                              /\ \A i \in DOMAIN files[f] : FileEntryOK(files[f][i]) /\ K!NoDup(files[f][i].k)
                              /\ ex[f] \in BOOLEAN /\ diff[f] \subseteq DiffKinds /\ (~ex[f] => files[f] = <<>> /\ diff[f] = {})
          /\ out \in {"none", "KeyError", "ValueError"}
          /\ nm \in Nat /\ (MaxMaint > 0 => nm <= MaxMaint)
DerivedOK == obs = Observe(files) /\ viol = Verdict(files, ex, diff, out)
\* the writer of a fresh entry is HDFStoreImpl's, and a full export decodes to the database
NewEntryAgrees == \A i \in DOMAIN db : NewEntry(db[i]) = K!NewEntry(db[i])
FullDecodes == Loadable(FullLayout(db)) /\ Load(FullLayout(db)) = db
\* an export that raised keeps the buffer; one that completed emptied it
BufferRule == (out # "none") => pending # <<>>

\* the way out that the rules do give: a full export (append = False) never raises and leaves exactly the
\* database in the file, whatever happened before
FullExportRepairs ==
  [][\A f \in Files : ExportTo(f, FALSE)
        => (out' = "none" /\ pending' = <<>> /\ Loadable(files'[f]) /\ Load(files'[f]) = db' /\ diff'[f] = {})]_vars

\* what the maintainers expect (refuted by TLC on the rules above, except in the base configuration)
ExportSucceeds == out = "none"
FilesLoadable == \A f \in Files : ex[f] => Loadable(files[f])
FileIsLastExport == \A f \in Files : (ex[f] /\ Loadable(files[f])) => diff[f] = {}
NoMissingData == \A f \in Files : (ex[f] /\ Loadable(files[f])) => "MissingData" \notin diff[f]
NoStaleData == \A f \in Files : (ex[f] /\ Loadable(files[f])) => "StaleData" \notin diff[f]
NoForeignOutputs == \A f \in Files : ~Foreign(files[f])
NamesAligned == \A f \in Files : ~Misnamed(files[f])
Expected == viol = {}
\* an append export that completes leaves what one full export of the database leaves
AppendEqualsFull ==
  [][\A f \in Files : (ExportTo(f, TRUE) /\ out' = "none")
        => (Loadable(files'[f]) /\ Load(files'[f]) = Load(FullLayout(db')))]_vars

\* with no maintenance operation and one file this module is HDFStoreImpl
TheFile == CHOOSE f \in Files : TRUE
Base == INSTANCE HDFStoreImpl WITH file <- files[TheFile], exists <- ex[TheFile], descr <- FALSE,
                                   WithProblem <- FALSE,
                                   pending <- {pending[i] : i \in 1..Len(pending)}
RefinesBase == Base!Spec
=============================================================================
