------------------------------- MODULE Lifecycle -------------------------------
(* C20 - "Serialized disciplines, processes and problems behave like the originals".    *)
(*                                                                                      *)
(* Two worlds, "orig" and "copy", of one abstract discipline / process / problem.       *)
(* The object is a bundle of MUTABLE ATTRIBUTES, each living in a heap cell:            *)
(*     cache : kind (none | simple | mem | hdf), in-memory entries, attached file       *)
(*     ctr   : execution / linearization counters (multiprocessing.Value in the code)   *)
(*     gram  : the grammars; abstractly the default of the one defaulted input          *)
(*     data  : moment of life, last local data, history the outputs depend on           *)
(*     sett  : one user-settable setting                                                *)
(* ref[w][a] is the cell that world w's attribute a points to.  Cell 1 of every         *)
(* attribute belongs to the original; Pickle fills cell 2 BY VALUE (Project) and makes  *)
(* the copy point to it.  Files (HDF5 nodes) are a separate, persistent store that both *)
(* worlds reach through the file id held in their cache cell.                           *)
(*                                                                                      *)
(* Every public operation is a pure step function  Do(W, a)  on the VALUE W of a world  *)
(* (its cells + the content of its file) returning the observable return `ret` and the  *)
(* successor value; the actions write the successor back through the references.  That  *)
(* makes "for every action a, Ret(a, copy) = Ret(a, orig) and the successors are equal" *)
(* an ordinary state predicate (SameBehaviour), evaluated by TLC after every Pickle at  *)
(* every depth of the prefix, and it makes sharing visible: if the copy pointed to a    *)
(* cell of the original (Shared # {}), an action on one world would change the other    *)
(* (NoSharing, NoSharingStep).  Dropped # {} restores an attribute to its constructor   *)
(* value instead of carrying it over.  The configuration the property states is         *)
(* Shared = {} and Dropped = {}; the check also runs TLC with each single attribute     *)
(* shared / dropped and requires the corresponding invariant to be REFUTED (the         *)
(* invariants are not vacuous).                                                         *)
(*                                                                                      *)
(* Inputs: x \in X is supplied by the caller, the other input takes the default held by *)
(* the grammar; the completed input is the point <<x, dflt>>.  Outputs are a function   *)
(* of the point (and, for Stateful objects - warm-started chains, scenarios - of the    *)
(* sequence `mem` of points at which the body ran before): the label <<pt, mem>> in     *)
(* `ret` names the value the call must return; equal labels = equal values.             *)
(*                                                                                      *)
(* File-backed cache.  FileMode = "shared" is the property as stated: the restored      *)
(* cache is attached to the same file/node, both worlds see the file.  FileMode =       *)
(* "snapshot" models what the harness does to keep replaying everything else in spite   *)
(* of finding D11 (two cache objects on one node do not see each other's later entries):*)
(* at pickling time the file is byte-copied and the copy is attached to the snapshot.   *)
(*                                                                                      *)
(* Generations.  A restored object is an object like any other: it is edited and        *)
(* pickled again (a worker sends it on, a session saves what it loaded).  `gen` counts  *)
(* the Pickles of the behaviour.  At Pickle number k+1 (k >= 1) the object restored by  *)
(* Pickle number k (world "copy") BECOMES the original (its cells move to cell 1) and   *)
(* the new copy is its projection: SameBehaviour / SameState / CountersByValue /        *)
(* NoSharing are evaluated between generation k and k+1 for every k < MaxGen.  Between  *)
(* two Pickles only the restored object acts (<= MaxMid steps).  Generations > 1 are    *)
(* explored without file-backed caches (ASSUME below).                                  *)
(*                                                                                      *)
(* Grammar edits.  The grammar cell holds, for the defaulted input p: whether it has a  *)
(* default (has) and which (dflt), whether p is required (req), and whether the OTHER   *)
(* inputs still have the defaults the constructor gave them (rest).  SetDefault,        *)
(* DelDefault (del defaults[p]), ClearDefaults(h) (all defaults, by defaults.clear() or *)
(* by assigning an empty mapping), Unrequire (required_names.remove(p)).  The caller of *)
(* Execute/Linearize supplies x and every other input the grammar holds no default for, *)
(* except p: when p has no default and is required the call fails (ret.err) and changes *)
(* nothing; when p has no default and is not required what the body does is class       *)
(* specific: the call is not enabled.                                                   *)
(*                                                                                      *)
(* Methods.  How the object travels does not matter to Project: "dumps", "file"         *)
(* (to_pickle/from_pickle), "spawn" (through another interpreter and back), "session"   *)
(* (restored IN another interpreter - another string-hash seed - where it stays: every  *)
(* later action on that world runs there).                                              *)
EXTENDS Naturals, Sequences, FiniteSets, TLC

CONSTANTS X,          \* caller-supplied input values, e.g. {1, 2}
          DV,         \* values of the default of the defaulted input, e.g. {0, 1}; 0 = constructor's
          ConfNames,  \* the object/cache configurations explored (one initial state each), see AllConfigs
          HasDefault, \* the class has a defaulted input (SetDefault enabled)
          MaxPre,     \* actions before the first Pickle
          MaxSuf,     \* actions after the last Pickle
          MaxGen,     \* Pickles per behaviour (1 = prefix . Pickle . suffix)
          MaxMid,     \* actions of the restored object between two Pickles
          Methods,    \* ways of pickling: "dumps", "file" (to_pickle/from_pickle), "spawn", "session" (child process)
          ActNames,   \* the actions explored (a bound: leaving one out removes behaviours only)
          LastActNames, \* the actions explored after the last Pickle (a bound)
          ClearHows,  \* ways of removing all defaults: "clear" (defaults.clear()), "assign" (defaults = {})
          Resurrect,  \* a grammar restored without defaults takes those of the previous pickle (must be FALSE)
          LastFromNewest, \* the restored cache takes its newest entry as last entry (must be FALSE for the property)
          Shared,     \* attributes the copy shares with the original (must be {} for the property)
          Dropped     \* attributes reset instead of carried over   (must be {} for the property)

Worlds == {"orig", "copy"}
Other(w) == IF w = "orig" THEN "copy" ELSE "orig"
Attrs == {"cache", "ctr", "gram", "data", "sett"}
Points == X \X DV
P0 == <<0, 0>>
\* the entries of a cache (or of a file): the points with outputs / with a Jacobian, and the most recently
\* CREATED entry (what a cache object attaching itself to a non-empty file takes as its last entry)
NoEnts == [outs |-> {}, jacs |-> {}, hasNew |-> FALSE, newest |-> <<0, 0>>]

(* Configurations: kinds = the cache kinds SetCache may select, init = the kind at construction,     *)
(* fileMode = "shared" | "snapshot", jacInRun = the body computes the Jacobian while executing (no    *)
(* separate linearization run), stateful = the outputs depend on the points executed before,         *)
(* callCount = the execution counter counts calls, served from the cache or not (the n_calls of the  *)
(* functions of an optimization problem, whose database plays the part of the "mem" cache).          *)
Cfg(n, ks, k0, fm, jr, sf, cc) == [name |-> n, kinds |-> ks, init |-> k0, fileMode |-> fm, jacInRun |-> jr,
                                   stateful |-> sf, callCount |-> cc]
AllConfigs == { Cfg("simple",       {"none", "simple"}, "simple", "shared",   FALSE, FALSE, FALSE),
                Cfg("mem",          {"simple", "mem"},  "mem",    "shared",   FALSE, FALSE, FALSE),
                Cfg("hdf-snapshot", {"simple", "hdf"},  "hdf",    "snapshot", FALSE, FALSE, FALSE),
                Cfg("hdf-shared",   {"simple", "hdf"},  "hdf",    "shared",   FALSE, FALSE, FALSE),
                Cfg("jacinrun",     {"simple", "mem"},  "simple", "shared",   TRUE,  FALSE, FALSE),
                Cfg("jacinrun-hdf", {"simple", "hdf"},  "hdf",    "snapshot", TRUE,  FALSE, FALSE),
                Cfg("stateful",     {"none"},           "none",   "shared",   FALSE, TRUE,  FALSE),
                Cfg("nocache",      {"none"},           "none",   "shared",   FALSE, FALSE, FALSE),
                Cfg("db",           {"mem"},            "mem",    "shared",   FALSE, FALSE, TRUE) }
Configs == {c \in AllConfigs : c.name \in ConfNames}
AllKinds == {"none", "simple", "mem", "hdf"}

ASSUME /\ Configs # {}
       /\ \A c \in AllConfigs : c.init \in c.kinds /\ c.kinds \subseteq AllKinds /\ (c.stateful => c.kinds = {"none"})
       /\ Shared \subseteq Attrs /\ Dropped \subseteq Attrs
       /\ 0 \in DV /\ 0 \notin X
       /\ MaxGen \in Nat \ {0} /\ MaxMid \in Nat /\ Resurrect \in BOOLEAN /\ ClearHows # {}
       /\ (MaxGen > 1 => \A c \in Configs : "hdf" \notin c.kinds)

VARIABLES conf,     \* the configuration of this behaviour (constant along it)
          ref,      \* ref[w][a] \in {1, 2}
          cache,    \* cache[i] = [kind, outs, jacs, hasNew, newest, file, hasLast, last]; last = the entry last
                    \*            WRITTEN (cache.last_entry: what a warm-started process starts from)
          ctr,      \* ctr[i]   = [ne, nl]
          gram,     \* gram[i]  = [has, dflt, req, rest]
          data,     \* data[i]  = [moment, has, pt, mem]
          sett,     \* sett[i]  \in {0, 1}
          files,    \* files[f] = [outs, jacs, hasNew, newest]   f \in {1, 2}
          gen,      \* number of Pickles so far
          np, ns,   \* steps before the first Pickle / since the latest one
          pg,       \* the grammar value carried by the latest Pickle (recorded only when Resurrect)
          ret       \* what the last call did / returned
cells == <<cache, ctr, gram, data, sett>>
vars == <<conf, ref, cells, files, gen, np, ns, pg, ret>>
pickled == gen > 0
Kinds == conf.kinds
InitKind == conf.init
FileMode == conf.fileMode
JacInRun == conf.jacInRun
Stateful == conf.stateful
CallCount == conf.callCount

NewCache(k, f) == [kind |-> k, outs |-> {}, jacs |-> {}, hasNew |-> FALSE, newest |-> P0,
                   file |-> IF k = "hdf" THEN f ELSE 0, hasLast |-> FALSE, last |-> P0]
NewCtr  == [ne |-> 0, nl |-> 0]
NewGram == [has |-> TRUE, dflt |-> 0, req |-> TRUE, rest |-> TRUE]
NewData == [moment |-> "fresh", has |-> FALSE, pt |-> P0, mem |-> <<>>]
\* the file a world's caches are created on: one file per object, the copy's own one in snapshot mode
FileOf(w) == IF w = "orig" \/ FileMode = "shared" THEN 1 ELSE 2

NoRet == [w |-> "orig", act |-> "Init", x |-> 0, v |-> 0, k |-> "none", how |-> "",
          pt |-> P0, mem |-> <<>>, hit |-> FALSE, jhit |-> FALSE, ran |-> FALSE, lin |-> FALSE, err |-> FALSE]

-----------------------------------------------------------------------------
(* The value of a world: its cells and the content of the file its cache is attached to *)
WV(w) == LET c == cache[ref[w].cache] IN
         [cache |-> c, fil |-> IF c.kind = "hdf" THEN files[c.file] ELSE NoEnts,
          ctr |-> ctr[ref[w].ctr], gram |-> gram[ref[w].gram], data |-> data[ref[w].data],
          sett |-> sett[ref[w].sett]]

Ents(W) == IF W.cache.kind = "hdf" THEN W.fil
           ELSE [outs |-> W.cache.outs, jacs |-> W.cache.jacs, hasNew |-> W.cache.hasNew, newest |-> W.cache.newest]
PutEnts(W, e) == IF W.cache.kind = "hdf" THEN [W EXCEPT !.fil = e]
                 ELSE [W EXCEPT !.cache.outs = e.outs, !.cache.jacs = e.jacs,
                                !.cache.hasNew = e.hasNew, !.cache.newest = e.newest]
\* a write at pt (outputs or Jacobian stored) makes pt the last entry; reading (a hit) does not
Touch(W, pt) == IF W.cache.kind = "none" THEN W ELSE [W EXCEPT !.cache.hasLast = TRUE, !.cache.last = pt]
Pt(W, x) == <<x, W.gram.dflt>>

\* an action instance; all fields always present (same type)
Act(a, x, v, k) == [act |-> a, x |-> x, v |-> v, k |-> k]
Acts == {Act("Execute", x, 0, "none") : x \in X} \cup {Act("Linearize", x, 0, "none") : x \in X}
        \cup {Act("SetDefault", 0, v, "none") : v \in DV} \cup {Act("SetSetting", 0, 0, "none")}
        \cup {Act("SetCache", 0, 0, k) : k \in AllKinds} \cup {Act("ClearCache", 0, 0, "none")}
        \cup {Act("DelDefault", 0, 0, "none"), Act("Unrequire", 0, 0, "none")}
        \cup {Act("ClearDefaults", 0, 0, h) : h \in ClearHows}

\* the required input p has no value: the call is refused before anything happens
Missing(W) == ~W.gram.has /\ W.gram.req

Enabled(W, a) ==
    /\ a.act \in ActNames
    /\ CASE a.act = "SetDefault" -> HasDefault /\ (~W.gram.has \/ a.v # W.gram.dflt)
         [] a.act = "DelDefault" -> HasDefault /\ W.gram.has
         [] a.act = "ClearDefaults" -> HasDefault /\ (W.gram.has \/ W.gram.rest)
         [] a.act = "Unrequire"  -> HasDefault /\ W.gram.req
         [] a.act \in {"Execute", "Linearize"} -> W.gram.has \/ W.gram.req
         [] a.act = "SetCache"   -> a.k \in Kinds /\ a.k # W.cache.kind
         \* HDF5Cache.clear() on a node that was never written raises KeyError (D13, outside this property)
         [] a.act = "ClearCache" -> W.cache.kind # "none" /\ (W.cache.kind = "hdf" => W.fil.outs # {})
         [] OTHER -> TRUE

\* execute(x): served from the cache when the completed input has outputs there, otherwise the body
\* runs once, the counter moves and the outputs are stored (a simple cache keeps the latest input only)
ExecStep(W, x) ==
    LET pt  == Pt(W, x)
        e   == Ents(W)
        hit == W.cache.kind # "none" /\ pt \in e.outs
        jn  == IF JacInRun THEN {pt} ELSE {}
        st  == CASE W.cache.kind = "none"   -> e
                 [] W.cache.kind = "simple" -> [outs |-> {pt}, jacs |-> jn, hasNew |-> TRUE, newest |-> pt]
                 [] OTHER                   -> [outs |-> e.outs \cup {pt}, jacs |-> e.jacs \cup jn,
                                                hasNew |-> TRUE, newest |-> pt]
        D1  == [W.data EXCEPT !.moment = "executed", !.has = TRUE, !.pt = pt]
    IN IF Missing(W)
       THEN [ret |-> [NoRet EXCEPT !.act = "Execute", !.x = x, !.err = TRUE], next |-> W]
       ELSE IF hit
       THEN [ret |-> [NoRet EXCEPT !.act = "Execute", !.x = x, !.pt = pt, !.mem = W.data.mem, !.hit = TRUE],
             next |-> [W EXCEPT !.data = D1, !.ctr.ne = IF CallCount THEN @ + 1 ELSE @]]
       ELSE [ret |-> [NoRet EXCEPT !.act = "Execute", !.x = x, !.pt = pt, !.mem = W.data.mem, !.ran = TRUE],
             next |-> [Touch(PutEnts(W, st), pt) EXCEPT !.ctr.ne = @ + 1,
                          !.data = [D1 EXCEPT !.mem = IF Stateful THEN Append(@, pt) ELSE @]]]

\* linearize(x) (all Jacobians, execute=True): executes first (possibly from the cache); the Jacobian is
\* served when the entry holds one, otherwise computed once, counted and attached to the entry
LinStep(W, x) ==
    LET E    == ExecStep(W, x)
        pt   == E.ret.pt
        jhit == E.ret.hit /\ pt \in Ents(W).jacs
        lin  == ~jhit /\ ~JacInRun
        W1   == E.next
        e1   == Ents(W1)
        W2a  == IF W1.cache.kind = "none" THEN W1
                ELSE PutEnts(W1, [e1 EXCEPT !.jacs = @ \cup {pt}])
        W2   == IF lin THEN Touch(W2a, pt) ELSE W2a   \* the computed Jacobian is written to the entry of pt
    IN IF Missing(W)
       THEN [ret |-> [E.ret EXCEPT !.act = "Linearize"], next |-> W]
       ELSE [ret |-> [E.ret EXCEPT !.act = "Linearize", !.jhit = jhit, !.lin = lin],
             next |-> [W2 EXCEPT !.ctr.nl = IF lin THEN @ + 1 ELSE @, !.data.moment = "linearized"]]

\* fc: content of the file a new hdf cache would be attached to
Do(W, a, f, fc) ==
    CASE a.act = "Execute"    -> ExecStep(W, a.x)
      [] a.act = "Linearize"  -> LinStep(W, a.x)
      [] a.act = "SetDefault" -> [ret |-> [NoRet EXCEPT !.act = "SetDefault", !.v = a.v],
                                  next |-> [W EXCEPT !.gram.has = TRUE, !.gram.dflt = a.v]]
      [] a.act = "DelDefault" -> [ret |-> [NoRet EXCEPT !.act = "DelDefault"],
                                  next |-> [W EXCEPT !.gram.has = FALSE, !.gram.dflt = 0]]
      [] a.act = "ClearDefaults" -> [ret |-> [NoRet EXCEPT !.act = "ClearDefaults", !.how = a.k],
                                     next |-> [W EXCEPT !.gram.has = FALSE, !.gram.dflt = 0, !.gram.rest = FALSE]]
      [] a.act = "Unrequire"  -> [ret |-> [NoRet EXCEPT !.act = "Unrequire"],
                                  next |-> [W EXCEPT !.gram.req = FALSE]]
      [] a.act = "SetSetting" -> [ret |-> [NoRet EXCEPT !.act = "SetSetting", !.v = 1 - W.sett],
                                  next |-> [W EXCEPT !.sett = 1 - @]]
      [] a.act = "SetCache"   -> [ret |-> [NoRet EXCEPT !.act = "SetCache", !.k = a.k],
                                  \* a cache attaching itself to a non-empty file starts at its newest entry
                                  next |-> [W EXCEPT !.cache = IF a.k = "hdf" /\ fc.hasNew
                                                               THEN [NewCache(a.k, f) EXCEPT !.hasLast = TRUE, !.last = fc.newest]
                                                               ELSE NewCache(a.k, f),
                                                     !.fil = IF a.k = "hdf" THEN fc ELSE NoEnts]]
      [] a.act = "ClearCache" -> [ret |-> [NoRet EXCEPT !.act = "ClearCache"],
                                  next |-> [PutEnts(W, NoEnts) EXCEPT !.cache.hasLast = FALSE, !.cache.last = P0]]

-----------------------------------------------------------------------------
Init == /\ conf \in Configs
        /\ ref = [w \in Worlds |-> [a \in Attrs |-> 1]]
        /\ cache = [i \in {1, 2} |-> NewCache(InitKind, 1)]
        /\ ctr = [i \in {1, 2} |-> NewCtr]
        /\ gram = [i \in {1, 2} |-> NewGram]
        /\ data = [i \in {1, 2} |-> NewData]
        /\ sett = [i \in {1, 2} |-> 0]
        /\ files = [f \in {1, 2} |-> NoEnts]
        /\ gen = 0 /\ np = 0 /\ ns = 0 /\ pg = NewGram /\ ret = NoRet

\* before the first Pickle only the original exists; between two Pickles the restored object is the one
\* that is used and sent on; after the last Pickle both worlds act
Active(w) == IF gen = 0 THEN (w = "orig" /\ np < MaxPre)
             ELSE IF gen < MaxGen THEN (w = "copy" /\ ns < MaxMid)
             ELSE ns < MaxSuf

Apply(w, a) ==
    LET W == WV(w)
        f == FileOf(w)
        S == Do(W, a, f, files[f])
        N == S.next
    IN /\ Active(w)
       /\ Enabled(W, a)
       /\ (gen = MaxGen => a.act \in LastActNames)
       /\ cache' = [cache EXCEPT ![ref[w].cache] = N.cache]
       /\ ctr'   = [ctr   EXCEPT ![ref[w].ctr]   = N.ctr]
       /\ gram'  = [gram  EXCEPT ![ref[w].gram]  = N.gram]
       /\ data'  = [data  EXCEPT ![ref[w].data]  = N.data]
       /\ sett'  = [sett  EXCEPT ![ref[w].sett]  = N.sett]
       /\ files' = IF N.cache.kind = "hdf" THEN [files EXCEPT ![N.cache.file] = N.fil] ELSE files
       /\ ret' = [S.ret EXCEPT !.w = w]
       /\ (IF pickled THEN ns' = ns + 1 /\ np' = np ELSE np' = np + 1 /\ ns' = ns)
       /\ UNCHANGED <<conf, ref, gen, pg>>

\* (the leading conjunct keeps the action's own name in TLC's coverage and edge labels)
Execute(w, x)    == w \in Worlds /\ Apply(w, Act("Execute", x, 0, "none"))
Linearize(w, x)  == w \in Worlds /\ Apply(w, Act("Linearize", x, 0, "none"))
SetDefault(w, v) == w \in Worlds /\ Apply(w, Act("SetDefault", 0, v, "none"))
SetSetting(w)    == w \in Worlds /\ Apply(w, Act("SetSetting", 0, 0, "none"))
SetCache(w, k)   == w \in Worlds /\ Apply(w, Act("SetCache", 0, 0, k))
ClearCache(w)    == w \in Worlds /\ Apply(w, Act("ClearCache", 0, 0, "none"))
DelDefault(w)    == w \in Worlds /\ Apply(w, Act("DelDefault", 0, 0, "none"))
ClearDefaults(w, h) == w \in Worlds /\ Apply(w, Act("ClearDefaults", 0, 0, h))
Unrequire(w)     == w \in Worlds /\ Apply(w, Act("Unrequire", 0, 0, "none"))

(* Project: what serialisation must carry over, attribute by attribute, BY VALUE.       *)
(* The cache of kind hdf carries its attachment (file id), not the entries.             *)
Carried(a, own, new) == IF a \in Dropped THEN new ELSE own
\* the world whose object is pickled: the original the first time, then the object restored last
Src == IF gen = 0 THEN "orig" ELSE "copy"
Pickle(m) ==
    /\ gen < MaxGen
    /\ gen' = gen + 1
    /\ ref' = [ref EXCEPT !["copy"] = [a \in Attrs |-> IF a \in Shared THEN 1 ELSE 2]]
    /\ LET c1 == cache[ref[Src].cache]
           snap == FileMode = "snapshot" /\ c1.kind = "hdf"
           e1 == IF c1.kind = "hdf" THEN files[c1.file]
                 ELSE [outs |-> c1.outs, jacs |-> c1.jacs, hasNew |-> c1.hasNew, newest |-> c1.newest]
           c1n == IF LastFromNewest /\ e1.hasNew THEN [c1 EXCEPT !.hasLast = TRUE, !.last = e1.newest] ELSE c1
       IN /\ cache' = [i \in {1, 2} |-> IF i = 1 THEN c1
                                        ELSE Carried("cache", IF snap THEN [c1n EXCEPT !.file = 2] ELSE c1n,
                                                     NewCache(InitKind, FileOf("copy")))]
          \* the harness byte-copies the object's file (whether or not a cache is attached to it now)
          /\ files' = IF FileMode = "snapshot" THEN [files EXCEPT ![2] = files[1]] ELSE files
    /\ LET g1 == gram[ref[Src].gram]
           \* (Resurrect: the defect class "a restored grammar without defaults takes those of the pickle it came from")
           g2 == IF Resurrect /\ gen > 0 /\ ~g1.has /\ ~g1.rest THEN [g1 EXCEPT !.has = pg.has, !.dflt = pg.dflt, !.rest = pg.rest]
                 ELSE g1
       IN /\ gram' = [i \in {1, 2} |-> IF i = 1 THEN g1 ELSE Carried("gram", g2, NewGram)]
          /\ pg' = IF Resurrect THEN g1 ELSE pg
    /\ ctr'  = [i \in {1, 2} |-> IF i = 1 THEN ctr[ref[Src].ctr]   ELSE Carried("ctr",  ctr[ref[Src].ctr],   NewCtr)]
    /\ data' = [i \in {1, 2} |-> IF i = 1 THEN data[ref[Src].data] ELSE Carried("data", data[ref[Src].data], NewData)]
    /\ sett' = [i \in {1, 2} |-> IF i = 1 THEN sett[ref[Src].sett] ELSE Carried("sett", sett[ref[Src].sett], 0)]
    /\ ns' = 0
    /\ ret' = [NoRet EXCEPT !.act = "Pickle", !.how = m]
    /\ UNCHANGED <<conf, np>>

Next == \/ \E w \in Worlds, x \in X : Execute(w, x) \/ Linearize(w, x)
        \/ \E w \in Worlds, v \in DV : SetDefault(w, v)
        \/ \E w \in Worlds : SetSetting(w) \/ ClearCache(w)
        \/ \E w \in Worlds, k \in AllKinds : SetCache(w, k)
        \/ \E w \in Worlds : DelDefault(w) \/ Unrequire(w)
        \/ \E w \in Worlds, h \in ClearHows : ClearDefaults(w, h)
        \/ \E m \in Methods : Pickle(m)
Spec == Init /\ [][Next]_vars

-----------------------------------------------------------------------------
(* Invariants *)
MaxSteps == MaxPre + (MaxGen - 1) * MaxMid + 2 * MaxSuf
TypeOK == /\ conf \in Configs
          /\ gen \in 0..MaxGen /\ np \in 0..MaxPre /\ ns \in 0..(MaxMid + 2 * MaxSuf)
          /\ ref \in [Worlds -> [Attrs -> {1, 2}]]
          /\ \A i \in {1, 2} :
               /\ cache[i].kind \in Kinds /\ cache[i].jacs \subseteq cache[i].outs
               /\ cache[i].outs \subseteq Points /\ cache[i].file \in 0..2
               /\ (cache[i].kind = "simple" => Cardinality(cache[i].outs) <= 1)
               /\ cache[i].hasLast \in BOOLEAN /\ cache[i].last \in Points \cup {P0}
               /\ (cache[i].kind \in {"simple", "mem"} => /\ cache[i].hasLast = (cache[i].outs # {})
                                                         /\ (cache[i].hasLast => cache[i].last \in cache[i].outs))
               /\ ctr[i].ne \in 0..MaxSteps /\ ctr[i].nl \in 0..MaxSteps
               /\ gram[i].dflt \in DV /\ sett[i] \in {0, 1}
               /\ gram[i].has \in BOOLEAN /\ gram[i].req \in BOOLEAN /\ gram[i].rest \in BOOLEAN
               /\ (~gram[i].has => gram[i].dflt = 0)
               /\ data[i].moment \in {"fresh", "executed", "linearized"}
               /\ (data[i].has <=> data[i].moment # "fresh")
               /\ files[i].jacs \subseteq files[i].outs /\ files[i].outs \subseteq Points

\* the file id is where the entries live, not part of the behaviour
NormW(W) == [W EXCEPT !.cache.file = 0]
NormS(S) == [ret |-> S.ret, next |-> NormW(S.next)]
StepOf(w, a) == LET f == FileOf(w) IN NormS(Do(WV(w), a, f, files[f]))

(* One-step bisimulation right after EVERY Pickle (generation k vs k+1), at every depth: every action *)
(* is enabled in the copy iff it is in the original, returns the same and leads to the  *)
(* same abstract state.                                                                 *)
SameBehaviour ==
    (pickled /\ ns = 0) =>
        \A a \in Acts : /\ Enabled(WV("copy"), a) = Enabled(WV("orig"), a)
                        /\ (Enabled(WV("orig"), a) => StepOf("copy", a) = StepOf("orig", a))

\* the restored object exposes the same grammars / defaults / settings / local data / cache content
SameState == (pickled /\ ns = 0) => NormW(WV("copy")) = NormW(WV("orig"))

\* the last entry of the cache (what a warm-started process starts from) carries over, not "the newest one"
LastEntryByValue == (pickled /\ ns = 0 /\ "cache" \notin Dropped) =>
                        /\ cache[ref["copy"].cache].hasLast = cache[ref["orig"].cache].hasLast
                        /\ cache[ref["copy"].cache].last = cache[ref["orig"].cache].last

\* counters and statistics carry over as values: equal right after Pickle, separate cells
CountersByValue == pickled => /\ ref["copy"].ctr # ref["orig"].ctr
                              /\ (ns = 0 => ctr[ref["copy"].ctr] = ctr[ref["orig"].ctr])

\* no attribute of the copy lives in a cell of the original
NoSharing == pickled => \A a \in Attrs : ref["copy"][a] # ref["orig"][a]

\* ... so that an action on one world never changes the in-memory state of the other
Mem(w) == [cache |-> cache[ref[w].cache], ctr |-> ctr[ref[w].ctr], gram |-> gram[ref[w].gram],
           data |-> data[ref[w].data], sett |-> sett[ref[w].sett]]
NoSharingStep == (gen > 0 /\ gen' = gen) => \A o \in Worlds : (ret'.w = Other(o) => Mem(o)' = Mem(o))
NoSharingProp == [][NoSharingStep]_vars

\* a file-backed cache stays attached to its file: same file right after Pickle (shared mode), and the
\* entries of the file are the entries of every cache attached to it
StaysAttached ==
    (pickled /\ ns = 0 /\ cache[1].kind = "hdf" /\ "cache" \notin Dropped) =>
        /\ cache[ref["copy"].cache].kind = "hdf"
        /\ (FileMode = "shared" => cache[ref["copy"].cache].file = cache[1].file)
        /\ Ents(WV("copy")) = Ents(WV("orig"))

\* the copy of a world is only used once it exists; the original never points elsewhere
OrigOwnsCell1 == \A a \in Attrs : ref["orig"][a] = 1
================================================================================
