------------------------------ MODULE FuncAlgebra ------------------------------
(***************************************************************************)
(* C10 - function algebra and transformations evaluate and differentiate   *)
(* exactly.                                                                *)
(*                                                                         *)
(* The module enumerates expression trees over gemseo's function algebra   *)
(* (operators of MDOFunction, MDOLinearFunction helpers, restriction,      *)
(* linear composition, concatenation, normalisation, Taylor polynomials,   *)
(* convex linearisation, constraint aggregations) together with evaluation *)
(* points of an integer lattice, and computes for every instance           *)
(*   - the value of the tree at the point                                  *)
(*   - its Jacobian matrix (explicit shape: dim x n_inputs)                *)
(*   - the value/Jacobian of every proper subtree at the point at which it *)
(*     is observed (obs), which the evaluation of the tree must not change *)
(*     (NoOperandMutation)                                                 *)
(* by the mathematical rules, in exact dyadic arithmetic (numbers m/2^k    *)
(* are pairs <<m,k>>).  Quotients, reciprocal steps of the convex          *)
(* linearisation ... are admitted only at points where every divisor is    *)
(* +-2^j, so that IEEE double arithmetic is exact as well and the          *)
(* implementation can be compared with == (DESIGN 3.3).                    *)
(*                                                                         *)
(* A tree is a triple <<op, <<subtrees>>, <<integer parameters>>>>.        *)
(* Instances are initial states; the Evaluate action computes the result   *)
(* and prints the instance for the conformance replay on real gemseo       *)
(* objects (harness/checks/c10.py).  Ill-typed trees are not generated     *)
(* (array operand of another dimension than the function, operands of      *)
(* different input dimension); a function-function operation between a     *)
(* function expecting normalised inputs and one that does not is a Reject. *)
(* KS / IKS aggregations (exponentials) are outside this module.           *)
(* The `scale` of an aggregation is a number or a vector with one factor   *)
(* per selected constraint (AggScale, AggPars, AggVectorScale).            *)
(***************************************************************************)
EXTENDS Integers, Sequences, FiniteSets, TLC

CONSTANTS
  FullDepth,   \* every tree of depth <= FullDepth is an instance
  MaxDepth,    \* trees of depth FullDepth+1..MaxDepth: all operators over a sample of the level below
  SampleMod,   \* ... the operand trees with (Hash + 7 Seed) % SampleMod = 0 at depth FullDepth+1,
  SampleModDeep, \* ... % SampleModDeep = 0 at the deeper levels
  Seed,
  NParts,      \* the instances are split over NParts TLC runs
  Part,        \* this run checks the trees with Hash % NParts = Part
  Wide,        \* BOOLEAN: more parameter variants (thorough tier)
  CheckStencil \* BOOLEAN: evaluate the finite-difference self-check of the specification

VARIABLES tree, pt, phase, obs, res
vars == <<tree, pt, phase, obs, res>>

-----------------------------------------------------------------------------
(* Dyadic rationals <<m, k>> = m / 2^k, kept normalised (k = 0 or m odd).  *)

Abs(a) == IF a < 0 THEN -a ELSE a
Max2(a, b) == IF a > b THEN a ELSE b
RECURSIVE Pow2(_)
Pow2(k) == IF k = 0 THEN 1 ELSE 2 * Pow2(k - 1)
RECURSIVE DNorm(_)
DNorm(a) == IF a[2] > 0 /\ a[1] % 2 = 0 THEN DNorm(<<a[1] \div 2, a[2] - 1>>) ELSE a
DI(m) == <<m, 0>>
DAdd(a, b) == LET k == Max2(a[2], b[2])
              IN DNorm(<<a[1] * Pow2(k - a[2]) + b[1] * Pow2(k - b[2]), k>>)
DNeg(a) == <<-a[1], a[2]>>
DSub(a, b) == DAdd(a, DNeg(b))
DMul(a, b) == DNorm(<<a[1] * b[1], a[2] + b[2]>>)
IsP2(m) == \E j \in 0..20 : Pow2(j) = m
Log2(m) == CHOOSE j \in 0..20 : Pow2(j) = m
DInvertible(b) == b[1] # 0 /\ IsP2(Abs(b[1]))          \* b = +-2^j / 2^k
DInv(b) == DNorm(<<(IF b[1] < 0 THEN -1 ELSE 1) * Pow2(b[2]), Log2(Abs(b[1]))>>)
DDiv(a, b) == DMul(a, DInv(b))
DLess(a, b) == LET k == Max2(a[2], b[2]) IN a[1] * Pow2(k - a[2]) < b[1] * Pow2(k - b[2])
DPos(a) == a[1] > 0
DNegative(a) == a[1] < 0
RECURSIVE DPow(_, _)
DPow(a, e) == IF e = 0 THEN DI(1) ELSE DMul(a, DPow(a, e - 1))
RECURSIVE DSum(_)
DSum(s) == IF Len(s) = 0 THEN DI(0) ELSE DAdd(s[1], DSum(Tail(s)))
RECURSIVE DProd(_)
DProd(s) == IF Len(s) = 0 THEN DI(1) ELSE DMul(s[1], DProd(Tail(s)))

(* vectors = sequences of dyadics; matrices = sequences of rows *)
DV(u) == [i \in 1..Len(u) |-> DI(u[i])]                  \* integer vector -> dyadic vector
DM(M) == [r \in 1..Len(M) |-> DV(M[r])]
Dot(u, v) == DSum([i \in 1..Len(u) |-> DMul(u[i], v[i])])
Scale(c, u) == [i \in 1..Len(u) |-> DMul(c, u[i])]
VAdd(u, v) == [i \in 1..Len(u) |-> DAdd(u[i], v[i])]
VSub(u, v) == [i \in 1..Len(u) |-> DSub(u[i], v[i])]
VNeg(u) == [i \in 1..Len(u) |-> DNeg(u[i])]
MatVec(M, x) == [r \in 1..Len(M) |-> Dot(M[r], x)]
NCols(M) == Len(M[1])
MatMul(M, A) == [r \in 1..Len(M) |-> [c \in 1..NCols(A) |->
                   DSum([k \in 1..Len(A) |-> DMul(M[r][k], A[k][c])])]]
MAdd(M, N) == [r \in 1..Len(M) |-> VAdd(M[r], N[r])]
MSub(M, N) == [r \in 1..Len(M) |-> VSub(M[r], N[r])]
MNeg(M) == [r \in 1..Len(M) |-> VNeg(M[r])]
RowScale(u, M) == [r \in 1..Len(M) |-> Scale(u[r], M[r])]   \* diag(u) M
Bc(u, m) == IF Len(u) = m THEN u ELSE [i \in 1..m |-> u[1]]  \* scalar against vector-valued operand

-----------------------------------------------------------------------------
(* Leaves.  Polynomials are sequences of components, a component is a      *)
(* sequence of monomials <<coefficient, <<exponents>>>>.                   *)

PolyNames == {"s", "v", "u", "w", "p"}
PolyOf(nm) ==
  CASE nm = "w" -> << << <<1, <<1, 0, 1>>>>, <<1, <<0, 1, 0>>>> >>,                     \* x0 x2 + x1   (3 inputs)
                      << <<1, <<0, 2, 0>>>>, <<-1, <<0, 0, 1>>>> >> >>                  \* x1^2 - x2
    [] nm = "s" -> << << <<1, <<2, 0>>>>, <<1, <<0, 1>>>> >> >>                        \* x0^2 + x1
    \* the identity map x |-> x: a user callable may legitimately RETURN ITS ARGUMENT (or a view of it);
    \* the binding builds this leaf with such a callable (a function is a value: what it returned must
    \* not change when it, or a function built over it, is evaluated again - clause ResultsAreValues)
    [] nm = "p" -> << << <<1, <<1, 0>>>> >>, << <<1, <<0, 1>>>> >> >>
    [] nm = "v" -> << << <<1, <<1, 1>>>> >>,                                            \* x0 x1
                      << <<1, <<1, 0>>>>, <<-1, <<0, 1>>>> >> >>                        \* x0 - x1
    [] nm = "u" -> << << <<1, <<3, 0>>>>, <<-1, <<0, 1>>>> >>,                          \* x0^3 - x1
                      << <<2, <<0, 2>>>> >>,                                            \* 2 x1^2
                      << <<1, <<1, 0>>>>, <<1, <<0, 1>>>>, <<-1, <<0, 0>>>> >> >>       \* x0 + x1 - 1
(* linear leaves; "Lc" and "Mc" are MDOLinearFunctions built on SPARSE (scipy CSR)        *)
(* coefficients, "M" and "Mc" (and the polynomial "w") have 3 inputs                        *)
LinNames == {"Ls", "L", "Lu", "Lc", "M", "Mc"}
SparseNames == {"Lc", "Mc"}
LinA(nm) == CASE nm = "Ls" -> << <<1, -2>> >>
              [] nm = "L"  -> << <<1, 2>>, <<0, -1>> >>
              [] nm = "Lu" -> << <<1, 0>>, <<2, -1>>, <<-1, 1>> >>
              [] nm = "Lc" -> << <<2, 0>>, <<-1, 1>> >>
              [] nm = "M"  -> << <<1, 2, -1>>, <<0, -1, 2>> >>
              [] nm = "Mc" -> << <<1, 0, 2>>, <<-2, 1, 0>> >>
LinB(nm) == CASE nm = "Ls" -> <<3>> [] nm = "L" -> <<1, 2>> [] nm = "Lu" -> <<0, 1, -2>>
              [] nm = "Lc" -> <<1, -1>> [] nm = "M" -> <<1, -2>> [] nm = "Mc" -> <<0, 3>>
LeafN(nm) == IF nm \in {"w", "M", "Mc"} THEN 3 ELSE 2
QuadA == << <<1, 2>>, <<0, -1>> >>        \* Q(x) = x'Ax + b.x + c   (MDOQuadraticFunction)
QuadB == <<1, -1>>
QuadC == 3
LeafNames == PolyNames \cup LinNames \cup {"Q"}
LeafTable == [polys |-> [nm \in PolyNames |-> PolyOf(nm)],
              lins |-> [nm \in LinNames |-> <<LinA(nm), LinB(nm)>>],
              sparse |-> SparseNames,
              quad |-> <<QuadA, QuadB, QuadC>>]

MonoVal(e, x) == DProd([i \in 1..Len(e) |-> DPow(x[i], e[i])])
PVal(comp, x) == DSum([k \in 1..Len(comp) |-> DMul(DI(comp[k][1]), MonoVal(comp[k][2], x))])
MonoDer(e, x, i) == IF e[i] = 0 THEN DI(0)
                    ELSE DMul(DI(e[i]), DProd([l \in 1..Len(e) |->
                              DPow(x[l], IF l = i THEN e[l] - 1 ELSE e[l])]))
PGrad(comp, x) == [i \in 1..Len(x) |->
                     DSum([k \in 1..Len(comp) |-> DMul(DI(comp[k][1]), MonoDer(comp[k][2], x, i))])]

-----------------------------------------------------------------------------
(* Parameters of the operators (integer sequences carried by the tree).    *)

SubSeqOf(p, a, b) == [i \in 1..(b - a + 1) |-> p[a + i - 1]]
MatOfPar(p) == [r \in 1..p[1] |-> [c \in 1..p[2] |-> p[2 + (r - 1) * p[2] + c]]]
(* restriction: p = <<k, i_1..i_k, v_1..v_k>>: the inputs i_j (0-based, in ANY order) are frozen at v_j *)
FrozenSet(p) == {p[1 + j] + 1 : j \in 1..p[1]}
FrozenVal(p, i) == p[1 + p[1] + (CHOOSE j \in 1..p[1] : p[1 + j] + 1 = i)]
Active(n, p) == SelectSeq([i \in 1..n |-> i], LAMBDA i : i \notin FrozenSet(p))   \* increasing
(* the point of the n = Len(x) + k inputs completed with the frozen values *)
Complete(x, p) == [i \in 1..(Len(x) + p[1]) |->
                     IF i \in FrozenSet(p) THEN DI(FrozenVal(p, i))
                     ELSE x[Cardinality({a \in 1..i : a \notin FrozenSet(p)})]]
ActiveCols(row, p) == LET act == Active(Len(row), p) IN [c \in 1..Len(act) |-> row[act[c]]]

FFOps == {"add", "sub", "mul", "div"}            \* function (op) function
FCOps == {"addc", "subc", "mulc", "divc", "offc"} \* function (op) number; offc = f.offset(number)
FAOps == {"adda", "suba", "mula", "diva", "offa"} \* function (op) array of the output dimension
AggOps == {"aggmax", "aggsq", "aggpos"}

(* selected output indices of an aggregation: p = <<scale, k, i1..ik>> \o <<s_1..s_m>>, k = 0: all     *)
(* outputs.  scale # 0: one number multiplies every selected constraint (no tail).  scale = 0: the     *)
(* `scale` argument is a VECTOR, one factor per SELECTED constraint (m = number of selected outputs:  *)
(* gemseo applies `scale` after `orig_val[indices]`), s_l multiplies the l-th selected output.         *)
AggSel(p, d) == IF p[2] = 0 THEN [i \in 1..d |-> i] ELSE [i \in 1..p[2] |-> p[2 + i] + 1]
AggVector(p) == p[1] = 0
AggScale(p, d) == LET k == Len(AggSel(p, d)) IN
                  IF AggVector(p) THEN [i \in 1..k |-> DI(p[2 + p[2] + i])] ELSE [i \in 1..k |-> DI(p[1])]
(* the scaled selected constraints s_l g_{i_l}: what aggregate_max takes the maximum of *)
AggScaled(v, p) == LET sel == AggSel(p, Len(v))  sc == AggScale(p, Len(v)) IN
                   [i \in 1..Len(sel) |-> DMul(sc[i], v[sel[i]])]
UniqueMax(sw) == \E i \in 1..Len(sw) : \A l \in 1..Len(sw) : l = i \/ DLess(sw[l], sw[i])

-----------------------------------------------------------------------------
(* Static type of a tree: inputs n, outputs d, kind (MDOLinearFunction or  *)
(* generic), normalisation flag:  "no"  physical inputs,  "yes" the code   *)
(* and the mathematics agree that inputs are normalised, "amb" a function  *)
(* of normalised inputs whose flag the code does not propagate (kept out   *)
(* of function-function operations: the property does not speak of it).    *)

RECURSIVE Ty(_)
Ty(t) ==
  LET op == t[1]  a == t[2]  p == t[3] IN
  CASE op \in PolyNames -> [n |-> LeafN(op), d |-> Len(PolyOf(op)), kind |-> "gen", norm |-> "no", sp |-> FALSE]
    [] op \in LinNames  -> [n |-> LeafN(op), d |-> Len(LinA(op)), kind |-> "lin", norm |-> "no",
                            sp |-> op \in SparseNames]
    [] op = "Q"         -> [n |-> 2, d |-> 1, kind |-> "gen", norm |-> "no", sp |-> FALSE]
    [] op \in FFOps     -> LET ta == Ty(a[1]) tb == Ty(a[2]) IN
                           [n |-> ta.n, d |-> Max2(ta.d, tb.d), kind |-> "gen", norm |-> ta.norm, sp |-> FALSE]
    [] op \in (FCOps \cup FAOps) \ {"offc", "offa"} -> [Ty(a[1]) EXCEPT !.kind = "gen"]
    [] op \in {"neg", "offc", "offa"} ->
           LET ta == Ty(a[1]) IN
           IF ta.kind = "lin" \/ op = "neg"
           THEN [ta EXCEPT !.norm = IF ta.norm = "no" THEN "no" ELSE "amb"]
           ELSE ta
    [] op \in {"restr", "rrestr"} -> LET ta == Ty(a[1]) IN
                           [n |-> ta.n - p[1], d |-> ta.d, kind |-> "gen",
                            norm |-> IF ta.norm = "no" THEN "no" ELSE "amb", sp |-> ta.sp]
    [] op = "lrestr"    -> LET ta == Ty(a[1]) IN
                           [n |-> ta.n - p[1], d |-> ta.d, kind |-> "lin",
                            norm |-> IF ta.norm = "no" THEN "no" ELSE "amb", sp |-> ta.sp]
    [] op = "lincomp"   -> LET ta == Ty(a[1]) IN
                           [n |-> p[2], d |-> ta.d, kind |-> "gen",
                            norm |-> IF ta.norm = "no" THEN "no" ELSE "amb", sp |-> FALSE]
    [] op = "concat"    -> LET ta == Ty(a[1]) tb == Ty(a[2]) IN
                           [n |-> ta.n, d |-> ta.d + tb.d, kind |-> "gen",
                            norm |-> IF ta.norm = "no" /\ tb.norm = "no" THEN "no" ELSE "amb", sp |-> FALSE]
    [] op = "normalize" -> [Ty(a[1]) EXCEPT !.norm = "yes"]
    [] op = "taylor1"   -> LET ta == Ty(a[1]) IN
                           [ta EXCEPT !.kind = "lin", !.sp = FALSE, !.norm = IF ta.norm = "no" THEN "no" ELSE "amb"]
    [] op \in {"taylor2", "cvx"} -> LET ta == Ty(a[1]) IN
                           [ta EXCEPT !.kind = "gen", !.norm = IF ta.norm = "no" THEN "no" ELSE "amb"]
    [] op \in AggOps    -> LET ta == Ty(a[1]) IN
                           [n |-> ta.n, d |-> 1, kind |-> "gen",
                            norm |-> IF ta.norm = "no" THEN "no" ELSE "amb", sp |-> FALSE]

RECURSIVE Depth(_)
Depth(t) == IF Len(t[2]) = 0 THEN 0
            ELSE 1 + (IF Len(t[2]) = 1 THEN Depth(t[2][1]) ELSE Max2(Depth(t[2][1]), Depth(t[2][2])))

-----------------------------------------------------------------------------
(* Denotation: value v (length d) and Jacobian j (d rows of length n) of a *)
(* tree at a point x (dyadic vector of length n).                          *)

ConvexStep(p, n, x) == [i \in 1..n |-> DSub(x[i], DI(p[i]))]     \* x - xhat
ConvexMask(p, n) == [i \in 1..n |-> p[n + i] = 1]
ConvexMerged(p, n, x) == [i \in 1..n |-> IF p[n + i] = 1 THEN DI(p[i]) ELSE x[i]]

(* rules per operator group; ea, eb, e are the denotations [v, j] of the operands *)
RuleFF(op, ea, eb) ==
  LET m == Max2(Len(ea.v), Len(eb.v))
      va == Bc(ea.v, m)  vb == Bc(eb.v, m)
      ja == Bc(ea.j, m)  jb == Bc(eb.j, m) IN
  CASE op = "add" -> [v |-> VAdd(va, vb), j |-> MAdd(ja, jb)]
    [] op = "sub" -> [v |-> VSub(va, vb), j |-> MSub(ja, jb)]
    [] op = "mul" -> \* d(f.g) = diag(g) f' + diag(f) g'
                     [v |-> [i \in 1..m |-> DMul(va[i], vb[i])],
                      j |-> MAdd(RowScale(vb, ja), RowScale(va, jb))]
    [] op = "div" -> \* d(f/g) = diag(1/g^2) (diag(g) f' - diag(f) g')
                     [v |-> [i \in 1..m |-> DDiv(va[i], vb[i])],
                      j |-> RowScale([i \in 1..m |-> DInv(DMul(vb[i], vb[i]))],
                                     MSub(RowScale(vb, ja), RowScale(va, jb)))]

RuleFC(op, e, p) ==
  LET c == DI(p[1])  d == Len(e.v)  cv == [i \in 1..d |-> c] IN
  CASE op \in {"addc", "offc"} -> [v |-> VAdd(e.v, cv), j |-> e.j]
    [] op = "subc" -> [v |-> VSub(e.v, cv), j |-> e.j]
    [] op = "mulc" -> [v |-> Scale(c, e.v), j |-> RowScale(cv, e.j)]
    [] op = "divc" -> [v |-> Scale(DInv(c), e.v), j |-> RowScale([i \in 1..d |-> DInv(c)], e.j)]

RuleFA(op, e, p) ==
  LET av == DV(p)  iv == [i \in 1..Len(p) |-> DInv(DI(p[i]))] IN
  CASE op \in {"adda", "offa"} -> [v |-> VAdd(e.v, av), j |-> e.j]
    [] op = "suba" -> [v |-> VSub(e.v, av), j |-> e.j]
    [] op = "mula" -> [v |-> [i \in 1..Len(av) |-> DMul(e.v[i], av[i])], j |-> RowScale(av, e.j)]
    [] op = "diva" -> [v |-> [i \in 1..Len(av) |-> DMul(e.v[i], iv[i])], j |-> RowScale(iv, e.j)]

(* gemseo's convex linearisation at xhat w.r.t. the masked inputs:                    *)
(*   f(merged) + sum_{c>0} c.(x_i-xhat_i) + sum_{c<0} (-c.xhat_i^2)/(x_i-xhat_i)      *)
(* with c = df/dx_i(xhat), merged = xhat on the masked inputs and x elsewhere;        *)
(* e0 = f at xhat, em = f at merged.                                                  *)
RuleCvx(e0, em, p, x) ==
  LET n == Len(x)
      mask == ConvexMask(p, n)
      step == ConvexStep(p, n, x)
      d == Len(e0.v)
      Term(r, i) == LET c == e0.j[r][i] IN
                    IF ~mask[i] THEN DI(0)
                    ELSE IF DPos(c) THEN DMul(c, step[i])
                    ELSE IF DNegative(c)
                         THEN DMul(DNeg(DMul(c, DI(p[i] * p[i]))), DInv(step[i]))
                         ELSE DI(0)
      DTerm(r, i) == LET c == e0.j[r][i] IN
                     IF ~mask[i] THEN em.j[r][i]
                     ELSE IF DPos(c) THEN c
                     ELSE IF DNegative(c)
                          THEN DMul(DMul(c, DI(p[i] * p[i])), DInv(DMul(step[i], step[i])))
                          ELSE DI(0) IN
  [v |-> [r \in 1..d |-> DAdd(em.v[r], DSum([i \in 1..n |-> Term(r, i)]))],
   j |-> [r \in 1..d |-> [i \in 1..n |-> DTerm(r, i)]]]

(* aggregations of the selected constraints g_i (rows of e) with the factors s_i (a number repeated, *)
(* or the entries of a vector scale):  max_i s_i g_i  with Jacobian  s_imax g_imax';                 *)
(* sum_i s_i g_i^2  with Jacobian  sum_i 2 s_i g_i g_i';  the same over the positive g_i.            *)
RuleAgg(op, e, p, n) ==                  \* p = <<scale, k, indices>> (\o vector scale)
  LET sel == AggSel(p, Len(e.v))
      sc == AggScale(p, Len(e.v))
      k == Len(sel)
      w == [i \in 1..k |-> e.v[sel[i]]]
      sw == AggScaled(e.v, p)
      imax == CHOOSE i \in 1..k : \A l \in 1..k : l = i \/ DLess(sw[l], sw[i])
      G(i) == DMul(DI(2), DMul(sc[i], w[i])) IN
  CASE op = "aggmax" -> [v |-> << sw[imax] >>, j |-> << Scale(sc[imax], e.j[sel[imax]]) >>]
    [] op = "aggsq" ->
         [v |-> << DSum([i \in 1..k |-> DMul(sc[i], DMul(w[i], w[i]))]) >>,
          j |-> << [c \in 1..n |-> DSum([i \in 1..k |-> DMul(G(i), e.j[sel[i]][c])])] >>]
    [] op = "aggpos" ->
         [v |-> << DSum([i \in 1..k |-> IF DPos(w[i]) THEN DMul(sc[i], DMul(w[i], w[i])) ELSE DI(0)]) >>,
          j |-> << [c \in 1..n |-> DSum([i \in 1..k |->
                       IF DPos(w[i]) THEN DMul(G(i), e.j[sel[i]][c]) ELSE DI(0)])] >>]

RuleQuad(x) ==
  LET A == DM(QuadA)
      At == [r \in 1..Len(A) |-> [c \in 1..Len(A) |-> A[c][r]]] IN
  [v |-> << DAdd(DAdd(Dot(x, MatVec(A, x)), Dot(DV(QuadB), x)), DI(QuadC)) >>,
   j |-> << VAdd(MatVec(MAdd(A, At), x), DV(QuadB)) >>]

RulePoly(P, x) == [v |-> [i \in 1..Len(P) |-> PVal(P[i], x)], j |-> [i \in 1..Len(P) |-> PGrad(P[i], x)]]

RuleTaylor2(e, p, x) ==                  \* p = xhat \o H (symmetric, row-major); scalar f; e = f at xhat
  LET n == Len(x)
      xh == DV(SubSeqOf(p, 1, n))
      H == [r \in 1..n |-> [c \in 1..n |-> DI(p[n + (r - 1) * n + c])]]
      dx == VSub(x, xh)
      Hdx == MatVec(H, dx) IN
  [v |-> << DAdd(DAdd(e.v[1], Dot(e.j[1], dx)), DMul(<<1, 1>>, Dot(dx, Hdx))) >>,
   j |-> << VAdd(e.j[1], Hdx) >>]

RuleNeg(e) == [v |-> VNeg(e.v), j |-> MNeg(e.j)]
(* restriction (FunctionRestriction "restr", RestrictedFunction "rrestr", MDOLinearFunction.restrict *)
(* "lrestr"): p = <<k, frozen indices (0-based, any order), frozen values>>; e = f at the         *)
(* completed point; the Jacobian keeps the columns of the active inputs                           *)
RuleRestr(e, p) == [v |-> e.v, j |-> [r \in 1..Len(e.j) |-> ActiveCols(e.j[r], p)]]
(* x |-> f(Ax): value f(Ax), Jacobian f'(Ax) A; e = f at Ax *)
RuleLinComp(e, A) == [v |-> e.v, j |-> MatMul(e.j, A)]
RuleConcat(ea, eb) == [v |-> ea.v \o eb.v, j |-> ea.j \o eb.j]
(* normalisation: p = <<lb_1..lb_n, w_1..w_n>>, x |-> f(lb + w.x); e = f at lb + w.x *)
RuleNormalize(e, p, n) == [v |-> e.v, j |-> [r \in 1..Len(e.j) |-> [i \in 1..n |-> DMul(e.j[r][i], DI(p[n + i]))]]]
(* first-order Taylor polynomial at xhat = p: f(xhat) + f'(xhat)(x - xhat); e = f at xhat *)
RuleTaylor1(e, p, x) == [v |-> VAdd(e.v, MatVec(e.j, VSub(x, DV(p)))), j |-> e.j]

NormPoint(p, x) == [i \in 1..Len(x) |-> DAdd(DI(p[i]), DMul(DI(p[Len(x) + i]), x[i]))]

RECURSIVE E(_, _)
E(t, x) ==
  LET op == t[1]  a == t[2]  p == t[3] IN
  CASE op \in PolyNames -> RulePoly(PolyOf(op), x)
    [] op \in LinNames -> [v |-> VAdd(MatVec(DM(LinA(op)), x), DV(LinB(op))), j |-> DM(LinA(op))]
    [] op = "Q" -> RuleQuad(x)
    [] op \in FFOps -> RuleFF(op, E(a[1], x), E(a[2], x))
    [] op \in FCOps -> RuleFC(op, E(a[1], x), p)
    [] op \in FAOps -> RuleFA(op, E(a[1], x), p)
    [] op = "neg" -> RuleNeg(E(a[1], x))
    [] op \in {"restr", "rrestr", "lrestr"} -> RuleRestr(E(a[1], Complete(x, p)), p)
    [] op = "lincomp" -> RuleLinComp(E(a[1], MatVec(DM(MatOfPar(p)), x)), DM(MatOfPar(p)))
    [] op = "concat" -> RuleConcat(E(a[1], x), E(a[2], x))
    [] op = "normalize" -> RuleNormalize(E(a[1], NormPoint(p, x)), p, Len(x))
    [] op = "taylor1" -> RuleTaylor1(E(a[1], DV(p)), p, x)
    [] op = "taylor2" -> RuleTaylor2(E(a[1], DV(SubSeqOf(p, 1, Len(x)))), p, x)
    [] op = "cvx" -> RuleCvx(E(a[1], DV(SubSeqOf(p, 1, Len(x)))), E(a[1], ConvexMerged(p, Len(x), x)), p, x)
    [] op \in AggOps -> RuleAgg(op, E(a[1], x), p, Len(x))

(* The point at which the k-th subtree of t is observed when t is evaluated at x. *)
ChildPoint(t, k, x) ==
  LET op == t[1]  p == t[3] IN
  CASE op \in {"restr", "rrestr", "lrestr"} -> Complete(x, p)
    [] op = "lincomp"   -> MatVec(DM(MatOfPar(p)), x)
    [] op = "normalize" -> [i \in 1..Len(x) |-> DAdd(DI(p[i]), DMul(DI(p[Len(x) + i]), x[i]))]
    [] OTHER -> x

(* Admissible instances: every divisor met is +-2^j (exact in both worlds), the      *)
(* maximum of aggregate_max is attained once (differentiable), every subtree is      *)
(* admissible at its observation point.                                              *)
RECURSIVE Adm(_, _)
Adm(t, x) ==
  LET op == t[1]  a == t[2]  p == t[3] IN
  /\ \A k \in 1..Len(a) : Adm(a[k], ChildPoint(t, k, x))
  /\ CASE op = "div" -> LET vb == E(a[2], x).v IN \A i \in 1..Len(vb) : DInvertible(vb[i])
       [] op = "divc" -> DInvertible(DI(p[1]))
       [] op = "diva" -> \A i \in 1..Len(p) : DInvertible(DI(p[i]))
       [] op \in {"taylor1", "taylor2"} -> Adm(a[1], DV(SubSeqOf(p, 1, Len(x))))
       [] op = "cvx" -> LET n == Len(x) step == ConvexStep(p, n, x) IN
                        /\ Adm(a[1], DV(SubSeqOf(p, 1, n)))
                        /\ Adm(a[1], ConvexMerged(p, n, x))
                        /\ \A i \in 1..n : (p[n + i] = 1) => DInvertible(step[i])
       [] op = "aggmax" -> UniqueMax(AggScaled(E(a[1], x).v, p))
       [] OTHER -> TRUE

(* The points at which the k-th subtree of t is evaluated when t is built and evaluated  *)
(* at x: the observation point, plus the expansion point of the Taylor polynomials and    *)
(* the expansion and merged points of the convex linearisation.                           *)
ChildPoints(t, k, x) ==
  LET op == t[1]  p == t[3]  n == Len(x) IN
  CASE op \in {"taylor1", "taylor2"} -> <<x, DV(SubSeqOf(p, 1, n))>>
    [] op = "cvx" -> <<x, DV(SubSeqOf(p, 1, n)), ConvexMerged(p, n, x)>>
    [] OTHER -> <<ChildPoint(t, k, x)>>

RECURSIVE Flat(_)
Flat(ss) == IF Len(ss) = 0 THEN <<>> ELSE ss[1] \o Flat(Tail(ss))

(* Observations of every proper subtree at every such point:                              *)
(* <<path, point, value, Jacobian>>, post-order.                                          *)
RECURSIVE Obs(_, _, _)
Obs(t, x, path) ==
  LET a == t[2]
      At(k, q) == Obs(a[k], q, Append(path, k)) \o << <<Append(path, k), q, E(a[k], q).v, E(a[k], q).j>> >>
      One(k) == LET qs == ChildPoints(t, k, x) IN Flat([i \in 1..Len(qs) |-> At(k, qs[i])]) IN
  Flat([k \in 1..Len(a) |-> One(k)])

-----------------------------------------------------------------------------
(* Enumeration of well-typed trees.                                        *)

Leaf(nm) == <<nm, <<>>, <<>>>>
Un(op, a, p) == <<op, <<a>>, p>>
Bin(op, a, b) == <<op, <<a, b>>, <<>>>>
Leaves == {Leaf(nm) : nm \in LeafNames}

Consts == IF Wide THEN {2, -1, -2} ELSE {2, -1}
ArrOf(d) == [i \in 1..d |-> IF i % 3 = 1 THEN 2 ELSE IF i % 3 = 2 THEN -1 ELSE -2]
MatsFor(r) ==          \* matrices with r rows as <<rows, cols, entries>>
  CASE r = 1 -> {<<1, 2, 1, -2>>} \cup (IF Wide THEN {<<1, 1, 2>>} ELSE {})
    [] r = 2 -> {<<2, 2, 1, 2, -1, 1>>, <<2, 1, 1, 2>>} \cup (IF Wide THEN {<<2, 3, 1, 0, 2, 0, 1, -1>>} ELSE {})
    [] r = 3 -> {<<3, 2, 1, 0, 0, 1, 1, -1>>}
XHat(n) == CASE n = 1 -> <<1>> [] n = 2 -> <<1, 2>> [] n = 3 -> <<1, 2, -1>>
XHatC(n) == CASE n = 1 -> <<3>> [] n = 2 -> <<3, 1>> [] n = 3 -> <<3, 1, 3>>
Masks(n) == CASE n = 1 -> {<<1>>} [] n = 2 -> {<<1, 1>>, <<0, 1>>} [] n = 3 -> {<<1, 1, 1>>, <<0, 1, 1>>}
Hess(n) == CASE n = 1 -> <<2>> [] n = 2 -> <<2, 1, 1, -2>> [] n = 3 -> <<2, 1, 0, 1, -2, 1, 0, 1, 4>>
Space(n) == CASE n = 1 -> <<-1, 2>> [] n = 2 -> <<-1, 0, 2, 4>> [] n = 3 -> <<-1, 0, 1, 2, 4, 1>>
IdxPars(d) == {<<0>>, <<1, d - 1>>, <<2, 1, 0>>}      \* all outputs, [d-1], [1, 0]
Scales == {1, 2}
(* vector scales: one positive factor per selected constraint (k of them), neither constant nor sorted *)
VecScale(k) == [i \in 1..k |-> IF i % 3 = 1 THEN 1 ELSE IF i % 3 = 2 THEN 3 ELSE 2]
VecScaleW(k) == [i \in 1..k |-> IF i % 3 = 1 THEN 4 ELSE IF i % 3 = 2 THEN 1 ELSE 2]
VecScales(k) == {VecScale(k)} \cup (IF Wide THEN {VecScaleW(k)} ELSE {})
NSel(q, d) == IF q[1] = 0 THEN d ELSE q[1]
(* parameters of an aggregation over d outputs: scalar scales, then vector scales (leading 0) *)
AggPars(d) == {<<sc>> \o q : sc \in Scales, q \in IdxPars(d)}
              \cup UNION {{<<0>> \o q \o s : s \in VecScales(NSel(q, d))} : q \in IdxPars(d)}
(* <<k, frozen indices, frozen values>>: one frozen input, and for >= 3 inputs two of them, *)
(* given in increasing and in decreasing index order                                         *)
RestrPars(n) == (IF Wide THEN {<<1, i, c>> : i \in 0..(n - 1), c \in {2, -1}}
                 ELSE {<<1, 0, 2>>, <<1, n - 1, -1>>})
                \cup (IF n >= 3 THEN {<<2, 0, 1, 2, -1>>, <<2, n - 1, 0, -1, 2>>} ELSE {})

RECURSIVE HasAggMax(_)
HasAggMax(t) == t[1] = "aggmax" \/ \E k \in 1..Len(t[2]) : HasAggMax(t[2][k])

(* Array operands and aggregations are for vector-valued functions (d >= 2): an array of    *)
(* one element against a scalar function and the aggregation of a single constraint only   *)
(* probe how gemseo represents scalars (float / 1-element array), of which the property     *)
(* does not speak.  For the same reason the second-order Taylor polynomial (scalar          *)
(* functions only) is not applied over aggregate_max, which returns a 1-element array.      *)
(* Functions with a sparse Jacobian (MDOLinearFunction on CSR coefficients and what its own  *)
(* methods return) are enumerated under these methods and under number operands only: the    *)
(* generic operator makers compute with dense Jacobians.                                      *)
SparseExt(a) ==
  LET ty == Ty(a) IN
  {Un("neg", a, <<>>)}
  \cup {Un(o, a, <<c>>) : o \in FCOps, c \in Consts}
  \cup (IF ty.kind = "lin" /\ ty.n >= 2 THEN {Un("lrestr", a, q) : q \in RestrPars(ty.n)} ELSE {})
  \cup (IF ty.kind = "lin" /\ ty.norm = "no" THEN {Un("normalize", a, Space(ty.n))} ELSE {})

DenseExt(a) ==
  LET ty == Ty(a) IN
  {Un("neg", a, <<>>)}
  \cup {Un(o, a, <<c>>) : o \in FCOps, c \in Consts}
  \cup (IF ty.d >= 2 THEN {Un(o, a, ArrOf(ty.d)) : o \in FAOps} ELSE {})
  \cup (IF ty.n >= 2 THEN {Un(o, a, q) : o \in {"restr", "rrestr"}, q \in RestrPars(ty.n)} ELSE {})
  \cup (IF ty.n >= 2 /\ ty.kind = "lin" THEN {Un("lrestr", a, q) : q \in RestrPars(ty.n)} ELSE {})
  \cup {Un("lincomp", a, M) : M \in MatsFor(ty.n)}
  \cup (IF ty.kind = "lin" /\ ty.norm = "no" THEN {Un("normalize", a, Space(ty.n))} ELSE {})
  \cup {Un("taylor1", a, XHat(ty.n))}
  \cup (IF ty.d = 1 /\ ~HasAggMax(a) THEN {Un("taylor2", a, XHat(ty.n) \o Hess(ty.n))} ELSE {})
  \cup {Un("cvx", a, XHatC(ty.n) \o m) : m \in Masks(ty.n)}
  \cup (IF ty.d >= 2 THEN {Un(o, a, q) : o \in AggOps, q \in AggPars(ty.d)} ELSE {})

UnaryExt(a) == IF Ty(a).sp THEN SparseExt(a) ELSE DenseExt(a)

DimsAgree(ta, tb) == ta.d = tb.d \/ ta.d = 1 \/ tb.d = 1
BinExt(a, b) ==
  LET ta == Ty(a)  tb == Ty(b) IN
  IF ta.n # tb.n \/ ta.norm = "amb" \/ tb.norm = "amb" \/ ta.norm # tb.norm \/ ta.sp \/ tb.sp THEN {}
  ELSE (IF DimsAgree(ta, tb) THEN {Bin(o, a, b) : o \in FFOps} ELSE {})
       \cup (IF ta.norm = "no" THEN {Bin("concat", a, b)} ELSE {})

(* second operands of the binary operators: the leaves plus a few functions of 1 and 3 inputs *)
Partners == Leaves \cup { Un("restr", Leaf("v"), <<1, 0, 2>>), Un("lrestr", Leaf("Ls"), <<1, 1, 2>>),
                          Un("lincomp", Leaf("s"), <<2, 3, 1, 0, 2, 0, 1, -1>>),
                          Un("normalize", Leaf("L"), Space(2)) }

Ext(S) == UNION {UnaryExt(a) : a \in S}
          \cup UNION {BinExt(a, b) \cup BinExt(b, a) : a \in S, b \in Partners}

OpNames == <<"w", "Lc", "M", "Mc", "s", "v", "u", "Ls", "L", "Lu", "Q", "add", "sub", "mul", "div", "addc", "subc", "mulc",
             "divc", "offc", "adda", "suba", "mula", "diva", "offa", "neg", "restr", "rrestr", "lrestr", "lincomp",
             "concat", "normalize", "taylor1", "taylor2", "cvx", "aggmax", "aggsq", "aggpos", "p">>
OpIdx(o) == CHOOSE i \in 1..Len(OpNames) : OpNames[i] = o
RECURSIVE SumInts(_)
SumInts(s) == IF Len(s) = 0 THEN 0 ELSE s[1] + SumInts(Tail(s))
RECURSIVE Hash(_)
Hash(t) == (OpIdx(t[1]) * 7919
            + SumInts([k \in 1..Len(t[2]) |-> (k * 31 + 5) * Hash(t[2][k])])
            + SumInts([k \in 1..Len(t[3]) |-> (k * 17 + 3) * (t[3][k] + 9)])) % 100003

(* Level d = trees of depth d built over (a sample of) level d-1: every operator and   *)
(* parameter variant is applied to each picked tree; all trees are picked up to        *)
(* FullDepth, beyond it those with (Hash + 7 Seed) % SampleMod (SampleModDeep) = 0.    *)
Pick(S, d) == IF d <= FullDepth THEN S
              ELSE LET m == IF d = FullDepth + 1 THEN SampleMod ELSE SampleModDeep IN
                   {a \in S : (Hash(a) + 7 * Seed) % m = 0}
RECURSIVE Level(_)
Level(d) == IF d = 0 THEN Leaves ELSE Ext(Pick(Level(d - 1), d))
Selected == {t \in UNION {Level(d) : d \in 0..MaxDepth} : (Hash(t) \div 7) % NParts = Part}

(* function-function operations with exactly one operand expecting normalised inputs: rejected *)
Rejects == IF Part # 0 THEN {}
           ELSE LET N == Un("normalize", Leaf("L"), Space(2)) IN
                UNION {{Bin(o, N, l), Bin(o, l, N)} : o \in FFOps, l \in {Leaf("s"), Leaf("L"), Leaf("v")}}

Axis == -1..2
Lattice(n) == CASE n = 1 -> {<<x0>> : x0 \in Axis}
                [] n = 2 -> {<<x0, x1>> : x0 \in Axis, x1 \in Axis}
                [] n = 3 -> {<<x0, x1, x2>> : x0 \in Axis, x1 \in (IF Wide THEN Axis ELSE {0, 2}),
                                              x2 \in (IF Wide THEN Axis ELSE {-1, 1})}

-----------------------------------------------------------------------------
Empty == [v |-> <<>>, j |-> <<>>]

Init ==
  \/ /\ tree \in Selected
     /\ pt \in {q \in Lattice(Ty(tree).n) : Adm(tree, DV(q))}
     /\ phase = "operands"
     /\ obs = Obs(tree, DV(pt), <<>>)
     /\ res = Empty
  \/ /\ tree \in Rejects
     /\ pt = <<>>
     /\ phase = "build"
     /\ obs = <<>>
     /\ res = Empty

(* Evaluating the tree: the operands' observations are unchanged. *)
Evaluate ==
  /\ phase = "operands"
  /\ res' = E(tree, DV(pt))
  /\ phase' = "done"
  /\ UNCHANGED <<tree, pt, obs>>
  /\ PrintT(<<"CASE", tree, pt, res'.v, res'.j, obs>>)

(* Building an operation over operands that disagree on normalised inputs raises. *)
Reject ==
  /\ phase = "build"
  /\ phase' = "rejected"
  /\ UNCHANGED <<tree, pt, obs, res>>
  /\ PrintT(<<"REJECT", tree>>)

(* Building the same operation again over the same operands gives the same function (a     *)
(* second normalize() of a linear function, a second restriction ...): the operands are what *)
(* they were.                                                                                 *)
Rebuild ==
  /\ phase = "done"
  /\ phase' = "rebuilt"
  /\ res' = E(tree, DV(pt))
  /\ UNCHANGED <<tree, pt, obs>>

Next == Evaluate \/ Rebuild \/ Reject
Spec == Init /\ [][Next]_vars

-----------------------------------------------------------------------------
(* Properties.                                                             *)

NoOperandMutation == [][obs' = obs]_vars
RebuildSame == [][phase' = "rebuilt" => res' = res]_vars

Done == phase = "done"
X == DV(pt)

ShapeOK == Done => LET ty == Ty(tree) IN
                   /\ Len(res.v) = ty.d
                   /\ Len(res.j) = ty.d
                   /\ \A r \in 1..ty.d : Len(res.j[r]) = ty.n
                   /\ Len(pt) = ty.n

ObsShapeOK == \A k \in 1..Len(obs) : Len(obs[k][3]) = Len(obs[k][4])
                                     /\ \A r \in 1..Len(obs[k][4]) : Len(obs[k][4][r]) = Len(obs[k][2])

(* Self-check of the differentiation rules of this module: for polynomial trees of   *)
(* degree <= 4 the five-point stencil is exact:                                      *)
(* 12 F'(x) e_i = -F(x+2e_i) + 8F(x+e_i) - 8F(x-e_i) + F(x-2e_i).                    *)
RECURSIVE Deg(_)
Deg(t) ==
  LET op == t[1]  a == t[2] IN
  CASE op \in {"s", "v", "Q", "w"} -> 2
    [] op = "u" -> 3
    [] op \in LinNames \cup {"p"} -> 1
    [] op \in {"add", "sub", "concat"} -> Max2(Deg(a[1]), Deg(a[2]))
    [] op = "mul" -> Deg(a[1]) + Deg(a[2])
    [] op \in {"div", "cvx", "aggmax", "aggpos"} -> 99
    [] op = "taylor1" -> IF Deg(a[1]) >= 99 THEN 99 ELSE 1
    [] op = "taylor2" -> IF Deg(a[1]) >= 99 THEN 99 ELSE 2
    [] op = "aggsq" -> 2 * Deg(a[1])
    [] OTHER -> Deg(a[1])
Shift(x, i, h) == [l \in 1..Len(x) |-> IF l = i THEN DAdd(x[l], DI(h)) ELSE x[l]]
StencilExact ==
  (CheckStencil /\ Done /\ Deg(tree) <= 4) =>
    \A i \in 1..Len(pt) :
      LET f2 == E(tree, Shift(X, i, 2)).v   f1 == E(tree, Shift(X, i, 1)).v
          b1 == E(tree, Shift(X, i, -1)).v  b2 == E(tree, Shift(X, i, -2)).v IN
      \A r \in 1..Len(res.v) :
        DMul(DI(12), res.j[r][i]) =
          DAdd(DSub(DMul(DI(8), f1[r]), f2[r]), DSub(b2[r], DMul(DI(8), b1[r])))

(* The quotient rule agrees with the product rule: (f/g).g = f. *)
QuotientConsistent ==
  (Done /\ tree[1] = "div") =>
    LET ea == E(tree[2][1], X)  eb == E(tree[2][2], X)  m == Len(res.v) IN
    /\ \A i \in 1..m : DMul(res.v[i], Bc(eb.v, m)[i]) = Bc(ea.v, m)[i]
    /\ MAdd(RowScale(Bc(eb.v, m), res.j), RowScale(res.v, Bc(eb.j, m))) = Bc(ea.j, m)

(* Taylor polynomials have first-order contact with the function at the expansion point. *)
TaylorContact ==
  (Done /\ tree[1] \in {"taylor1", "taylor2"}) =>
    LET xh == DV(SubSeqOf(tree[3], 1, Len(pt))) IN E(tree, xh) = E(tree[2][1], xh)

(* positive sum of squares = sum of squares where every selected output is positive *)
AggPosVsSq ==
  (Done /\ tree[1] = "aggpos") =>
    LET e == E(tree[2][1], X)  sel == AggSel(tree[3], Len(e.v)) IN
    (\A i \in 1..Len(sel) : DPos(e.v[sel[i]])) => res = E(<<"aggsq", tree[2], tree[3]>>, X)

(* the maximum dominates every scaled selected output and is one of them, with its scaled row *)
AggMaxIsMax ==
  (Done /\ tree[1] = "aggmax") =>
    LET e == E(tree[2][1], X)  sel == AggSel(tree[3], Len(e.v))  sc == AggScale(tree[3], Len(e.v)) IN
    /\ \A i \in 1..Len(sel) : ~DLess(res.v[1], DMul(sc[i], e.v[sel[i]]))
    /\ \E i \in 1..Len(sel) : res.v[1] = DMul(sc[i], e.v[sel[i]]) /\ res.j[1] = Scale(sc[i], e.j[sel[i]])

(* aggregating with a vector scale s is aggregating, with scale 1 and no selection, the function     *)
(* diag(s) g_sel (the selected constraints, each multiplied by its factor: rule "mula"); for the sums *)
(* of squares, whose factor multiplies the square, a constant vector is the number.                   *)
AggVectorScale ==
  (Done /\ tree[1] \in AggOps /\ AggVector(tree[3])) =>
    LET e == E(tree[2][1], X)  p == tree[3]  sel == AggSel(p, Len(e.v))  k == Len(sel)
        es == [v |-> [i \in 1..k |-> e.v[sel[i]]], j |-> [i \in 1..k |-> e.j[sel[i]]]]
        s == [i \in 1..k |-> p[2 + p[2] + i]]
        idx == SubSeqOf(p, 2, 2 + p[2]) IN
    /\ Len(p) = 2 + p[2] + k
    /\ \A i \in 1..k : s[i] > 0
    /\ tree[1] = "aggmax" => res = RuleAgg("aggmax", RuleFA("mula", es, s), <<1, 0>>, Len(pt))
    /\ tree[1] # "aggmax" => \A c \in Scales :
         RuleAgg(tree[1], e, <<0>> \o idx \o [i \in 1..k |-> c], Len(pt)) = RuleAgg(tree[1], e, <<c>> \o idx, Len(pt))

(* results are normalised dyadics (so that equal numbers are equal values) *)
Normalised ==
  Done => \A r \in 1..Len(res.v) :
             /\ DNorm(res.v[r]) = res.v[r]
             /\ \A c \in 1..Len(res.j[r]) : DNorm(res.j[r][c]) = res.j[r][c]

ASSUME PrintT(<<"LEAVES", LeafTable>>)
=============================================================================
