------------------------------- MODULE MatC17 -------------------------------
(***************************************************************************)
(* Small exact INTEGER matrices and vectors for Formulations (C17, exact-   *)
(* arithmetic slice, DESIGN 3.3).  A matrix is a sequence of rows, a row a  *)
(* sequence of integers; a vector is a sequence of integers.  Matrices may  *)
(* have 0 rows (NCols is then 0) where an operator says so.                 *)
(* Determinant = Laplace expansion along the first row; the inverse of a    *)
(* UNIMODULAR matrix (det = 1 or -1) is the integer matrix det * adjugate.  *)
(* Stand-alone on purpose: specs/Mat.tla belongs to C07.                    *)
(***************************************************************************)
EXTENDS Integers, Sequences, TLC

(* TLC evaluates [x \in S |-> e] lazily and re-evaluates e at every          *)
(* application; Mk/MkV force explicit tuples.                                *)
Mk(m, n, E(_, _)) == TLCEval([r \in 1..m |-> TLCEval([c \in 1..n |-> E(r, c)])])
MkV(n, E(_))      == TLCEval([r \in 1..n |-> E(r)])

NRows(A) == Len(A)
NCols(A) == IF Len(A) = 0 THEN 0 ELSE Len(A[1])
IsMat(A, m, n) == Len(A) = m /\ \A r \in 1..m : Len(A[r]) = n

Zero(m, n) == Mk(m, n, LAMBDA r, c : 0)
Ident(n)   == Mk(n, n, LAMBDA r, c : IF r = c THEN 1 ELSE 0)
ZeroV(n)   == MkV(n, LAMBDA r : 0)

MAdd(A, B)   == Mk(NRows(A), NCols(A), LAMBDA r, c : A[r][c] + B[r][c])
MSub(A, B)   == Mk(NRows(A), NCols(A), LAMBDA r, c : A[r][c] - B[r][c])
MNeg(A)      == Mk(NRows(A), NCols(A), LAMBDA r, c : 0 - A[r][c])
MScale(k, A) == Mk(NRows(A), NCols(A), LAMBDA r, c : k * A[r][c])
MT(A)        == Mk(NCols(A), NRows(A), LAMBDA r, c : A[c][r])

RECURSIVE DotTo(_, _, _, _, _)
DotTo(A, B, r, c, k) == IF k = 0 THEN 0 ELSE A[r][k] * B[k][c] + DotTo(A, B, r, c, k - 1)
\* NCols(A) = NRows(B); B may have 0 columns only if it has 0 rows
MMul(A, B) == Mk(NRows(A), NCols(B), LAMBDA r, c : DotTo(A, B, r, c, NCols(A)))

RECURSIVE RowDotTo(_, _, _, _)
RowDotTo(A, x, r, k) == IF k = 0 THEN 0 ELSE A[r][k] * x[k] + RowDotTo(A, x, r, k - 1)
MVec(A, x) == MkV(NRows(A), LAMBDA r : RowDotTo(A, x, r, Len(x)))

VAdd(x, y) == MkV(Len(x), LAMBDA r : x[r] + y[r])
VSub(x, y) == MkV(Len(x), LAMBDA r : x[r] - y[r])
VSquare(x) == MkV(Len(x), LAMBDA r : x[r] * x[r])
VIsZero(x) == \A r \in 1..Len(x) : x[r] = 0
\* A . diag(d)
MScaleCols(A, d) == Mk(NRows(A), NCols(A), LAMBDA r, c : A[r][c] * d[c])

RECURSIVE MPow(_, _)
MPow(A, k) == IF k = 0 THEN Ident(NRows(A)) ELSE MMul(A, MPow(A, k - 1))
IsZero(A) == \A r \in 1..NRows(A) : \A c \in 1..NCols(A) : A[r][c] = 0

\* ---- blocks ------------------------------------------------------------
HCat(A, B) == TLCEval([r \in 1..NRows(A) |-> A[r] \o B[r]])
RECURSIVE HCatAll(_)
HCatAll(s) == IF Len(s) = 1 THEN s[1] ELSE HCat(s[1], HCatAll(Tail(s)))
RECURSIVE VCatAll(_)
VCatAll(s) == IF Len(s) = 0 THEN <<>> ELSE s[1] \o VCatAll(Tail(s))
\* block matrix from a sequence of NON-EMPTY block rows (possibly no block row: <<>>)
BlockMat(bs) == VCatAll(TLCEval([i \in 1..Len(bs) |-> HCatAll(bs[i])]))
\* concatenation of a sequence of vectors
RECURSIVE VecCat(_)
VecCat(s) == IF Len(s) = 0 THEN <<>> ELSE s[1] \o VecCat(Tail(s))
SubMat(A, r0, nr, c0, nc) == Mk(nr, nc, LAMBDA r, c : A[r0 + r][c0 + c])
SubVec(x, r0, n) == MkV(n, LAMBDA r : x[r0 + r])

\* ---- determinant, adjugate --------------------------------------------
DropAt(s, k) == TLCEval([i \in 1..(Len(s) - 1) |-> IF i < k THEN s[i] ELSE s[i + 1]])
Minor(A, i, j) == LET Ai == DropAt(A, i) IN TLCEval([r \in 1..(Len(A) - 1) |-> DropAt(Ai[r], j)])
Sign(k) == IF k % 2 = 0 THEN 1 ELSE -1

RECURSIVE Det(_)
RECURSIVE DetTo(_, _)
Det(A) == IF Len(A) = 0 THEN 1 ELSE IF Len(A) = 1 THEN A[1][1] ELSE DetTo(A, Len(A))
DetTo(A, j) == IF j = 0 THEN 0
               ELSE (IF A[1][j] = 0 THEN 0 ELSE Sign(1 + j) * A[1][j] * Det(Minor(A, 1, j)))
                    + DetTo(A, j - 1)
Cofactor(A, i, j) == IF Len(A) = 1 THEN 1 ELSE Sign(i + j) * Det(Minor(A, i, j))
Adj(A) == Mk(Len(A), Len(A), LAMBDA r, c : Cofactor(A, c, r))
IsUnimodular(A) == Det(A) \in {1, -1}
InvUnimod(A) == IF Len(A) = 0 THEN <<>> ELSE MScale(Det(A), Adj(A))

\* leading principal minors all > 0 (symmetric A): positive definite
PosDef(A) == \A k \in 1..Len(A) : Det(SubMat(A, 0, k, 0, k)) > 0
=============================================================================
