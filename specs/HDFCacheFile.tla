---------------------------- MODULE HDFCacheFile ----------------------------
(* C11 - an HDF5Cache written to a file/node and opened again on the same      *)
(* file/node (a new HDF5Cache object: BaseFullCache index + _read_hashes).     *)
(*                                                                             *)
(* entries : the node of the file, entry j = group str(j) with the inputs      *)
(*           (and their hash), and optionally the outputs / jacobian groups    *)
(* known, maxIdx : the index the open cache object keeps in memory             *)
(*           (_hashes_to_indices, _max_index); read from the file on opening   *)
(* mem     : what has been cached since the file was created (abstract)        *)
(* An input is identified by a small integer; the harness gives it distinct    *)
(* arrays and outputs.  Two cache objects writing to one node at the same time *)
(* are outside this module (one object is open at a time).                     *)
(*                                                                             *)
(* Jacobians.  What is cached is a mathematical object: for every (output,     *)
(* input) pair a matrix.  cache_jacobian accepts the matrix in several         *)
(* REPRESENTATIONS (a dense ndarray, a scipy sparse array in CSR, CSC or COO   *)
(* format); mem keeps the matrix whatever the representation, entries keep the *)
(* form the file stores it in (HDF5FileSingleton.__write_sparse_array: the     *)
(* row-compressed triplet data / indices / indptr + shape of value.tocsr() for *)
(* a sparse array, the array itself for a dense one), and Lookup decodes that  *)
(* form the way __read_sparse_array does (always as a row-compressed triplet). *)
(* The blocks are non-symmetric (pattern and values), square or not, with a    *)
(* row of zeros, so that a form stored or read along the wrong axis, or with   *)
(* the wrong pointers, is another matrix.                                      *)
(* A "big" block stands for a Jacobian whose sparse form does not fit in the   *)
(* attributes of an HDF5 dataset (more than 16384 non-zero elements): its      *)
(* elements are not modelled (rows = <<>>, the harness supplies the matrix and *)
(* compares what is served with what it supplied); only its existence, shape   *)
(* and stored format are.                                                      *)
EXTENDS Naturals, Sequences, FiniteSets, TLC
CONSTANTS NInputs,
          Reps,          \* the representations handed to cache_jacobian, a subset of AllReps
          Blocks         \* the Jacobian blocks in use, a subset of AllBlocks
VARIABLES entries, known, maxIdx, mem
cvars == <<entries, known, maxIdx, mem>>
Inputs == 1..NInputs
AllReps == {"dense", "csr", "csc", "coo"}
AllBlocks == {"sq", "wide", "tall", "big"}
BigN == 400                                  \* the big block is BigN x BigN with ~24000 non-zero elements
ASSUME Reps \subseteq AllReps /\ Blocks \subseteq AllBlocks /\ NInputs \in Nat

\* ------------------------------------------------------------------ the matrices
\* block -> the output and the input it differentiates, and its shape <<rows, columns>>
OutOf(b) == IF b = "wide" THEN "z" ELSE IF b = "big" THEN "Y" ELSE "y"
InOf(b) == IF b = "tall" THEN "w" ELSE IF b = "big" THEN "X" ELSE "x"
ShapeOf(b) == IF b = "sq" THEN <<3, 3>> ELSE IF b = "wide" THEN <<2, 3>>
              ELSE IF b = "tall" THEN <<3, 2>> ELSE <<BigN, BigN>>
\* element (r, c) of a block cached for input i:   sq  [x x x]   wide [x x x]   tall [x x]
\*                                                     [0 x 0]        [0 x 0]        [0 x]
\*                                                     [0 0 0]                       [0 0]
Elem(i, r, c) == IF (r + 2 * c) % 4 = 0 \/ r = 3 THEN 0 ELSE 16 * i + 4 * (r - 1) + c
Rows(i, b) == IF b = "big" THEN <<>>
              ELSE [r \in 1..ShapeOf(b)[1] |-> [c \in 1..ShapeOf(b)[2] |-> Elem(i, r, c)]]
\* the sibling block d out / d n (n: an input of size 1), always given as a dense column
ColRows(i, b) == IF b = "big" THEN <<>> ELSE [r \in 1..ShapeOf(b)[1] |-> <<100 * i + r>>]
\* a block of a Jacobian, as a mathematical object
Block(o, n, shape, rows) == [o |-> o, n |-> n, shape |-> shape, rows |-> rows]
\* the Jacobian cached by CacheJacobian(i, rep, b): {out: {in: the block in representation rep, "n": the column}}
JacOf(i, b) == {Block(OutOf(b), InOf(b), ShapeOf(b), Rows(i, b)),
                Block(OutOf(b), "n", <<ShapeOf(b)[1], 1>>, ColRows(i, b))}

\* ------------------------------------------------------------------ the stored forms
RECURSIVE Concat(_, _)
Concat(ss, k) == IF k > Len(ss) THEN <<>> ELSE ss[k] \o Concat(ss, k + 1)
RECURSIVE SumLen(_, _)
SumLen(ss, k) == IF k = 0 THEN 0 ELSE Len(ss[k]) + SumLen(ss, k - 1)
NzCols(row) == SelectSeq([c \in 1..Len(row) |-> c], LAMBDA c : row[c] # 0)
\* value.tocsr(): row by row, the non-zero elements in column order; indices are 0-based columns;
\* indptr[r] .. indptr[r + 1] delimit row r
CsrOf(rows, shape) ==
  LET nz == [r \in 1..Len(rows) |-> NzCols(rows[r])]
  IN [fmt |-> "csr", shape |-> shape,
      data |-> Concat([r \in 1..Len(rows) |-> [k \in 1..Len(nz[r]) |-> rows[r][nz[r][k]]]], 1),
      indices |-> Concat([r \in 1..Len(rows) |-> [k \in 1..Len(nz[r]) |-> nz[r][k] - 1]], 1),
      indptr |-> [r \in 1..(Len(rows) + 1) |-> SumLen(nz, r - 1)]]
\* a dense array is a dataset of its own: row-major
DenseOf(rows, shape) ==
  [fmt |-> "dense", shape |-> shape, data |-> Concat(rows, 1), indices |-> <<>>, indptr |-> <<>>]
\* the big block: format and shape only
OpaqueOf(fmt, shape) == [fmt |-> fmt, shape |-> shape, data |-> <<>>, indices |-> <<>>, indptr |-> <<>>]
\* write_data: isinstance(value, sparse_classes) ? __write_sparse_array(value.tocsr()) : dataset(value)
FormOf(blk, rep) ==
  IF blk.rows = <<>> THEN OpaqueOf(IF rep = "dense" THEN "dense" ELSE "csr", blk.shape)
  ELSE IF rep = "dense" THEN DenseOf(blk.rows, blk.shape) ELSE CsrOf(blk.rows, blk.shape)
Stored(blk, rep) == [o |-> blk.o, n |-> blk.n, form |-> FormOf(blk, rep)]
\* the representation of each block of JacOf(i, b): the harness gives rep to the block itself, the column is dense
StoredJac(i, rep, b) == {Stored(blk, IF blk.n = "n" THEN "dense" ELSE rep) : blk \in JacOf(i, b)}

\* read_data: dataset.attrs["sparse"] ? csr_array((data, indices, indptr), shape) : array(dataset)
ReadRows(f) ==
  IF f.data = <<>> /\ f.indptr = <<>> THEN <<>>                         \* the big block
  ELSE IF f.fmt = "dense"
  THEN [r \in 1..f.shape[1] |-> [c \in 1..f.shape[2] |-> f.data[(r - 1) * f.shape[2] + c]]]
  ELSE [r \in 1..f.shape[1] |-> [c \in 1..f.shape[2] |->
          LET ks == {k \in (f.indptr[r] + 1)..f.indptr[r + 1] : f.indices[k] = c - 1}
          IN IF ks = {} THEN 0 ELSE f.data[CHOOSE k \in ks : TRUE]]]
ReadBlock(s) == Block(s.o, s.n, s.form.shape, ReadRows(s.form))

\* ------------------------------------------------------------------ the cache
Nothing == [out |-> FALSE, jac |-> {}]

Init == /\ entries = <<>>
        /\ known = <<>>                       \* function input -> index, empty domain
        /\ maxIdx = 0
        /\ mem = [i \in Inputs |-> Nothing]

\* __ensure_input_data_exists: a new input gets index _max_index + 1 and its inputs group
Ensure(i) == IF i \in DOMAIN known THEN entries
             ELSE Append(entries, [inp |-> i, out |-> FALSE, jac |-> {}])
IndexOf(i) == IF i \in DOMAIN known THEN known[i] ELSE maxIdx + 1

\* _cache_inputs returns True when the group exists already: the first data cached for an input stay
Cache(i, group, jac, stored) ==
  LET e == Ensure(i)
      j == IndexOf(i)
  IN /\ j <= Len(e)                         \* the index designates an entry of the file (else: D11)
     /\ entries' = IF group = "out" THEN [e EXCEPT ![j].out = TRUE]
                   ELSE IF e[j].jac # {} THEN e ELSE [e EXCEPT ![j].jac = stored]
     /\ known' = [k \in (DOMAIN known) \cup {i} |-> IF k = i THEN j ELSE known[k]]
     /\ maxIdx' = IF i \in DOMAIN known THEN maxIdx ELSE maxIdx + 1
     /\ mem' = IF group = "out" THEN [mem EXCEPT ![i].out = TRUE]
               ELSE IF mem[i].jac # {} THEN mem ELSE [mem EXCEPT ![i].jac = jac]

\* cache.cache_outputs(inputs_i, outputs_i)
CacheOutputs(i) == /\ i \in Inputs
                   /\ Cache(i, "out", {}, {})
\* cache.cache_jacobian(inputs_i, {out: {in: block b in representation rep, "n": column}})
CacheJacobian(i, rep, b) == /\ i \in Inputs /\ rep \in Reps /\ b \in Blocks
                            /\ Cache(i, "jac", JacOf(i, b), StoredJac(i, rep, b))

\* cache = HDF5Cache(hdf_file_path=same file, hdf_node_path=same node): _read_hashes
Reopen ==
  /\ known' = [i \in {entries[j].inp : j \in 1..Len(entries)} |->
                 CHOOSE j \in 1..Len(entries) : entries[j].inp = i]
  /\ maxIdx' = Len(entries)
  /\ UNCHANGED <<entries, mem>>

Next == \/ \E i \in Inputs : CacheOutputs(i)
        \/ \E i \in Inputs, rep \in Reps, b \in Blocks : CacheJacobian(i, rep, b)
        \/ Reopen
Spec == Init /\ [][Next]_cvars

-----------------------------------------------------------------------------
\* what the open cache object returns for input i: cache[inputs_i]
Lookup(i) == IF i \in DOMAIN known /\ known[i] <= Len(entries)
             THEN [out |-> entries[known[i]].out, jac |-> {ReadBlock(s) : s \in entries[known[i]].jac}]
             ELSE Nothing
\* C11 for caches: whatever was cached is served (the same matrices, whatever the representation they
\* were given in), by the writing object and by any later one
Served == \A i \in Inputs : Lookup(i) = mem[i]
NoDuplicate == \A a, b \in 1..Len(entries) : entries[a].inp = entries[b].inp => a = b
LenIsMax == maxIdx = Len(entries) /\ maxIdx = Cardinality(DOMAIN known)
ReopenIsIdentity == [][Reopen => (known' = known /\ maxIdx' = maxIdx)]_cvars
\* every representation of every block is stored in a form that reads back to the block
FormsRoundTrip == \A i \in Inputs, rep \in Reps, b \in Blocks :
                    {ReadBlock(s) : s \in StoredJac(i, rep, b)} = JacOf(i, b)

\* the Jacobians as mathematical objects, for the harness, which builds them in every representation
\* (evaluated once)
ASSUME \A i \in Inputs, b \in Blocks : PrintT(<<"JAC", i, b, JacOf(i, b)>>)

\* Non-vacuity of the representation dimension (evaluated once): the column-compressed triplet of a
\* block, read as a row-compressed one, is NOT the block (square: its transpose; else: malformed).
Transpose(rows, shape) == [c \in 1..shape[2] |-> [r \in 1..shape[1] |-> rows[r][c]]]
CscAsCsr(rows, shape) == [CsrOf(Transpose(rows, shape), shape) EXCEPT !.fmt = "csr"]
ASSUME \A b \in AllBlocks \ {"big"} :
         LET f == CscAsCsr(Rows(1, b), ShapeOf(b))
         IN \/ Len(f.indptr) # ShapeOf(b)[1] + 1
            \/ ReadRows(f) # Rows(1, b)
=============================================================================
