---------------------------- MODULE HDFCacheFile ----------------------------
(* C11 - an HDF5Cache written to a file/node and opened again on the same      *)
(* file/node (a new HDF5Cache object: BaseFullCache index + _read_hashes).     *)
(*                                                                             *)
(* entries : the node of the file, entry j = group str(j) with the inputs      *)
(*           (and their hash), and optionally the outputs / jacobian groups    *)
(* known, maxIdx : the index the open cache object keeps in memory             *)
(*           (_hashes_to_indices, _max_index); read from the file on opening   *)
(* mem     : what has been cached since the file was created (abstract)        *)
(* An input is identified by a small integer; the harness gives it distinct    *)
(* arrays, outputs and Jacobians.  Two cache objects writing to one node at    *)
(* the same time are outside this module (one object is open at a time).       *)
EXTENDS Naturals, Sequences, FiniteSets, TLC
CONSTANTS NInputs
VARIABLES entries, known, maxIdx, mem
cvars == <<entries, known, maxIdx, mem>>
Inputs == 1..NInputs
Nothing == [out |-> FALSE, jac |-> FALSE]

Init == /\ entries = <<>>
        /\ known = <<>>                       \* function input -> index, empty domain
        /\ maxIdx = 0
        /\ mem = [i \in Inputs |-> Nothing]

\* __ensure_input_data_exists: a new input gets index _max_index + 1 and its inputs group
Ensure(i) == IF i \in DOMAIN known THEN entries
             ELSE Append(entries, [inp |-> i, out |-> FALSE, jac |-> FALSE])
IndexOf(i) == IF i \in DOMAIN known THEN known[i] ELSE maxIdx + 1

Cache(i, group) ==
  LET e == Ensure(i)
      j == IndexOf(i)
  IN /\ j <= Len(e)                         \* the index designates an entry of the file (else: D11)
     /\ entries' = IF group = "out" THEN [e EXCEPT ![j].out = TRUE] ELSE [e EXCEPT ![j].jac = TRUE]
     /\ known' = [k \in (DOMAIN known) \cup {i} |-> IF k = i THEN j ELSE known[k]]
     /\ maxIdx' = IF i \in DOMAIN known THEN maxIdx ELSE maxIdx + 1
     /\ mem' = IF group = "out" THEN [mem EXCEPT ![i].out = TRUE] ELSE [mem EXCEPT ![i].jac = TRUE]

CacheOutputs(i) == Cache(i, "out")          \* cache.cache_outputs(inputs_i, outputs_i)
CacheJacobian(i) == Cache(i, "jac")         \* cache.cache_jacobian(inputs_i, jacobian_i)

\* cache = HDF5Cache(hdf_file_path=same file, hdf_node_path=same node): _read_hashes
Reopen ==
  /\ known' = [i \in {entries[j].inp : j \in 1..Len(entries)} |->
                 CHOOSE j \in 1..Len(entries) : entries[j].inp = i]
  /\ maxIdx' = Len(entries)
  /\ UNCHANGED <<entries, mem>>

Next == \/ \E i \in Inputs : CacheOutputs(i) \/ CacheJacobian(i)
        \/ Reopen
Spec == Init /\ [][Next]_cvars

-----------------------------------------------------------------------------
\* what the open cache object returns for input i: cache[inputs_i]
Lookup(i) == IF i \in DOMAIN known /\ known[i] <= Len(entries)
             THEN [out |-> entries[known[i]].out, jac |-> entries[known[i]].jac]
             ELSE Nothing
\* C11 for caches: whatever was cached is served, by the writing object and by any later one
Served == \A i \in Inputs : Lookup(i) = mem[i]
NoDuplicate == \A a, b \in 1..Len(entries) : entries[a].inp = entries[b].inp => a = b
LenIsMax == maxIdx = Len(entries) /\ maxIdx = Cardinality(DOMAIN known)
ReopenIsIdentity == [][Reopen => (known' = known /\ maxIdx' = maxIdx)]_cvars
=============================================================================
