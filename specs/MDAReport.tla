------------------------------ MODULE MDAReport ------------------------------
(***************************************************************************)
(* spec -> code for C06: what the real MDA classes returned on the         *)
(* instances printed by MDA.tla, judged by the specification.              *)
(*                                                                         *)
(* A report is                                                             *)
(*   [id, inst, kind, ord, scal, p, run, y, rho]                           *)
(*   kind  "J"    the class tests the residual of a Jacobi-like sweep and  *)
(*                returns its image (MDAJacobi, MDANewtonRaphson, ...),    *)
(*         "GS"   of a Gauss-Seidel sweep in the listing order ord,        *)
(*         "both" a sequence of the two (MDAGSNewton, MDASequential),      *)
(*         "chain" an MDAChain over several groups (scalings without a     *)
(*                reference residual only),                                *)
(*         "root" no residual is reported (MDAQuasiNewton/hybr): tolerance *)
(*                relative to the size of the solution;                    *)
(*   scal  the residual scaling, p: tolerance = 10^-p, run: 1 or 2;        *)
(*   y     the returned coupling values, rho the outputs of the harness    *)
(*         disciplines re-executed on the returned data minus the returned *)
(*         values - both as EXACT doubles <<sign, BigNat, e>> = s*n/2^e.   *)
(*   dtype / reuse / plain  the flavour of the harness disciplines (see    *)
(*         MDATrace; not part of the system): integer-typed couplings are  *)
(*         admitted on the nilpotent family for a plain fixed-point class  *)
(*         (no acceleration, relaxation 1: IntegralOrbit of MDA.tla);      *)
(* Judge prints <<"V", id, errOK, resOK, consOK, stalled>> (stalled: the   *)
(* first residual of the kind vanishes on some resolved variable only):    *)
(*   errOK   ||y - Exact||_inf <= Amp * tol * S   (the bound APost gives   *)
(*           at Stop; S = the scaling reference the specification computes *)
(*           from the first residual of the first execution),              *)
(*   resOK   ||rho||_inf <= ||B||_inf * tol * S   (re-execution residual), *)
(*   consOK  ||y - Exact||_inf <= ||(I-B)^-1||_inf * ||rho||_inf : the     *)
(*           harness disciplines are the system of the instance (an        *)
(*           identity of the model, independent of any MDA).               *)
(* Doubles carry rounding errors the specification does not model: every   *)
(* comparison is  lhs^2 <= 2 * rhs^2 + 2^-79  (i.e. lhs <= rhs + 2^-40,    *)
(* with a factor sqrt 2 of safety), evaluated exactly on BigNats.          *)
(***************************************************************************)
EXTENDS MDA, Json, IOUtils, TLCExt

Reports == JsonDeserialize(IOEnv.REPORT_FILE)
VARIABLE tid
R == Reports[tid]

\* ---- whole sweeps as operators (the same OutComp as the action Exec)
\* TLCEval: TLC evaluates function constructors lazily and re-evaluates them at every application;
\* forcing each sweep into an explicit tuple keeps the evaluation stack shallow
SweepJ(I, n, src) == TLCEval([c \in 1..Dim(I) |-> OutComp(I, n, c, src)])
RECURSIVE GSTo(_, _, _, _, _)
GSTo(I, n, o, src, j) ==
  IF j = 0 THEN src
  ELSE LET prev == TLCEval(GSTo(I, n, o, src, j - 1))
       IN  TLCEval([c \in 1..Dim(I) |-> IF c \in Comps(I, o[j]) THEN OutComp(I, n, c, prev) ELSE prev[c]])
SweepGS(I, n, o, src) == GSTo(I, n, o, src, ND(I))
VSub(a, b) == TLCEval([c \in 1..Len(a) |-> DSub(a[c], b[c])])

\* the first residual ever computed by a one-stage object of that kind (first execution, from y0)
R0(I, kind, o) == LET s == TLCEval(DVec(I.y0))
                  IN  IF kind = "GS" THEN LET z == TLCEval(SweepGS(I, 1, o, s)) IN VSub(SweepGS(I, 1, o, z), z)
                      ELSE VSub(SweepJ(I, 1, s), s)

\* pairs <<BigNat S, E>> = S / 4^E
PMax(a, b) == IF BCmpSh(a[1], 2 * (b[2] - a[2]), b[1]) <= 0 THEN b ELSE a
\* the largest of f[1..n] (One when n = 0).  The values are forced into a tuple first and the maximum is picked
\* by index: TLC passes operator arguments unevaluated, and a recursion through PMax (which mentions its
\* second argument three times) costs 3^n evaluations of the references - minutes for 6 resolved components
PLeq(a, b) == BCmpSh(a[1], 2 * (b[2] - a[2]), b[1]) <= 0
PMaxTo(f, n) == IF n = 0 THEN One
                ELSE LET v == TLCEval([j \in 1..n |-> f[j]])
                     IN  v[CHOOSE i \in 1..n : \A j \in 1..n : PLeq(v[j], v[i])]
PTimes(a, m) == <<BMulSmall(a[1], m), a[2]>>

\* the square of (an upper bound of) the scaling reference; the residual lives on the resolved
\* components of the one-stage program (st)
S2(I, kind, o, scal) ==
  LET r  == TLCEval(R0(I, kind, o))
      st == StageOfAlg(I, [alg |-> IF kind = "GS" THEN "GS" ELSE "J", ord |-> o], Discs(I),
                       IF kind = "GS" THEN "GS" ELSE "J", 1, 1)
      n  == Len(st.ridx)
  IN  CASE scal = "no"    -> One
        [] scal = "ncpl"  -> <<BN(IF kind = "chain" THEN Dim(I) ELSE n), 0>>
        [] scal = "init"  -> RefSq(r, st.ridx)
        [] scal = "sub"   -> PMaxTo([j \in 1..Len(st.rvar) |-> RefSq(r, st.rvar[j])], Len(st.rvar))
        [] scal = "comp"  -> PMaxTo([j \in 1..n |-> RefSq(r, <<st.ridx[j]>>)], n)
        [] scal = "scomp" -> PTimes(PMaxTo([j \in 1..n |-> RefSq(r, <<st.ridx[j]>>)], n), n)

\* ---- exact doubles
RECURSIVE BigExpTo(_, _)
BigExpTo(v, n) == IF n = 0 THEN 0 ELSE MaxI(v[n][3], BigExpTo(v, n - 1))
BigExp(v) == BigExpTo(v, Len(v))
\* |v_c| * 2^E
BigAt(x, E) == BShl(x[2], E - x[3])
\* |v_c - p/d| * d * 2^E
BigErrAt(x, p, d, E) == SBSub(<<x[1], BMul(BigAt(x, E), BN(d))>>, SBMulB(SB(p), BShl(BN(1), E)))[2]

RECURSIVE Pow10(_)
Pow10(n) == IF n = 0 THEN BN(1) ELSE BMulSmall(Pow10(n - 1), 10)
Sq(b) == BMul(b, b)
Slack == 79

\* (L / (dl * 2^El))^2 <= 2 (a1/a2)^2 (b1/b2)^2 * P/4^EP + 2^-Slack
\*  L^2 a2^2 b2^2 4^EP 2^Slack <= 2 a1^2 b1^2 P dl^2 4^El 2^Slack + dl^2 4^El a2^2 b2^2 4^EP
LeqSq(L, dl, El, a1, a2, b1, b2, P, EP) ==
  LET lhs == BShl(BMul(BMul(Sq(L), Sq(a2)), Sq(b2)), 2 * EP + Slack)
      r1  == BShl(BMul(BMul(BMul(BMulSmall(Sq(a1), 2), Sq(b1)), P), Sq(dl)), 2 * El + Slack)
      r2  == BShl(BMul(BMul(Sq(dl), Sq(a2)), Sq(b2)), 2 * El + 2 * EP)
  IN  BLeq(lhs, BAdd(r1, r2))

KInv(I) == IF I.fam = "con" THEN <<DB(I), DB(I) - QN(I)>> ELSE <<InfNorm(GeomTo(I.B, Dim(I) - 1)), 1>>
AmpOf(I, kind, o) ==
  IF I.fam = "con" \/ ~OneGroup(I) \/ kind = "chain" THEN AmpAny(I)
  ELSE CASE kind = "J"  -> Amp(I, "J", o)
         [] kind = "GS" -> Amp(I, "GS", o)
         [] OTHER -> LET a == Amp(I, "J", o)
                         b == Amp(I, "GS", o)
                     IN  <<MaxI(a[1], b[1]), 1>>

\* ceiling of ||Exact||_inf, plus one
SolSize(p, d) == 2 + MaxTo([c \in 1..Len(p) |-> AbsI(p[c]) \div d], Len(p))

Verdict3 ==
  LET I   == R.inst
      b   == ExAux(I)
      p   == b.ex[R.run]
      d   == b.den
      n   == Dim(I)
      Ey  == BigExp(R.y)
      Er  == BigExp(R.rho)
      err == BMaxTo([c \in 1..n |-> BigErrAt(R.y[c], p[c], d, Ey)], n)       \* * d * 2^Ey
      rho == BMaxTo([c \in 1..n |-> BigAt(R.rho[c], Er)], n)                 \* * 2^Er
      root == R.kind = "root"
      a   == IF root THEN KInv(I) ELSE AmpOf(I, R.kind, R.ord)
      s2  == IF root THEN <<Sq(BN(SolSize(p, d))), 0>>
             ELSE S2(I, R.kind, R.ord, R.scal)
      tol == Pow10(R.p)
      kk  == KInv(I)
      q   == IF root THEN <<1, 1>> ELSE <<QN(I), DB(I)>>
  IN  << LeqSq(err, BN(d), Ey, BN(a[1]), BN(a[2]), BN(1), tol, s2[1], s2[2]),
         LeqSq(rho, BN(1), Er, BN(q[1]), BN(q[2]), BN(1), tol, s2[1], s2[2]),
         \* err <= K * rho:  P/4^EP = rho^2 / 4^Er
         LeqSq(err, BN(d), Ey, BN(kk[1]), BN(kk[2]), BN(1), BN(1), Sq(rho), Er) >>

RInit == /\ tid \in 1..Len(Reports)
         /\ (ValidInst(R.inst) /\ R.ord \in Perms(ND(R.inst)) /\ R.run \in 1..2) = TRUE
         /\ Start(R.inst, [alg |-> "J", w |-> 2, ord |-> R.ord, t |-> 1, maxit |-> 1, scal |-> "no",
                           warm |-> FALSE, runs |-> 1, a1 |-> "J", t1 |-> 1, m1 |-> 1], ExAux(R.inst))
         /\ (R.scal \in {"no", "ncpl"} \/ R.kind \in {"J", "GS"}) = TRUE
         /\ (R.dtype \in {"float", "int"} /\ R.reuse \in BOOLEAN /\ R.plain \in BOOLEAN) = TRUE
         /\ (R.dtype = "int" => (R.plain /\ IntegralOrbit(R.inst, [w |-> 2]))) = TRUE
RNext == UNCHANGED <<vars, tid>>

RStalled == R.kind \in {"J", "GS"} /\ StalledStart(R.inst, R.kind, R.ord)
Judge == LET v == Verdict3 IN PrintT(<<"V", R.id, v[1], v[2], v[3], RStalled>>)
=============================================================================
