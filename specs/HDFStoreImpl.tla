---------------------------- MODULE HDFStoreImpl ----------------------------
(* C11 - the HDF5 file as gemseo/algos/_hdf_database.py lays it out, and the   *)
(* bookkeeping of the append mode, action by action as the code does it.       *)
(*                                                                             *)
(* file[i] (i = position of the point in the database, dataset name str(i-1)): *)
(*   x    the point                       group "x",  dataset str(i-1)         *)
(*   k    the sequence of output names    group "k",  dataset str(i-1)         *)
(*   v    the vector of scalar values     group "v",  dataset str(i-1)         *)
(*          (absent when empty)                                                *)
(*   arr  the array outputs {[idx, kind, val]}: group "v/arr_<i-1>", dataset   *)
(*          str(idx); idx is the 0-based position of the name in k             *)
(* pending: HDFDatabase.__pending_arrays (points stored since the last export).*)
(* The module refines HDFStore under disk <- DecodeFile(file), where Decode is *)
(* HDFDatabase.update_from_file read line by line.                             *)
EXTENDS Naturals, Sequences, FiniteSets, TLC
CONSTANTS NKeys, Names, Scalars, Size1s, Vectors, Matrices, WithProblem
VARIABLES db, pending, file, exists, descr
vars == <<db, pending, file, exists, descr>>

\* ------------------------------------------------------------------ reading (update_from_file)
\* names_to_arrays = {keys[int(k)]: array(v) for k, v in values_group["arr_i"].items()}
DecodeOK(fe) == \A a \in fe.arr : a.idx + 1 \in 1..Len(fe.k)
ArrNames(fe) == {fe.k[a.idx + 1] : a \in fe.arr}
\* zip((k for k in keys if k not in names_to_arrays), values_group[str(i)])
ScalarNames(fe) == SelectSeq(fe.k, LAMBDA n : n \notin ArrNames(fe))
Decode(fe) ==
  IF ~DecodeOK(fe) THEN [key |-> fe.x, outs |-> <<>>]     \* IndexError in the code; excluded by IndexConsistency
  ELSE
  LET sn == ScalarNames(fe)
      m == IF Len(sn) <= Len(fe.v) THEN Len(sn) ELSE Len(fe.v)          \* zip stops at the shorter
      scal == {sn[j] : j \in 1..m}
      arrOf(n) == CHOOSE a \in fe.arr : fe.k[a.idx + 1] = n
      posOf(n) == CHOOSE j \in 1..m : sn[j] = n
  IN [key |-> fe.x,
      outs |-> [n \in scal \cup ArrNames(fe) |->
                  IF n \in ArrNames(fe)                                   \* scalar_dict.update(names_to_arrays)
                  THEN [kind |-> arrOf(n).kind, val |-> arrOf(n).val]
                  ELSE [kind |-> "scalar", val |-> fe.v[posOf(n)]]]]
\* for raw_index in range(len(design_vars_grp)): ... database.store(x, outputs)
Indices(f) == SelectSeq([i \in 1..NKeys |-> i], LAMBDA i : i \in DOMAIN f)
Contiguous(f) == DOMAIN f = 1..Cardinality(DOMAIN f)
DecodeFile(f) == [j \in 1..Cardinality(DOMAIN f) |-> Decode(f[Indices(f)[j]])]

Abs == INSTANCE HDFStore WITH disk <- DecodeFile(file)
Sorted == Abs!Sorted
NamesOf(e) == DOMAIN e.outs
KeysOf(s) == Abs!KeysOf(s)
Pos(s, key) == Abs!Pos(s, key)

\* ------------------------------------------------------------------ writing
SortNames(S) == SelectSeq(Sorted, LAMBDA n : n \in S)              \* sorted(output_values.keys())
IsArray(o) == o.kind # "scalar"                                     \* isinstance(value, (ndarray, list))

\* __add_hdf_output_dataset(index, keys_group, values_group, output_values, output_name_to_idx):
\* the names ks (sorted) are appended to k; scalars are collected in order and appended to v;
\* every array goes to arr under the index the mapping gives to its name.
WriteOutputs(fe, outs, ks, ids) ==
  LET scalPos == SelectSeq([j \in 1..Len(ks) |-> j], LAMBDA j : ~IsArray(outs[ks[j]]))
  IN [fe EXCEPT
       !.k = @ \o ks,
       !.v = @ \o [j \in 1..Len(scalPos) |-> outs[ks[scalPos[j]]].val],
       !.arr = @ \cup {[idx |-> ids[j], kind |-> outs[ks[j]].kind, val |-> outs[ks[j]].val] :
                          j \in {jj \in 1..Len(ks) : IsArray(outs[ks[jj]])}}]

\* __create_hdf_input_output: new x dataset, outputs with the default mapping
\* dict(zip(sorted names, range(len(outputs))))
NewEntry(e) ==
  LET ks == SortNames(NamesOf(e))
  IN WriteOutputs([x |-> e.key, k |-> <<>>, v |-> <<>>, arr |-> {}], e.outs, ks,
                  [j \in 1..Len(ks) |-> j - 1])

\* __append_hdf_output / __get_missing_hdf_output_dataset: the names of the database entry that
\* the file entry lacks, sorted, zipped with range(len(existing names), len(outputs))
AppendEntry(fe, e) ==
  LET existing == {fe.k[j] : j \in 1..Len(fe.k)}
      missing == SortNames(NamesOf(e) \ existing)
      nIds == IF Cardinality(NamesOf(e)) >= Len(fe.k) THEN Cardinality(NamesOf(e)) - Len(fe.k) ELSE 0
      ids == [j \in 1..nIds |-> Len(fe.k) + j - 1]
  IN IF missing = <<>> THEN fe ELSE WriteOutputs(fe, e.outs, missing, ids)
\* the zip above silently truncates and a missing name then raises KeyError; in this model every
\* name of the file entry is still in the database entry (FileWithinDb), so both have one length.

FullLayout(d) == [i \in 1..Len(d) |-> NewEntry(d[i])]

Init == db = <<>> /\ pending = {} /\ file = <<>> /\ exists = FALSE /\ descr = FALSE

Store(key, names) ==
  /\ key = Len(db) + 1 /\ key <= NKeys
  /\ db' = Abs!StoreInto(db, Abs!Entry(key, names))
  /\ pending' = pending \cup {key}                                  \* add_pending_array
  /\ UNCHANGED <<file, exists, descr>>

StoreMore(key, names) ==
  /\ key \in KeysOf(db)
  /\ names \cap NamesOf(db[Pos(db, key)]) = {}
  /\ db' = Abs!StoreInto(db, Abs!Entry(key, names))
  /\ pending' = pending \cup {key}
  /\ UNCHANGED <<file, exists, descr>>

\* HDFDatabase.to_file(database, path, append) on a file whose layout is f (ex: it exists)
Written(f, ex, append) ==
  IF append /\ ex /\ DOMAIN f # {}                                \* append and len(design_vars_grp) != 0
  THEN \* for input_values in pending: index = position in the database;
       \* str(index) in x ? append the missing outputs : create the entry at that index
       LET touched == {Pos(db, key) : key \in pending}
       IN [i \in (DOMAIN f) \cup touched |->
             IF i \in DOMAIN f
             THEN (IF i \in touched THEN AppendEntry(f[i], db[i]) ELSE f[i])
             ELSE NewEntry(db[i])]
  ELSE FullLayout(db)                                              \* mode "w", or an empty x group

\* Database.to_hdf(path, append)
Export(append) ==
  /\ file' = Written(file, exists, append)
  /\ exists' = TRUE
  /\ descr' = (descr /\ append)                                    \* mode "w" truncates the whole file
  /\ pending' = {}                                                  \* __pending_arrays.clear()
  /\ UNCHANGED db

\* OptimizationProblem.to_hdf(path, append): opens the file ("w" unless append), writes the description
\* groups if (not append or they are absent), closes it, then database.to_hdf(path, append=True)
ExportProblem(append) ==
  /\ WithProblem
  /\ file' = Written(IF append THEN file ELSE <<>>, TRUE, TRUE)
  /\ exists' = TRUE
  /\ descr' = TRUE
  /\ pending' = {}
  /\ UNCHANGED db

\* db = Database.from_hdf(path): a fresh database filled by update_from_file
Reload ==
  /\ exists
  /\ db' = DecodeFile(file)
  /\ pending' = KeysOf(db')
  /\ UNCHANGED <<file, exists, descr>>

\* db.update_from_hdf(path) on the working database
Update ==
  /\ exists
  /\ db' = Abs!StoreAll(db, DecodeFile(file), 1)
  /\ pending' = pending \cup KeysOf(DecodeFile(file))
  /\ UNCHANGED <<file, exists, descr>>

\* db.update_from_hdf(other path) on the working database: update_from_file reads the other file
\* (here: as one full export of the other database lays it out) entry by entry and calls
\* database.store(x, outputs), which queues x through add_pending_array whatever the file it came
\* from: what was read is written to the working database's own file by its next append export.
\* d = <<<<key, names>>, ...>>: the other database (see HDFStore!UpdateFrom).
ForeignRead(d) == DecodeFile(FullLayout(Abs!ForeignDb(d)))
UpdateFrom(d) ==
  /\ Abs!ForeignOK(d)
  /\ db' = Abs!StoreAll(db, ForeignRead(d), 1)
  /\ pending' = pending \cup KeysOf(ForeignRead(d))
  /\ UNCHANGED <<file, exists, descr>>

\* problem = OptimizationProblem.from_hdf(path): its database is Database.from_hdf(path)
ReloadProblem ==
  /\ WithProblem /\ descr
  /\ db' = DecodeFile(file)
  /\ pending' = KeysOf(db')
  /\ UNCHANGED <<file, exists, descr>>

Next == \/ \E key \in 1..NKeys, names \in SUBSET Names : Store(key, names) \/ StoreMore(key, names)
        \/ \E a \in BOOLEAN : Export(a) \/ ExportProblem(a)
        \/ Reload
        \/ Update
        \/ ReloadProblem
Spec == Init /\ [][Next]_vars

-----------------------------------------------------------------------------
NoDup(s) == \A i, j \in 1..Len(s) : s[i] = s[j] => i = j
FileEntryOK(fe) ==
  /\ fe.x \in 1..NKeys
  /\ \A j \in 1..Len(fe.k) : fe.k[j] \in Names
  /\ \A a \in fe.arr : a.idx \in Nat /\ a.kind \in Abs!Kinds \ {"scalar"}
TypeOK == /\ Len(db) <= NKeys /\ \A i \in DOMAIN db : Abs!EntryOK(db[i])
          /\ DOMAIN file \subseteq 1..NKeys /\ \A i \in DOMAIN file : FileEntryOK(file[i])
          /\ pending \subseteq KeysOf(db)
          /\ exists \in BOOLEAN /\ descr \in BOOLEAN /\ (descr => exists)
\* range(len(x)) must hit existing datasets; entry i of the file is point i of the database
NoHole == Contiguous(file)
KeysAligned == \A i \in DOMAIN file : i <= Len(db) /\ file[i].x = db[i].key
FileWithinDb == \A i \in DOMAIN file : i <= Len(db) /\ \A j \in 1..Len(file[i].k) : file[i].k[j] \in NamesOf(db[i])
\* the positions of the array names in k are exactly the indices of arr, each array sits at the
\* position of its own name, and the scalar names in k-order zip with v
IndexConsistency ==
  \A i \in DOMAIN file :
    LET fe == file[i] IN
    /\ NoDup(fe.k)
    /\ DecodeOK(fe)
    /\ \A a, b \in fe.arr : a.idx = b.idx => a = b
    /\ {a.idx + 1 : a \in fe.arr} = {j \in 1..Len(fe.k) : Abs!KindOf(fe.k[j]) # "scalar"}
    /\ \A a \in fe.arr : a.kind = Abs!KindOf(fe.k[a.idx + 1]) /\ a.val = Abs!Val(fe.x, fe.k[a.idx + 1])
    /\ Len(ScalarNames(fe)) = Len(fe.v)
    /\ \A j \in 1..Len(fe.v) : fe.v[j] = Abs!Val(fe.x, ScalarNames(fe)[j])
\* everything in which the file differs from the database is pending
PendingCovers ==
  \A i \in DOMAIN db : db[i].key \notin pending => (exists /\ i \in DOMAIN file /\ Decode(file[i]) = db[i])
\* C11: after an export the file decodes to the database ...
RoundTrip == (exists /\ pending = {}) => DecodeFile(file) = db
\* ... and to what one full export of the database decodes to
FullDecodes == DecodeFile(FullLayout(db)) = db
AppendEqualsFull == (exists /\ pending = {}) => DecodeFile(file) = DecodeFile(FullLayout(db))
ExportStep == \E a \in BOOLEAN : Export(a) \/ ExportProblem(a)
RoundTripStep == [][ExportStep => (DecodeFile(file') = db' /\ DecodeFile(file') = DecodeFile(FullLayout(db')))]_vars
\* refinement of the abstract specification
Refines == Abs!Spec
=============================================================================
