----------------------------- MODULE CoupledDeriv -----------------------------
(***************************************************************************)
(* C07 - coupled total derivatives of an MDA (exact-arithmetic slice).     *)
(*                                                                         *)
(* An INSTANCE is a coupled LINEAR system of 2-3 disciplines               *)
(*      out = sum_{in} J[out][in] . in                                     *)
(* with integer partial Jacobians (entries -2..2), variable sizes 1..2     *)
(* (non-square blocks), whose residual Jacobian I - B over all coupling    *)
(* variables is UNIMODULAR, so that every total derivative is an integer   *)
(* matrix.  Instances are enumerated as initial states:                    *)
(*    topology x size profile x coupling blocks (catalogue, filtered by    *)
(*    det(I - B) = +-1) x seed of the non-coupling blocks.                 *)
(*                                                                         *)
(* Two independent definitions of the total derivatives:                   *)
(*  (A) the CLOSED FORM  cf[o][x]: path sums  sum_k B^k A  when B is       *)
(*      nilpotent, (I-B)^-1 A with the exact integer inverse of Mat        *)
(*      otherwise (both when both apply: NeumannEqInverse), on the FULL    *)
(*      system; invariant IFT states that cf satisfies the implicit        *)
(*      function equations discipline by discipline - a complete           *)
(*      characterisation since I - B is invertible;                        *)
(*  (B) the ASSEMBLY as jacobian_assembly.py / mda_derivatives.py /        *)
(*      chain_rule.py structure it, action Request: minimal couplings by   *)
(*      the two-way traversal of the graph in which each strongly coupled  *)
(*      group is merged, differentiated inputs/outputs pushed on the       *)
(*      disciplines (cumulative), the cache keyed by the last request,     *)
(*      blocks laid out by sorted name and size, -I on the residual        *)
(*      diagonal, dF/dx - dF/dy (dR/dy)^-1 dR/dx (direct) or the           *)
(*      transposed solve per function row (adjoint), auto mode, split by   *)
(*      variable.                                                          *)
(* TLC checks (B) = (A) for every request subset, mode and request         *)
(* history, Direct = Adjoint, subset independence, structural zeros and    *)
(* shapes.                                                                 *)
(*                                                                         *)
(* inst.rules selects the selection rules of layer (B):                    *)
(*   "asread"   the code as read today, with the conditions under which it *)
(*              raises (err);                                              *)
(*   "r3"       as read, except that a merged node hides / a member adds   *)
(*              only the couplings of ITS OWN group (repair 3);            *)
(*   "repaired" r3 + no coupling needed => dF/dx (repair 2) + sizes from   *)
(*              the data, absent Jacobians are zero blocks (repair 1).     *)
(* The property clauses (invariants) are demanded of "repaired", which is  *)
(* the oracle of the replay; "asread"/"r3" PREDICT where the present code  *)
(* raises or returns a wrong block (configurations AsRead* are expected to *)
(* be refuted by TLC; the replay confirms each prediction on the real      *)
(* code and attributes it to a known finding).                             *)
(***************************************************************************)
EXTENDS Integers, Sequences, FiniteSets, TLC, Mat

CONSTANTS Topos,      \* topology names to enumerate
          Profiles,   \* size profiles (bit k of the profile: size of the k-th name is 2)
          Choices,    \* indices into the coupling-block catalogue
          Seeds,      \* seeds of the non-coupling blocks
          RuleSets,   \* subset of {"asread", "r3", "repaired"}: selection rules enumerated (inst.rules)
          PreSets,    \* subset of {"fresh", "newton", "newtonall"}: state of the disciplines before the first
                      \* request (inst.pre)
          MaxHist,    \* number of successive requests on the same assembly
          ReqMod, ReqRes,   \* explore request r of instance i iff (hash(i) + hash(r)) % ReqMod \in ReqRes
          AdjMod,     \* thinning of the second requests adjacent to the first one (see Next)
          Emit        \* print INST / CASE records

VARIABLES inst,   \* the system (constant along a behaviour)
          dio,    \* differentiated inputs/outputs accumulated on each discipline
          last,   \* JacobianAssembly.__last_diff_inouts
          mc,     \* JacobianAssembly.__minimal_couplings
          hist,   \* the requests made so far
          err,    \* the reasons why the code raises on the last request ({}: it does not)
          tot     \* result of the last request: [function -> [variable -> block]]
vars == <<inst, dio, last, mc, hist, err, tot>>

----------------------------------------------------------------------------
(* names; the code lays blocks out by sorted(name)                          *)
Names == <<"f0", "f1", "f2", "s", "t", "w", "x0", "x1", "y0", "y1", "y2">>
Idx(n) == CHOOSE k \in 1..Len(Names) : Names[k] = n
Sorted(S) == SelectSeq(Names, LAMBDA n : n \in S)
SeqSet(s) == {s[k] : k \in 1..Len(s)}

D(i, o) == [ins |-> i, outs |-> o]
Topo(t) ==
  CASE t = "pair"   -> << D({"x0","y1"}, {"y0","f0"}), D({"x0","x1","y0"}, {"y1","f1"}) >>
    [] t = "tail"   -> << D({"x0","y1"}, {"y0","f0"}), D({"x0","x1","y0"}, {"y1","f1"}),
                          D({"x1","y0","y1"}, {"f2","y2"}) >>                 \* weakly coupled tail
    [] t = "tailx"  -> << D({"x0","y1"}, {"y0","f0"}), D({"x0","y0"}, {"y1","f1"}),
                          D({"x1","y0","y1"}, {"f2"}) >>                      \* x1 enters the tail only
    [] t = "head"   -> << D({"x0"}, {"w"}), D({"w","y1"}, {"y0","f0"}),
                          D({"x1","y0"}, {"y1","f1"}) >>                      \* weakly coupled head
    [] t = "self"   -> << D({"x0","y0","y1"}, {"y0","f0"}), D({"x1","y0"}, {"y1","f1"}) >>
    [] t = "solo"   -> << D({"x0","s"}, {"s","f0"}), D({"s","x1"}, {"f1"}) >>  \* self-coupled alone
    [] t = "cycle3" -> << D({"x0","y2"}, {"y0","f0"}), D({"x1","y0"}, {"y1"}), D({"y1"}, {"y2","f2"}) >>
    [] t = "seq"    -> << D({"x0","y1"}, {"y0","f0"}), D({"y0"}, {"y1"}),
                          D({"x1","y0","s"}, {"s","f2"}) >>                   \* two groups in sequence
    [] t = "mid"    -> << D({"x0","s"}, {"s"}), D({"s"}, {"w","f1"}),
                          D({"w","x1","t"}, {"t","f2"}) >>                    \* group, weak, group

AllIns(S)  == UNION {S[d].ins  : d \in 1..Len(S)}
AllOuts(S) == UNION {S[d].outs : d \in 1..Len(S)}
Cpl(S) == AllIns(S) \cap AllOuts(S)          \* CouplingStructure.all_couplings
DIn(S) == AllIns(S) \ AllOuts(S)             \* inputs of the MDA that can be differentiated against
Prod(S, o) == CHOOSE d \in 1..Len(S) : o \in S[d].outs

----------------------------------------------------------------------------
(* discipline graph, strongly coupled groups                               *)
Edge(S, d, e) == d # e /\ S[d].outs \cap S[e].ins # {}
RECURSIVE ReachN(_, _, _, _)
ReachN(S, d, e, k) == d = e \/ (k > 0 /\ \E m \in 1..Len(S) : Edge(S, d, m) /\ ReachN(S, m, e, k - 1))
Reach(S, d, e) == ReachN(S, d, e, Len(S))
Group(S, d) == {e \in 1..Len(S) : Reach(S, d, e) /\ Reach(S, e, d)}
Nodes(S) == {Group(S, d) : d \in 1..Len(S)}
SelfC(S, d) == S[d].ins \cap S[d].outs # {}
Merged(S, g) == Cardinality(g) > 1 \/ \E d \in g : SelfC(S, d)
GIns(S, g)  == UNION {S[d].ins  : d \in g}
GOuts(S, g) == UNION {S[d].outs : d \in g}
GroupC(S, g) == GIns(S, g) \cap GOuts(S, g)
StrongC(S) == UNION {GroupC(S, g) : g \in {h \in Nodes(S) : Merged(S, h)}}   \* strong_couplings

----------------------------------------------------------------------------
(* instances                                                               *)
Bit(p, k) == (p \div (2 ^ (k - 1))) % 2
SizeOf(S, p) == LET ns == Sorted(AllIns(S) \cup AllOuts(S))
                IN  TLCEval([n \in SeqSet(ns) |-> 1 + Bit(p, CHOOSE k \in 1..Len(ns) : ns[k] = n)])

Cat11 == << <<<<0>>>>, <<<<1>>>>, <<<<-1>>>>, <<<<2>>>>, <<<<-2>>>>, <<<<1>>>> >>
Cat12 == << <<<<1,0>>>>, <<<<0,1>>>>, <<<<1,-1>>>>, <<<<0,2>>>>, <<<<-2,1>>>>, <<<<0,0>>>> >>
Cat21 == << <<<<1>>,<<0>>>>, <<<<0>>,<<1>>>>, <<<<1>>,<<-1>>>>, <<<<0>>,<<2>>>>, <<<<-1>>,<<2>>>>, <<<<0>>,<<0>>>> >>
Cat22 == << <<<<0,1>>,<<0,0>>>>, <<<<0,0>>,<<0,1>>>>, <<<<0,0>>,<<-1,0>>>>,
            <<<<1,1>>,<<-1,-1>>>>, <<<<0,2>>,<<0,0>>>>, <<<<0,-1>>,<<0,1>>>> >>
CatBlock(r, c, k) == IF r = 1 THEN (IF c = 1 THEN Cat11[k] ELSE Cat12[k])
                     ELSE (IF c = 1 THEN Cat21[k] ELSE Cat22[k])

Gen(o, i, sd, r, c) ==
  LET io == Idx(o)
      ii == Idx(i)
  IN  Mk(r, c, LAMBDA rr, cc :
        ((io * 7 + ii * 13 + rr * 5 + cc * 3 + sd * 11 + rr * cc * sd + io * ii * (sd + 1)) % 5) - 2)

CPairs(S) == {p \in Cpl(S) \X Cpl(S) : p[2] \in S[Prod(S, p[1])].ins}     \* blocks of B
AllPairs == [k \in 1..(Len(Names) * Len(Names)) |->
               <<Names[((k - 1) \div Len(Names)) + 1], Names[((k - 1) % Len(Names)) + 1]>>]
PairSeq(S) == SelectSeq(AllPairs, LAMBDA p : p \in CPairs(S))              \* in sorted order

Jac(S, sz, cb, sd) ==
  TLCEval([o \in AllOuts(S) |-> TLCEval([i \in S[Prod(S, o)].ins |->
      IF <<o, i>> \in CPairs(S) THEN CatBlock(sz[o], sz[i], cb[<<o, i>>])
      ELSE Gen(o, i, sd, sz[o], sz[i])])])

\* J[o][v], a zero block when v is not an input of the discipline producing o
JB(S, sz, J, o, v) == IF v \in S[Prod(S, o)].ins THEN J[o][v] ELSE Zero(sz[o], sz[v])
BlockOf(S, sz, J, rows, cols) ==
  BlockMat(TLCEval([r \in 1..Len(rows) |-> TLCEval([c \in 1..Len(cols) |-> JB(S, sz, J, rows[r], cols[c])])]))

RECURSIVE OffsetOf(_, _, _)
OffsetOf(sz, seq, n) == IF seq[1] = n THEN 0 ELSE sz[seq[1]] + OffsetOf(sz, Tail(seq), n)
Dim(sz, seq) == SumTo([k \in 1..Len(seq) |-> sz[seq[k]]], Len(seq))

(* (A) closed form on the full system  Y = A X + B Y                       *)
RECURSIVE Neumann(_, _, _)
Neumann(B, A, k) == IF k = 0 THEN A ELSE MAdd(A, MMul(B, Neumann(B, A, k - 1)))   \* sum_{j<=k} B^j A
Nilpotent(B) == IsZero(MPow(B, NRows(B)))

ClosedForm(S, sz, J) ==
  LET C == Sorted(Cpl(S))
      X == Sorted(DIn(S))
      B == BlockOf(S, sz, J, C, C)
      A == BlockOf(S, sz, J, C, X)
      n == NRows(B)
      dydx == IF Nilpotent(B) THEN Neumann(B, A, n - 1)
              ELSE MMul(InvUnimod(MSub(Ident(n), B)), A)
      T(o) == MAdd(BlockOf(S, sz, J, <<o>>, X), MMul(BlockOf(S, sz, J, <<o>>, C), dydx))
  IN  TLCEval([o \in AllOuts(S) |->
         LET To == T(o) IN TLCEval([x \in DIn(S) |-> SubMat(To, 0, sz[o], OffsetOf(sz, X, x), sz[x])])])

Build(t, p, cb, sd) ==
  LET S == Topo(t)
      sz == SizeOf(S, p)
      J == Jac(S, sz, cb, sd)
      C == Sorted(Cpl(S))
      B == BlockOf(S, sz, J, C, C)
  IN  [key |-> <<t, p, [k \in 1..Len(PairSeq(S)) |-> cb[PairSeq(S)[k]]], sd>>,
       topo |-> t, S |-> S, size |-> sz, J |-> J,
       nilp |-> Nilpotent(B),
       cf |-> ClosedForm(S, sz, J)]

Unimod(t, p, cb) ==
  LET S == Topo(t)
      sz == SizeOf(S, p)
      C == Sorted(Cpl(S))
      \* the seed does not enter the coupling blocks
      B == BlockMat(TLCEval([r \in 1..Len(C) |-> TLCEval([c \in 1..Len(C) |->
              IF <<C[r], C[c]>> \in CPairs(S) THEN CatBlock(sz[C[r]], sz[C[c]], cb[<<C[r], C[c]>>])
              ELSE Zero(sz[C[r]], sz[C[c]])])]))
  IN  IsUnimodular(MSub(Ident(NRows(B)), B))

----------------------------------------------------------------------------
(* (B) the code-shaped assembly                                            *)

\* mda_derivatives._replace_strongly_coupled: the graph in which a node stands for each strongly
\* coupled group; the inputs of such a node hide the strong couplings.  Computed once per instance.
Reduced(S, Rules) ==
  LET N == Nodes(S)
      sc == StrongC(S)
      mg == {g \in N : Merged(S, g)}
      hidden(g) == IF Rules = "asread" THEN sc ELSE GroupC(S, g)
      nin  == TLCEval([g \in N |-> IF g \in mg THEN GIns(S, g) \ hidden(g) ELSE GIns(S, g)])
      nout == TLCEval([g \in N |-> GOuts(S, g)])
      E == {e \in N \X N : e[1] # e[2] /\ nout[e[1]] \cap nin[e[2]] # {}}
      \* at most 3 nodes: paths of length <= 2
      reach == TLCEval([g \in N |-> {h \in N : \/ g = h
                                               \/ <<g, h>> \in E
                                               \/ \E m \in N : <<g, m>> \in E /\ <<m, h>> \in E}])
  IN  [N |-> N, mg |-> mg, nin |-> nin, nout |-> nout, E |-> E, reach |-> reach,
       \* the couplings added to the differentiated inputs/outputs of the members of a group
       added |-> TLCEval([g \in N |-> IF Rules = "asread" THEN sc ELSE GroupC(S, g)]),
       grp |-> TLCEval([d \in 1..Len(S) |-> Group(S, d)]),
       cpl |-> Cpl(S)]

\* chain_rule.traverse_add_diff_io on the reduced graph + the per-member step of
\* traverse_add_diff_io_mda; returns the differentiated inputs/outputs to ADD to each
\* discipline and the minimal couplings
Traverse(S, R, ri, ro) ==
  LET N == R.N
      IOe(e) == R.nout[e[1]] \cap R.nin[e[2]]                      \* the "io" attribute of an edge
      inSrc  == {g \in N : R.nin[g] \cap ri # {}}
      outSrc == {g \in N : R.nout[g] \cap ro # {}}
      Fw == {e \in R.E : \E s \in inSrc  : e[1] \in R.reach[s]}    \* edge_bfs from the input sources
      Bw == {e \in R.E : \E s \in outSrc : s \in R.reach[e[2]]}    \* edge_bfs on the reversed graph
      Touched(F) == {g \in N : \E e \in F : e[1] = g \/ e[2] = g}
      InsOf(F, g)  == UNION {IOe(e) : e \in {f \in F : f[2] = g}}
      OutsOf(F, g) == UNION {IOe(e) : e \in {f \in F : f[1] = g}}
      both == Touched(Fw) \cap Touched(Bw)
      di == TLCEval([g \in N |-> InsOf(Fw, g) \cap InsOf(Bw, g)])
      do == TLCEval([g \in N |-> OutsOf(Fw, g) \cap OutsOf(Bw, g)])
      initI(g) == R.nin[g] \cap ri
      initO(g) == R.nout[g] \cap ro
      special == inSrc \cap outSrc                                  \* _merge_diff_io_special
      nodes == both \cup special
      mi == TLCEval([g \in N |->
               (IF g \in both THEN di[g] \cup (IF do[g] # {} THEN initI(g) ELSE {}) ELSE {})
               \cup (IF g \in special THEN initI(g) ELSE {})])
      mo == TLCEval([g \in N |->
               (IF g \in both THEN do[g] \cup (IF di[g] # {} THEN initO(g) ELSE {}) ELSE {})
               \cup (IF g \in special THEN initO(g) ELSE {})])
      dI(d) == LET g == R.grp[d] IN
               IF g \notin nodes THEN {}
               ELSE IF g \in R.mg THEN (mi[g] \cup R.added[g]) \cap S[d].ins ELSE mi[g]
      dO(d) == LET g == R.grp[d] IN
               IF g \notin nodes THEN {}
               ELSE IF g \in R.mg THEN (mo[g] \cup R.added[g]) \cap S[d].outs ELSE mo[g]
      add == TLCEval([d \in 1..Len(S) |-> [i |-> dI(d), o |-> dO(d)]])
      names == UNION {mi[g] \cup mo[g] : g \in nodes} \cup UNION {add[d].i \cup add[d].o : d \in 1..Len(S)}
  IN  [add |-> add, mc |-> names \cap R.cpl]

Linearized(dd, d) == dd[d].i # {} /\ dd[d].o # {}
\* the block d o / d v is present in the Jacobian of the discipline producing o
HasJ(I, dd, o, v) == LET d == I.prod[o] IN Linearized(dd, d) /\ o \in dd[d].o /\ v \in dd[d].i
HasRow(I, dd, o)  == LET d == I.prod[o] IN Linearized(dd, d) /\ o \in dd[d].o

\* _get_jacobian_generator + _assemble_jacobian_as_matrix
Assemble(I, dd, rows, cols, residual) ==
  BlockMat(TLCEval([r \in 1..Len(rows) |-> TLCEval([c \in 1..Len(cols) |->
     LET o == rows[r]
         v == cols[c]
         z == Zero(I.size[o], I.size[v])
     IN  IF residual /\ o = v
         THEN (IF HasJ(I, dd, o, v) THEN MSub(I.J[o][v], Ident(I.size[o]))   \* self-coupled: J - I
               ELSE MNeg(Ident(I.size[o])))                                    \* -I on the residual diagonal
         ELSE (IF HasJ(I, dd, o, v) THEN I.J[o][v] ELSE z)])]))

\* CoupledSystem._direct_mode / _adjoint_mode, then split_jac
Total(I, dd, cpl, ri, ro, mode) ==
  LET xs == Sorted(ri)
      fs == Sorted(ro)
      ys == Sorted(cpl)
      m  == IF mode # "auto" THEN mode
            ELSE IF Dim(I.size, xs) <= Dim(I.size, fs) THEN "direct" ELSE "adjoint"
      dRdx == Assemble(I, dd, ys, xs, TRUE)
      dRdy == Assemble(I, dd, ys, ys, TRUE)
      \* direct: dy/dx = dRdy^-1 (-dRdx), one solve per column of dRdx, shared by all functions
      dydx == MMul(InvUnimod(dRdy), MNeg(dRdx))
      \* adjoint: the matrix handed to the solver is dRdy^T
      invT == InvUnimod(MT(dRdy))
      dRdxT == MT(dRdx)
      dFdx(f) == Assemble(I, dd, <<f>>, xs, FALSE)
      full(f) ==
        IF ys = <<>> THEN dFdx(f)                         \* no coupling involved (repaired rule)
        ELSE LET dFdy == Assemble(I, dd, <<f>>, ys, FALSE)
             IN  IF m = "direct"
                 THEN \* dF/dx + dF/dy dy/dx
                      MAdd(dFdx(f), MMul(dFdy, dydx))
                 ELSE \* adjoint_i = (dRdy^T)^-1 (-dFdy[i,:]^T);  row i = dFdx[i,:] + (dRdx^T adjoint_i)^T
                      MAdd(dFdx(f), MT(MMul(dRdxT, MMul(invT, MNeg(MT(dFdy))))))
  IN  TLCEval([f \in ro |->
         LET Tf == full(f) IN
         TLCEval([x \in ri |-> SubMat(Tf, 0, I.size[f], OffsetOf(I.size, xs, x), I.size[x])])])

\* the full request on a fresh assembly, in both modes (for SubsetIndependence)
WithAll(I0, rules, pre) ==
  LET I == [key |-> I0.key, topo |-> I0.topo, S |-> I0.S, size |-> I0.size, J |-> I0.J,
            nilp |-> I0.nilp, cf |-> I0.cf,
            R |-> Reduced(I0.S, rules), prod |-> TLCEval([o \in AllOuts(I0.S) |-> Prod(I0.S, o)])]
      tr == Traverse(I.S, I.R, DIn(I.S), AllOuts(I.S))
  IN  [key |-> I.key, rules |-> rules, pre |-> pre, topo |-> I.topo, S |-> I.S, R |-> I.R, prod |-> I.prod,
       size |-> I.size, J |-> I.J,
       nilp |-> I.nilp, cf |-> I.cf,
       allD |-> Total(I, tr.add, tr.mc, DIn(I.S), AllOuts(I.S), "direct"),
       allA |-> Total(I, tr.add, tr.mc, DIn(I.S), AllOuts(I.S), "adjoint")]

\* why the code as read raises: the set of reasons ({} = it does not).  The first one met in the
\* order of total_derivatives decides the exception (unknown_size: ValueError in compute_sizes;
\* empty_couplings: IndexError in _assemble_jacobian_as_matrix; not_linearized: KeyError/TypeError
\* in _get_jacobian_generator); all are reported so that a partial repair is still attributed.
Raises(I, dd, cpl, ri, ro) ==
  (IF \E v \in ri : ~ \E d \in 1..Len(I.S) : Linearized(dd, d) /\ v \in dd[d].i
   THEN {"unknown_size"} ELSE {})        \* "Failed to determine the size of input variable"
  \cup (IF cpl = {} THEN {"empty_couplings"} ELSE {})          \* function_sizes[0]
  \cup (IF \E o \in cpl \cup ro : ~HasRow(I, dd, o) THEN {"not_linearized"} ELSE {})   \* disciplines[f].jac[f]

----------------------------------------------------------------------------
InstHash(I) == I.key[2] * 7 + I.key[4] * 3 + Len(I.S)
SetHash(s) == SumTo([k \in 1..Len(Sorted(s)) |-> Idx(Sorted(s)[k]) * Idx(Sorted(s)[k])], Len(Sorted(s)))
ReqHash(ri, ro, m) == SetHash(ri) * 5 + SetHash(ro) * 3 + (IF m = "direct" THEN 0 ELSE IF m = "adjoint" THEN 1 ELSE 2)
Modes == {"direct", "adjoint", "auto"}

NoDio(S) == [d \in 1..Len(S) |-> [i |-> {}, o |-> {}]]
\* A Newton MDA (MDANewtonRaphson._set_differentiated_ios, also as inner MDA of an MDAChain or second
\* stage of MDAGSNewton) has already asked each discipline of a strongly coupled group for the
\* Jacobian of its output couplings with respect to its input couplings.
NewtonDio(S) ==
  [d \in 1..Len(S) |->
     LET g == Group(S, d)
         ci == S[d].ins \cap GroupC(S, g)
         co == S[d].outs \cap GroupC(S, g)
     IN  IF Merged(S, g) /\ ci # {} /\ co # {} THEN [i |-> ci, o |-> co] ELSE [i |-> {}, o |-> {}]]

\* A Newton MDA over the WHOLE structure (MDANewtonRaphson, MDAGSNewton; accepted only when every
\* discipline is strongly coupled) resolves all the strong couplings at once: a discipline is also
\* linearized with respect to the strong couplings it reads from ANOTHER group.  Differs from
\* NewtonDio only when there are several groups; enumerated only then (pre = "newtonall").
NewtonAllDio(S) ==
  [d \in 1..Len(S) |->
     LET ci == S[d].ins \cap StrongC(S)
         co == S[d].outs \cap StrongC(S)
     IN  IF ci # {} /\ co # {} THEN [i |-> ci, o |-> co] ELSE [i |-> {}, o |-> {}]]
WholeNewtonDiffers(S) ==
  /\ \A g \in Nodes(S) : Merged(S, g)
  /\ Cardinality(Nodes(S)) > 1

Init ==
  /\ \E t \in Topos :
     \E p \in {q % (2 ^ Cardinality(AllIns(Topo(t)) \cup AllOuts(Topo(t)))) : q \in Profiles} :
       /\ \E cb \in [CPairs(Topo(t)) -> Choices] :
            /\ Unimod(t, p, cb)
            /\ \E sd \in Seeds, rl \in RuleSets, pr \in PreSets :
                 /\ (pr = "newtonall" => WholeNewtonDiffers(Topo(t)))
                 /\ inst = WithAll(Build(t, p, cb, sd), rl, pr)
  /\ dio = IF inst.pre = "newton" THEN NewtonDio(inst.S)
           ELSE IF inst.pre = "newtonall" THEN NewtonAllDio(inst.S)
           ELSE NoDio(inst.S)
  /\ last = <<{}, {}>>
  /\ mc = {}
  /\ hist = <<>>
  /\ err = {}
  /\ tot = <<>>

Request(ri, ro, mode) ==
  LET S == inst.S
      fresh == last # <<ri, ro>>                       \* _compute_diff_ios_and_couplings
      tr == Traverse(S, inst.R, ri, ro)
      nd == IF fresh THEN TLCEval([d \in 1..Len(S) |-> [i |-> dio[d].i \cup tr.add[d].i,
                                                        o |-> dio[d].o \cup tr.add[d].o]])
            ELSE dio
      nm == IF fresh THEN tr.mc ELSE mc
      e  == IF inst.rules = "repaired" THEN {} ELSE Raises(inst, nd, nm, ri, ro)
  IN  /\ dio' = nd
      /\ last' = <<ri, ro>>
      /\ mc' = nm
      /\ hist' = Append(hist, <<ri, ro, mode>>)
      /\ err' = e
      /\ tot' = IF e = {} THEN Total(inst, nd, nm, ri, ro, mode) ELSE <<>>
      /\ UNCHANGED inst

\* Requests explored: those selected by the hash filter and, as SECOND request, also (one in
\* AdjMod of) those that share exactly one of the two sets (variables, functions) with the first
\* request - the histories on which a wrongly keyed cache of the minimal couplings would show.
Selected(ri, ro, m) == (InstHash(inst) + ReqHash(ri, ro, m)) % ReqMod \in ReqRes
Adjacent(ri, ro, m) ==
  /\ Len(hist) = 1
  /\ (ri = hist[1][1]) # (ro = hist[1][2])
  /\ m = hist[1][3]
  /\ (InstHash(inst) + ReqHash(ri, ro, m)) % AdjMod = 0
Next ==
  /\ Len(hist) < MaxHist
  /\ \E ri \in SUBSET DIn(inst.S) \ {{}}, ro \in SUBSET AllOuts(inst.S) \ {{}}, m \in Modes :
       /\ (Selected(ri, ro, m) \/ Adjacent(ri, ro, m))
       /\ Request(ri, ro, m)

Spec == Init /\ [][Next]_vars

----------------------------------------------------------------------------
(* the request the state answers                                            *)
Answered == Len(hist) > 0 /\ err = {} /\ inst.rules = "repaired"
RI == hist[Len(hist)][1]
RO == hist[Len(hist)][2]
RM == hist[Len(hist)][3]

\* (A) is sound: the closed form satisfies the implicit-function equations, discipline by
\* discipline:  d o/d x = J[o][x] + sum_{coupling c read by the discipline} J[o][c] . d c/d x
RECURSIVE SumBlocks(_, _, _)
SumBlocks(f, seq, z) == IF seq = <<>> THEN z ELSE MAdd(f[seq[1]], SumBlocks(f, Tail(seq), z))
IFT ==
  LET S == inst.S
      sz == inst.size
  IN  \A o \in AllOuts(S) : \A x \in DIn(S) :
        inst.cf[o][x] =
          MAdd(JB(S, sz, inst.J, o, x),
               SumBlocks([c \in Cpl(S) |-> MMul(JB(S, sz, inst.J, o, c), inst.cf[c][x])],
                         Sorted(Cpl(S)), Zero(sz[o], sz[x])))

\* path sums and the inverse agree where both apply
NeumannEqInverse ==
  inst.nilp =>
    LET S == inst.S
        C == Sorted(Cpl(S))
        X == Sorted(DIn(S))
        B == BlockOf(S, inst.size, inst.J, C, C)
        A == BlockOf(S, inst.size, inst.J, C, X)
    IN  Neumann(B, A, NRows(B) - 1) = MMul(InvUnimod(MSub(Ident(NRows(B)), B)), A)

\* (B) = (A) on the requested blocks, whatever the history: also request-subset independence
AssembledIsClosedForm ==
  Answered => \A f \in RO : \A x \in RI : tot[f][x] = inst.cf[f][x]

\* the residual sub-system selected by the minimal couplings is unimodular, and the integer matrix
\* used as its inverse is its inverse
SubsystemUnimodular ==
  (Answered /\ mc # {}) =>
     LET M == Assemble(inst, dio, Sorted(mc), Sorted(mc), TRUE)
     IN  IsUnimodular(M) /\ MMul(M, InvUnimod(M)) = Ident(NRows(M))

\* the Gauss-Jordan inverse agrees with determinant and adjugate by cofactors (definitions of Mat);
\* factorial cost: checked on the full residual matrix of the instances, in the initial states only
InverseSound ==
  Len(hist) = 0 =>
     LET S == inst.S
         C == Sorted(Cpl(S))
         B == BlockOf(S, inst.size, inst.J, C, C)
     IN  GJSound(MSub(Ident(NRows(B)), B))

\* the other mode gives the same blocks; "auto" is one of the two
DirectEqAdjoint ==
  Answered =>
    IF RM = "auto"
    THEN tot \in {Total(inst, dio, mc, RI, RO, "direct"), Total(inst, dio, mc, RI, RO, "adjoint")}
    ELSE tot = Total(inst, dio, mc, RI, RO, IF RM = "direct" THEN "adjoint" ELSE "direct")

\* Sub(Total(all)) = Total(sub): the full request on a fresh assembly (both modes), restricted
SubsetIndependence ==
  Answered => \A f \in RO : \A x \in RI : (tot[f][x] = inst.allD[f][x] /\ tot[f][x] = inst.allA[f][x])

\* a function that no path links to a variable has a zero block of the right shape
DReach(S, x, f) == \E d \in 1..Len(S) : x \in S[d].ins /\ Reach(S, d, Prod(S, f))
StructuralZeros ==
  Answered => \A f \in RO : \A x \in RI :
     (~DReach(inst.S, x, f)) => tot[f][x] = Zero(inst.size[f], inst.size[x])
Shapes ==
  Answered => \A f \in RO : \A x \in RI : IsMat(tot[f][x], inst.size[f], inst.size[x])

\* the code never raises on a request the property quantifies over: holds by construction of the
\* repaired rules, REFUTED for the rules as read (configurations with AsReadNoRaise, expected to fail)
NoRaise == inst.rules = "repaired" => err = {}
AsReadNoRaise == err = {}
\* the rules as read, when they do not raise, give the closed form: holds for the first request on
\* FRESH disciplines, REFUTED for a second request on the same assembly and for a first request when
\* a Newton MDA has prepared the disciplines (AsReadValues)
AsReadFreshIsRight ==
  (Len(hist) = 1 /\ err = {} /\ inst.pre = "fresh") => \A f \in RO : \A x \in RI : tot[f][x] = inst.cf[f][x]
AsReadValues ==
  (Len(hist) > 0 /\ err = {}) => \A f \in RO : \A x \in RI : tot[f][x] = inst.cf[f][x]

\* the minimal couplings are a cache of the traversal for the last request
CacheCoherent == Len(hist) > 0 => mc = Traverse(inst.S, inst.R, last[1], last[2]).mc

----------------------------------------------------------------------------
(* records for the replay on the real code                                 *)
\* the blocks of tot are those of the selected residual system: its matrix is unimodular (under the
\* rules as read the selection may be a system on which the integer inverse of Mat does not apply;
\* the prediction is then only "the code answers", not which blocks)
SolvedExactly ==
  (err = {} /\ mc # {}) => IsUnimodular(Assemble(inst, dio, Sorted(mc), Sorted(mc), TRUE))
EmitOK ==
  IF ~Emit THEN TRUE
  ELSE IF Len(hist) = 0
       THEN PrintT(<<"INST", inst.key, inst.rules, inst.pre, inst.S, inst.size, inst.J, inst.nilp, inst.R.N, inst.R.mg, inst.cf>>)
       ELSE PrintT(<<"CASE", inst.key, inst.rules, inst.pre, hist, err, mc, tot, SolvedExactly>>)
=============================================================================
