----------------------------- MODULE CoupledDeriv -----------------------------
(***************************************************************************)
(* C07 - coupled total derivatives of an MDA (exact-arithmetic slice).     *)
(*                                                                         *)
(* An INSTANCE is a coupled LINEAR system of 2-3 disciplines               *)
(*      out = sum_{in} J[out][in] . in                                     *)
(* with integer partial Jacobians (entries -2..2), variable sizes 1..2     *)
(* (non-square blocks), whose residual Jacobian I - B over all coupling    *)
(* variables has |determinant| in Dets (1: every total derivative is an    *)
(* integer matrix; 2, 4: the total derivatives are DYADIC rationals,      *)
(* carried exactly as integer numerators over a common denominator, so     *)
(* that a truncation or rounding anywhere in the solve path is visible).   *)
(* One discipline may be in RESIDUAL FORM (inst.res = {<<r, s>>}): it      *)
(* reads and returns a state variable s defined by its residual            *)
(*      r = sum_{in} J[r][in] . in = 0      (J[r][s] unimodular),          *)
(* its other outputs are given by their partial Jacobians AT FIXED STATE   *)
(* (s is one of their inputs) and J[s][.] is the Jacobian of the solved    *)
(* state, -J[r][s]^-1 J[r][.]  (J[s][s] = 0): the discipline solves its    *)
(* state equations.                                                        *)
(* Instances are enumerated as initial states:                             *)
(*    topology x size profile x coupling blocks (catalogue, filtered by    *)
(*    det(I - B)) x seed of the non-coupling blocks.                       *)
(*                                                                         *)
(* Two independent definitions of the total derivatives:                   *)
(*  (A) the CLOSED FORM  cf.b[o][x] / cf.d: path sums  sum_k B^k A  when B *)
(*      is nilpotent, (I-B)^-1 A with the exact inverse of Mat otherwise   *)
(*      (both when both apply: NeumannEqInverse), on the FULL system in    *)
(*      which the state is eliminated (s = J[s][.] . inputs); invariant    *)
(*      IFT states that cf satisfies the implicit function equations       *)
(*      discipline by discipline AND the state equation written with the   *)
(*      partial Jacobians of the residual - a complete characterisation    *)
(*      since I - B is invertible;                                         *)
(*  (B) the ASSEMBLY as jacobian_assembly.py / mda_derivatives.py /        *)
(*      chain_rule.py structure it, action Request: minimal couplings by   *)
(*      the two-way traversal of the graph in which each strongly coupled  *)
(*      group is merged, differentiated inputs/outputs pushed on the       *)
(*      disciplines (cumulative; states and residuals of the disciplines   *)
(*      involved), the cache keyed by the last request, blocks laid out by *)
(*      sorted name and size, residual rows / state columns after the      *)
(*      couplings, -I on the residual diagonal, dF/dx - dF/dy (dR/dy)^-1   *)
(*      dR/dx (direct) or the transposed solve per function row (adjoint), *)
(*      auto mode, split by variable.                                      *)
(* TLC checks (B) = (A) for every request subset, mode and request         *)
(* history, Direct = Adjoint, subset independence, structural zeros and    *)
(* shapes.                                                                 *)
(*                                                                         *)
(* The REPRESENTATION of the partial Jacobians returned by the disciplines *)
(* (Reps: float64 / int64 arrays, float64 / int64 CSR matrices, matrix-    *)
(* free operators, a different one per block) is a configuration dimension *)
(* chosen with the first request (variable rep).  No definition below      *)
(* reads rep: the value of a block is the same mathematical matrix         *)
(* whatever its representation, which is exactly what the property says.   *)
(*                                                                         *)
(* inst.rules selects the selection rules of layer (B):                    *)
(*   "asread"   the code as first read, with the conditions under which it *)
(*              raises (err);                                              *)
(*   "r3"       as read, except that a merged node hides / a member adds   *)
(*              only the couplings of ITS OWN group (repair 3);            *)
(*   "asis"     r3 + no coupling needed => dF/dx (repair 2) + sizes from   *)
(*              the data, absent Jacobians are zero blocks (repair 1):     *)
(*              the code as it is; differs from "repaired" only when a     *)
(*              discipline is in residual form: dF/dy is assembled against *)
(*              the RESIDUAL names (so dF/ds is lost) and the residual row *)
(*              of EVERY residual-form discipline is in the system, even   *)
(*              of one the request does not involve (a zero row when it    *)
(*              was never linearized: singular system);                    *)
(*   "repaired" asis + dF/dy against the STATE names (repair 4) + only the *)
(*              residuals of the disciplines linearized with respect to    *)
(*              their state, as those the request involves are (repair 5). *)
(* The property clauses (invariants) are demanded of "repaired", which is  *)
(* the oracle of the replay; the other rules PREDICT where the code        *)
(* raises or returns a wrong block (configurations AsRead*/AsIs* are       *)
(* expected to be refuted by TLC; the replay confirms each prediction on   *)
(* the real code and attributes it to a known finding).                    *)
(***************************************************************************)
EXTENDS Integers, Sequences, FiniteSets, TLC, Mat

CONSTANTS Topos,      \* topology names to enumerate
          Profiles,   \* size profiles (bit k of the profile: size of the k-th name is 2)
          Choices,    \* indices into the coupling-block catalogue (instances with det(I - B) = +-1)
          DyChoices,  \* indices allowed for the first two coupling blocks of the other instances
          Dets,       \* admissible values of |det(I - B)|
          Keep,       \* {}: every admissible instance; otherwise the instances to enumerate, a set of
                      \* KeyCode(topology, profile, coupling blocks) (a sample of a previous enumeration)
          Seeds,      \* seeds of the non-coupling blocks
          RuleSets,   \* subset of {"asread", "r3", "asis", "repaired"}: selection rules enumerated (inst.rules)
          PreSets,    \* subset of {"fresh", "newton", "newtonall"}: state of the disciplines before the first
                      \* request (inst.pre)
          MaxHist,    \* number of successive requests on the same assembly
          ReqMod, ReqRes,   \* explore request r of instance i iff (hash(i) + hash(r)) % ReqMod \in ReqRes
          AdjMod,     \* thinning of the second requests adjacent to the first one (see Next)
          Reps,       \* representations of the partial Jacobians (subset of RepSeq)
          RepMod,     \* representation p is explored with first request r iff (hash'(i, r) + idx(p)) % RepMod = 0
          SensMod,    \* > 0: one in SensMod of the first requests (of one function) on which a rounding to integers
                      \* in the solve path would be visible is explored as well, with every integer-typed
                      \* representation (0: no such selection)
          Emit        \* print INST / CASE records

VARIABLES inst,   \* the system (constant along a behaviour)
          dio,    \* differentiated inputs/outputs accumulated on each discipline
          last,   \* JacobianAssembly.__last_diff_inouts
          mc,     \* JacobianAssembly.__minimal_couplings
          mres,   \* the <<residual, state>> pairs in the linear system of the last request
          hist,   \* the requests made so far
          rep,    \* representation of the partial Jacobians the disciplines return
          err,    \* the reasons why the code raises on the last request ({}: it does not)
          tot     \* result of the last request: [d |-> denominator, b |-> [function -> [variable -> numerator block]]]
vars == <<inst, dio, last, mc, mres, hist, rep, err, tot>>

----------------------------------------------------------------------------
(* names; the code lays blocks out by sorted(name)                          *)
Names == <<"f0", "f1", "f2", "r", "s", "t", "w", "x0", "x1", "y0", "y1", "y2">>
Idx(n) == CHOOSE k \in 1..Len(Names) : Names[k] = n
Sorted(S) == SelectSeq(Names, LAMBDA n : n \in S)
SeqSet(s) == {s[k] : k \in 1..Len(s)}

D(i, o) == [ins |-> i, outs |-> o]
Topo(t) ==
  CASE t = "pair"   -> << D({"x0","y1"}, {"y0","f0"}), D({"x0","x1","y0"}, {"y1","f1"}) >>
    [] t = "tail"   -> << D({"x0","y1"}, {"y0","f0"}), D({"x0","x1","y0"}, {"y1","f1"}),
                          D({"x1","y0","y1"}, {"f2","y2"}) >>                 \* weakly coupled tail
    [] t = "tailx"  -> << D({"x0","y1"}, {"y0","f0"}), D({"x0","y0"}, {"y1","f1"}),
                          D({"x1","y0","y1"}, {"f2"}) >>                      \* x1 enters the tail only
    [] t = "head"   -> << D({"x0"}, {"w"}), D({"w","y1"}, {"y0","f0"}),
                          D({"x1","y0"}, {"y1","f1"}) >>                      \* weakly coupled head
    [] t = "self"   -> << D({"x0","y0","y1"}, {"y0","f0"}), D({"x1","y0"}, {"y1","f1"}) >>
    [] t = "solo"   -> << D({"x0","s"}, {"s","f0"}), D({"s","x1"}, {"f1"}) >>  \* self-coupled alone
    [] t = "cycle3" -> << D({"x0","y2"}, {"y0","f0"}), D({"x1","y0"}, {"y1"}), D({"y1"}, {"y2","f2"}) >>
    [] t = "seq"    -> << D({"x0","y1"}, {"y0","f0"}), D({"y0"}, {"y1"}),
                          D({"x1","y0","s"}, {"s","f2"}) >>                   \* two groups in sequence
    [] t = "mid"    -> << D({"x0","s"}, {"s"}), D({"s"}, {"w","f1"}),
                          D({"w","x1","t"}, {"t","f2"}) >>                    \* group, weak, group
    \* a discipline in residual form (state s, residual r) ...
    [] t = "rpair"  -> << D({"x0","y1","s"}, {"y0","f0","s","r"}),
                          D({"x0","x1","y0"}, {"y1","f1"}) >>                 \* ... in a group; f0 reads s
    [] t = "rtail"  -> << D({"x0","y1","s"}, {"y0","s","r"}), D({"x0","y0"}, {"y1","f1"}),
                          D({"x1","s","y0"}, {"f2"}) >>                       \* ... the weak tail reads s
    [] t = "rweak"  -> << D({"x0","s"}, {"s","r","w"}), D({"w","y1"}, {"y0","f0"}),
                          D({"x1","y0","s"}, {"y1","f1"}) >>                  \* ... weakly coupled head
\* io.residual_to_state_variable of the disciplines: pairs <<residual, state>>
Res(t) == IF t \in {"rpair", "rtail", "rweak"} THEN {<<"r", "s">>} ELSE {}
States(res) == {p[2] : p \in res}
Resids(res) == {p[1] : p \in res}
ResOf(res, s) == (CHOOSE p \in res : p[2] = s)[1]

AllIns(S)  == UNION {S[d].ins  : d \in 1..Len(S)}
AllOuts(S) == UNION {S[d].outs : d \in 1..Len(S)}
Cpl(S) == AllIns(S) \cap AllOuts(S)          \* CouplingStructure.all_couplings (the states are among them)
DIn(S) == AllIns(S) \ AllOuts(S)             \* inputs of the MDA that can be differentiated against
Prod(S, o) == CHOOSE d \in 1..Len(S) : o \in S[d].outs

----------------------------------------------------------------------------
(* discipline graph, strongly coupled groups                               *)
Edge(S, d, e) == d # e /\ S[d].outs \cap S[e].ins # {}
RECURSIVE ReachN(_, _, _, _)
ReachN(S, d, e, k) == d = e \/ (k > 0 /\ \E m \in 1..Len(S) : Edge(S, d, m) /\ ReachN(S, m, e, k - 1))
Reach(S, d, e) == ReachN(S, d, e, Len(S))
Group(S, d) == {e \in 1..Len(S) : Reach(S, d, e) /\ Reach(S, e, d)}
Nodes(S) == {Group(S, d) : d \in 1..Len(S)}
\* CouplingStructure.is_self_coupled: a state variable does not make its discipline self-coupled
SelfC(S, res, d) == (S[d].ins \cap S[d].outs) \ States(res) # {}
Merged(S, res, g) == Cardinality(g) > 1 \/ \E d \in g : SelfC(S, res, d)
GIns(S, g)  == UNION {S[d].ins  : d \in g}
GOuts(S, g) == UNION {S[d].outs : d \in g}
GroupC(S, g) == GIns(S, g) \cap GOuts(S, g)
StrongC(S, res) == UNION {GroupC(S, g) : g \in {h \in Nodes(S) : Merged(S, res, h)}}   \* strong_couplings

----------------------------------------------------------------------------
(* instances                                                               *)
Bit(p, k) == (p \div (2 ^ (k - 1))) % 2
\* a residual has the size of its state
SizeOf(S, res, p) ==
  LET ns == Sorted(AllIns(S) \cup AllOuts(S))
      s0 == TLCEval([n \in SeqSet(ns) |-> 1 + Bit(p, CHOOSE k \in 1..Len(ns) : ns[k] = n)])
  IN  TLCEval([n \in SeqSet(ns) |-> IF n \in Resids(res) THEN s0[(CHOOSE q \in res : q[1] = n)[2]] ELSE s0[n]])

Cat11 == << <<<<0>>>>, <<<<1>>>>, <<<<-1>>>>, <<<<2>>>>, <<<<-2>>>>, <<<<1>>>> >>
Cat12 == << <<<<1,0>>>>, <<<<0,1>>>>, <<<<1,-1>>>>, <<<<0,2>>>>, <<<<-2,1>>>>, <<<<0,0>>>> >>
Cat21 == << <<<<1>>,<<0>>>>, <<<<0>>,<<1>>>>, <<<<1>>,<<-1>>>>, <<<<0>>,<<2>>>>, <<<<-1>>,<<2>>>>, <<<<0>>,<<0>>>> >>
Cat22 == << <<<<0,1>>,<<0,0>>>>, <<<<0,0>>,<<0,1>>>>, <<<<0,0>>,<<-1,0>>>>,
            <<<<1,1>>,<<-1,-1>>>>, <<<<0,2>>,<<0,0>>>>, <<<<0,-1>>,<<0,1>>>> >>
\* d r / d s of a residual-form discipline (square, to be inverted by the discipline)
CatRS1 == << <<<<1>>>>, <<<<-1>>>>, <<<<1>>>>, <<<<-1>>>>, <<<<1>>>>, <<<<-1>>>> >>
CatRS2 == << <<<<1,0>>,<<0,1>>>>, <<<<0,1>>,<<1,0>>>>, <<<<1,1>>,<<0,1>>>>,
             <<<<-1,0>>,<<1,1>>>>, <<<<0,-1>>,<<1,0>>>>, <<<<1,-1>>,<<1,0>>>> >>
CatBlock(r, c, k) == IF r = 1 THEN (IF c = 1 THEN Cat11[k] ELSE Cat12[k])
                     ELSE (IF c = 1 THEN Cat21[k] ELSE Cat22[k])

Gen(o, i, sd, r, c) ==
  LET io == Idx(o)
      ii == Idx(i)
  IN  Mk(r, c, LAMBDA rr, cc :
        ((io * 7 + ii * 13 + rr * 5 + cc * 3 + sd * 11 + rr * cc * sd + io * ii * (sd + 1)) % 5) - 2)

\* the blocks taken from the catalogue: those of the coupled system (the rows of a state are the
\* partial Jacobians of its residual)
CRows(S, res) == (Cpl(S) \ States(res)) \cup Resids(res)
CPairs(S, res) == {p \in CRows(S, res) \X Cpl(S) : p[2] \in S[Prod(S, p[1])].ins}
AllPairs == [k \in 1..(Len(Names) * Len(Names)) |->
               <<Names[((k - 1) \div Len(Names)) + 1], Names[((k - 1) % Len(Names)) + 1]>>]
PairSeq(S, res) == SelectSeq(AllPairs, LAMBDA p : p \in CPairs(S, res))     \* in sorted order
CbSeq(S, res, cb) == [k \in 1..Len(PairSeq(S, res)) |-> cb[PairSeq(S, res)[k]]]
\* an instance (up to the seed) as one integer (a configuration file cannot hold tuples)
TopoSeq == <<"pair", "tail", "tailx", "head", "self", "solo", "cycle3", "seq", "mid", "rpair", "rtail", "rweak">>
KeyCode(t, p, cs) == ((CHOOSE k \in 1..Len(TopoSeq) : TopoSeq[k] = t) * 512 + p) * 117649
                     + SumTo([k \in 1..Len(cs) |-> cs[k] * 7 ^ (k - 1)], Len(cs))

Jac(S, res, sz, cb, sd) ==
  LET J0 == TLCEval([o \in AllOuts(S) \ States(res) |-> TLCEval([i \in S[Prod(S, o)].ins |->
               IF <<o, i>> \in res THEN (IF sz[o] = 1 THEN CatRS1[cb[<<o, i>>]] ELSE CatRS2[cb[<<o, i>>]])
               ELSE IF <<o, i>> \in CPairs(S, res) THEN CatBlock(sz[o], sz[i], cb[<<o, i>>])
               ELSE Gen(o, i, sd, sz[o], sz[i])])])
  IN  TLCEval([o \in AllOuts(S) |->
        IF o \in States(res)
        THEN \* the solved state: - (d r/d s)^-1 d r/d i, and no dependency on the incoming state
             LET r == ResOf(res, o)
                 inv == InvUnimod(J0[r][o])
             IN  TLCEval([i \in S[Prod(S, o)].ins |->
                    IF i = o THEN Zero(sz[o], sz[o]) ELSE MNeg(MMul(inv, J0[r][i]))])
        ELSE J0[o]])

\* J[o][v], a zero block when v is not an input of the discipline producing o
JB(S, sz, J, o, v) == IF v \in S[Prod(S, o)].ins THEN J[o][v] ELSE Zero(sz[o], sz[v])
BlockOf(S, sz, J, rows, cols) ==
  BlockMat(TLCEval([r \in 1..Len(rows) |-> TLCEval([c \in 1..Len(cols) |-> JB(S, sz, J, rows[r], cols[c])])]))

RECURSIVE OffsetOf(_, _, _)
OffsetOf(sz, seq, n) == IF seq[1] = n THEN 0 ELSE sz[seq[1]] + OffsetOf(sz, Tail(seq), n)
Dim(sz, seq) == SumTo([k \in 1..Len(seq) |-> sz[seq[k]]], Len(seq))

(* (A) closed form on the full system  Y = A X + B Y                       *)
RECURSIVE Neumann(_, _, _)
Neumann(B, A, k) == IF k = 0 THEN A ELSE MAdd(A, MMul(B, Neumann(B, A, k - 1)))   \* sum_{j<=k} B^j A
Nilpotent(B) == IsZero(MPow(B, NRows(B)))

\* numerators over the common denominator d = |det(I - B)|
ClosedForm(S, sz, J) ==
  LET C == Sorted(Cpl(S))
      X == Sorted(DIn(S))
      B == BlockOf(S, sz, J, C, C)
      A == BlockOf(S, sz, J, C, X)
      n == NRows(B)
      nil == Nilpotent(B)
      inv == QInv(MSub(Ident(n), B))
      d == IF nil THEN 1 ELSE inv.d
      dydx == IF nil THEN Neumann(B, A, n - 1) ELSE MMul(inv.n, A)
      T(o) == MAdd(MScale(d, BlockOf(S, sz, J, <<o>>, X)), MMul(BlockOf(S, sz, J, <<o>>, C), dydx))
  IN  [d |-> d,
       b |-> TLCEval([o \in AllOuts(S) |->
         LET To == T(o) IN TLCEval([x \in DIn(S) |-> SubMat(To, 0, sz[o], OffsetOf(sz, X, x), sz[x])])])]

\* The coupling operator of the EXECUTED disciplines (fixed-point MDAs iterate it): a residual-form
\* discipline computes its other outputs with the state it has just solved, not with the incoming one.
ExecB(S, res, sz, J) ==
  LET C == Sorted(Cpl(S))
      blk(o, i) ==
        LET d == Prod(S, o)
            st == S[d].outs \cap States(res)
        IN  IF st = {} THEN JB(S, sz, J, o, i)
            ELSE LET s == CHOOSE q \in st : TRUE
                 IN  IF i = s THEN Zero(sz[o], sz[i])
                     ELSE IF o = s THEN JB(S, sz, J, o, i)
                     ELSE MAdd(JB(S, sz, J, o, i), MMul(J[o][s], JB(S, sz, J, s, i)))
  IN  BlockMat(TLCEval([r \in 1..Len(C) |-> TLCEval([c \in 1..Len(C) |-> blk(C[r], C[c])])]))

Build(t, p, cb, sd) ==
  LET S == Topo(t)
      res == Res(t)
      sz == SizeOf(S, res, p)
      J == Jac(S, res, sz, cb, sd)
  IN  [key |-> <<t, p, CbSeq(S, res, cb), sd>>,
       topo |-> t, S |-> S, res |-> res, size |-> sz, J |-> J,
       nilp |-> Nilpotent(ExecB(S, res, sz, J)),
       cf |-> ClosedForm(S, sz, J)]

\* +-det(I - B) (0: singular); the seed does not enter the coupling blocks
DetOf(t, p, cb) ==
  LET S == Topo(t)
      sz == SizeOf(S, Res(t), p)
      C == Sorted(Cpl(S))
      B == BlockOf(S, sz, Jac(S, Res(t), sz, cb, 0), C, C)
  IN  GJInv(MSub(Ident(NRows(B)), B)).d

\* instances with a unimodular I - B: every block from Choices; the others: the first two blocks
\* (sorted order) from DyChoices, the following ones the smallest of Choices
MinChoice == CHOOSE c \in Choices : \A e \in Choices : c <= e
UniCb(S, res) == [CPairs(S, res) -> Choices]
DyCb(S, res) ==
  LET ps == PairSeq(S, res)
  IN  {[pr \in CPairs(S, res) |-> IF pr = ps[1] THEN a ELSE IF Len(ps) > 1 /\ pr = ps[2] THEN b ELSE MinChoice] :
         a \in DyChoices, b \in DyChoices}
Admissible(t, p, cb) ==
  LET S == Topo(t)
      res == Res(t)
      uni == cb \in UniCb(S, res)
      d == DetOf(t, p, cb)
  IN  /\ (Keep = {} \/ KeyCode(t, p, CbSeq(S, res, cb)) \in Keep)
      /\ \/ (uni /\ MatAbs(d) = 1)
         \/ (cb \in DyCb(S, res) /\ MatAbs(d) \in Dets \ {1})

----------------------------------------------------------------------------
(* (B) the code-shaped assembly                                            *)

\* mda_derivatives._replace_strongly_coupled: the graph in which a node stands for each strongly
\* coupled group; the inputs of such a node hide the strong couplings.  Computed once per instance.
Reduced(S, res, Rules) ==
  LET N == Nodes(S)
      sc == StrongC(S, res)
      mg == {g \in N : Merged(S, res, g)}
      hidden(g) == IF Rules = "asread" THEN sc ELSE GroupC(S, g)
      nin  == TLCEval([g \in N |-> IF g \in mg THEN GIns(S, g) \ hidden(g) ELSE GIns(S, g)])
      nout == TLCEval([g \in N |-> GOuts(S, g)])
      E == {e \in N \X N : e[1] # e[2] /\ nout[e[1]] \cap nin[e[2]] # {}}
      \* at most 3 nodes: paths of length <= 2
      reach == TLCEval([g \in N |-> {h \in N : \/ g = h
                                               \/ <<g, h>> \in E
                                               \/ \E m \in N : <<g, m>> \in E /\ <<m, h>> \in E}])
  IN  [N |-> N, mg |-> mg, nin |-> nin, nout |-> nout, E |-> E, reach |-> reach,
       \* the couplings added to the differentiated inputs/outputs of the members of a group
       added |-> TLCEval([g \in N |-> IF Rules = "asread" THEN sc ELSE GroupC(S, g)]),
       grp |-> TLCEval([d \in 1..Len(S) |-> Group(S, d)]),
       cpl |-> Cpl(S)]

\* chain_rule.traverse_add_diff_io on the reduced graph + the per-member step of
\* traverse_add_diff_io_mda (+ states and residuals of the disciplines involved); returns the
\* differentiated inputs/outputs to ADD to each discipline and the minimal couplings (the states are not
\* couplings)
Traverse(S, R, res, ri, ro) ==
  LET N == R.N
      IOe(e) == R.nout[e[1]] \cap R.nin[e[2]]                      \* the "io" attribute of an edge
      inSrc  == {g \in N : R.nin[g] \cap ri # {}}
      outSrc == {g \in N : R.nout[g] \cap ro # {}}
      Fw == {e \in R.E : \E s \in inSrc  : e[1] \in R.reach[s]}    \* edge_bfs from the input sources
      Bw == {e \in R.E : \E s \in outSrc : s \in R.reach[e[2]]}    \* edge_bfs on the reversed graph
      Touched(F) == {g \in N : \E e \in F : e[1] = g \/ e[2] = g}
      InsOf(F, g)  == UNION {IOe(e) : e \in {f \in F : f[2] = g}}
      OutsOf(F, g) == UNION {IOe(e) : e \in {f \in F : f[1] = g}}
      both == Touched(Fw) \cap Touched(Bw)
      di == TLCEval([g \in N |-> InsOf(Fw, g) \cap InsOf(Bw, g)])
      do == TLCEval([g \in N |-> OutsOf(Fw, g) \cap OutsOf(Bw, g)])
      initI(g) == R.nin[g] \cap ri
      initO(g) == R.nout[g] \cap ro
      special == inSrc \cap outSrc                                  \* _merge_diff_io_special
      nodes == both \cup special
      mi == TLCEval([g \in N |->
               (IF g \in both THEN di[g] \cup (IF do[g] # {} THEN initI(g) ELSE {}) ELSE {})
               \cup (IF g \in special THEN initI(g) ELSE {})])
      mo == TLCEval([g \in N |->
               (IF g \in both THEN do[g] \cup (IF di[g] # {} THEN initO(g) ELSE {}) ELSE {})
               \cup (IF g \in special THEN initO(g) ELSE {})])
      \* the residual pairs of discipline d
      rs(d) == {p \in res : p[1] \in S[d].outs}
      dI(d) == LET g == R.grp[d] IN
               IF g \notin nodes THEN {}
               ELSE (IF g \in R.mg THEN (mi[g] \cup R.added[g]) \cap S[d].ins ELSE mi[g]) \cup States(rs(d))
      dO(d) == LET g == R.grp[d] IN
               IF g \notin nodes THEN {}
               ELSE (IF g \in R.mg THEN (mo[g] \cup R.added[g]) \cap S[d].outs ELSE mo[g]) \cup Resids(rs(d))
      add == TLCEval([d \in 1..Len(S) |-> [i |-> dI(d), o |-> dO(d)]])
      names == UNION {mi[g] \cup mo[g] : g \in nodes} \cup UNION {add[d].i \cup add[d].o : d \in 1..Len(S)}
  IN  [add |-> add, mc |-> (names \cap R.cpl) \ States(res)]

Linearized(dd, d) == dd[d].i # {} /\ dd[d].o # {}
\* the block d o / d v is present in the Jacobian of the discipline producing o
HasJ(I, dd, o, v) == LET d == I.prod[o] IN Linearized(dd, d) /\ o \in dd[d].o /\ v \in dd[d].i
HasRow(I, dd, o)  == LET d == I.prod[o] IN Linearized(dd, d) /\ o \in dd[d].o

\* _get_jacobian_generator + _assemble_jacobian_as_matrix
Assemble(I, dd, rows, cols, residual) ==
  BlockMat(TLCEval([r \in 1..Len(rows) |-> TLCEval([c \in 1..Len(cols) |->
     LET o == rows[r]
         v == cols[c]
         z == Zero(I.size[o], I.size[v])
     IN  IF residual /\ o = v
         THEN (IF HasJ(I, dd, o, v) THEN MSub(I.J[o][v], Ident(I.size[o]))   \* self-coupled: J - I
               ELSE MNeg(Ident(I.size[o])))                                    \* -I on the residual diagonal
         ELSE (IF HasJ(I, dd, o, v) THEN I.J[o][v] ELSE z)])]))

\* the residual pairs of the linear system.  The code as it is: every residual of the MDA.  Repaired:
\* those whose discipline is linearized with respect to its state (a discipline that the request
\* involves always is; the row of another one would be null)
SysResRepaired(I, dd) == {p \in I.res : HasJ(I, dd, p[1], p[2])}
SysRes(I, dd) == IF I.rules # "repaired" THEN I.res ELSE SysResRepaired(I, dd)
\* rows / columns of the linear system: the minimal couplings, then the residuals / the states
SysRows(cpl, rs) == Sorted(cpl) \o Sorted(Resids(rs))
SysCols(cpl, rs) == Sorted(cpl) \o Sorted(States(rs))

\* CoupledSystem._direct_mode / _adjoint_mode, then split_jac; numerators over the denominator
\* d = |det dR/dy| (0: the system is singular, the blocks are then meaningless)
Total(I, dd, cpl, rs, ri, ro, mode) ==
  LET xs == Sorted(ri)
      fs == Sorted(ro)
      rows == SysRows(cpl, rs)
      cols == SysCols(cpl, rs)
      \* dF/dy: against the state names ("repaired"), against the residual names (the code as it is)
      fcols == IF I.rules = "repaired" THEN cols ELSE rows
      m  == IF mode # "auto" THEN mode
            ELSE IF Dim(I.size, xs) <= Dim(I.size, fs) THEN "direct" ELSE "adjoint"
      dRdx == Assemble(I, dd, rows, xs, TRUE)
      dRdy == Assemble(I, dd, rows, cols, TRUE)
      \* direct: dy/dx = dRdy^-1 (-dRdx), one solve per column of dRdx, shared by all functions
      gy == QInv(dRdy)
      dydx == MMul(gy.n, MNeg(dRdx))
      \* adjoint: the matrix handed to the solver is dRdy^T
      gt == QInv(MT(dRdy))
      dRdxT == MT(dRdx)
      den == IF rows = <<>> THEN 1 ELSE IF m = "direct" THEN gy.d ELSE gt.d
      dFdx(f) == Assemble(I, dd, <<f>>, xs, FALSE)
      full(f) ==
        IF rows = <<>> THEN dFdx(f)                       \* no coupling involved (repaired rule)
        ELSE LET dFdy == Assemble(I, dd, <<f>>, fcols, FALSE)
             IN  IF m = "direct"
                 THEN \* dF/dx + dF/dy dy/dx
                      MAdd(MScale(den, dFdx(f)), MMul(dFdy, dydx))
                 ELSE \* adjoint_i = (dRdy^T)^-1 (-dFdy[i,:]^T);  row i = dFdx[i,:] + (dRdx^T adjoint_i)^T
                      MAdd(MScale(den, dFdx(f)), MT(MMul(dRdxT, MMul(gt.n, MNeg(MT(dFdy))))))
  IN  [d |-> den,
       b |-> TLCEval([f \in ro |->
         LET Tf == full(f) IN
         TLCEval([x \in ri |-> SubMat(Tf, 0, I.size[f], OffsetOf(I.size, xs, x), I.size[x])])])]

\* equality of two results on the blocks (fs, xs), as rationals
SameBlocks(a, b, fs, xs) == \A f \in fs : \A x \in xs : QEq(a.b[f][x], a.d, b.b[f][x], b.d)

\* the full request on a fresh assembly, in both modes (for SubsetIndependence)
WithAll(I0, rules, pre) ==
  LET I == [key |-> I0.key, topo |-> I0.topo, S |-> I0.S, res |-> I0.res, size |-> I0.size, J |-> I0.J,
            nilp |-> I0.nilp, cf |-> I0.cf, rules |-> rules,
            R |-> Reduced(I0.S, I0.res, rules), prod |-> TLCEval([o \in AllOuts(I0.S) |-> Prod(I0.S, o)])]
      tr == Traverse(I.S, I.R, I.res, DIn(I.S), AllOuts(I.S))
      rs == SysRes(I, tr.add)
  IN  [key |-> I.key, rules |-> rules, pre |-> pre, topo |-> I.topo, S |-> I.S, res |-> I.res, R |-> I.R,
       prod |-> I.prod, size |-> I.size, J |-> I.J,
       nilp |-> I.nilp, cf |-> I.cf,
       allD |-> Total(I, tr.add, tr.mc, rs, DIn(I.S), AllOuts(I.S), "direct"),
       allA |-> Total(I, tr.add, tr.mc, rs, DIn(I.S), AllOuts(I.S), "adjoint")]

\* why the code as read raises: the set of reasons ({} = it does not).  The first one met in the
\* order of total_derivatives decides the exception (unknown_size: ValueError in compute_sizes;
\* empty_couplings: IndexError in _assemble_jacobian_as_matrix; not_linearized: KeyError/TypeError
\* in _get_jacobian_generator); all are reported so that a partial repair is still attributed.
Raises(I, dd, cpl, ri, ro) ==
  (IF \E v \in ri : ~ \E d \in 1..Len(I.S) : Linearized(dd, d) /\ v \in dd[d].i
   THEN {"unknown_size"} ELSE {})        \* "Failed to determine the size of input variable"
  \cup (IF cpl = {} THEN {"empty_couplings"} ELSE {})          \* function_sizes[0]
  \cup (IF \E o \in cpl \cup ro : ~HasRow(I, dd, o) THEN {"not_linearized"} ELSE {})   \* disciplines[f].jac[f]

----------------------------------------------------------------------------
\* (the coupling blocks enter the hash: the instances of a topology do not select the same requests)
InstHash(I) == I.key[2] * 7 + I.key[4] * 3 + Len(I.S)
               + SumTo([k \in 1..Len(I.key[3]) |-> (k * k + 1) * I.key[3][k]], Len(I.key[3]))
SetHash(s) == SumTo([k \in 1..Len(Sorted(s)) |-> Idx(Sorted(s)[k]) * Idx(Sorted(s)[k])], Len(Sorted(s)))
ReqHash(ri, ro, m) == SetHash(ri) * 5 + SetHash(ro) * 3 + (IF m = "direct" THEN 0 ELSE IF m = "adjoint" THEN 1 ELSE 2)
Modes == {"direct", "adjoint", "auto"}

\* representations of a partial Jacobian: NumPy array / SciPy CSR matrix of float64 or int64 entries,
\* matrix-free gemseo JacobianOperator; "mixed": block (o, i) in the representation MixedRep(o, i)
RepSeq == <<"dense_f64", "dense_i64", "sparse_f64", "sparse_i64", "operator", "mixed">>
RepIdx(p) == CHOOSE k \in 1..Len(RepSeq) : RepSeq[k] = p
MixedRep(o, i) == RepSeq[((Idx(o) * 3 + Idx(i)) % 5) + 1]
IntTyped(p) == p \in {"dense_i64", "sparse_i64"}

NoDio(S) == [d \in 1..Len(S) |-> [i |-> {}, o |-> {}]]
\* A Newton MDA (MDANewtonRaphson._set_differentiated_ios, also as inner MDA of an MDAChain or second
\* stage of MDAGSNewton) has already asked each discipline of a strongly coupled group for the
\* Jacobian of its output couplings (and of its residual, if its state is one of them) with respect to
\* its input couplings.
NewtonDio(S, res) ==
  [d \in 1..Len(S) |->
     LET g == Group(S, d)
         ci == S[d].ins \cap GroupC(S, g)
         co == S[d].outs \cap GroupC(S, g)
         cr == {p[1] : p \in {q \in res : q[2] \in co}}
     IN  IF Merged(S, res, g) /\ ci # {} /\ co # {} THEN [i |-> ci, o |-> co \cup cr] ELSE [i |-> {}, o |-> {}]]

\* A Newton MDA over the WHOLE structure (MDANewtonRaphson, MDAGSNewton; accepted only when every
\* discipline is strongly coupled) resolves all the strong couplings at once: a discipline is also
\* linearized with respect to the strong couplings it reads from ANOTHER group.  Differs from
\* NewtonDio only when there are several groups; enumerated only then (pre = "newtonall").
NewtonAllDio(S, res) ==
  [d \in 1..Len(S) |->
     LET ci == S[d].ins \cap StrongC(S, res)
         co == S[d].outs \cap StrongC(S, res)
     IN  IF ci # {} /\ co # {} THEN [i |-> ci, o |-> co] ELSE [i |-> {}, o |-> {}]]
WholeNewtonDiffers(S, res) ==
  /\ \A g \in Nodes(S) : Merged(S, res, g)
  /\ Cardinality(Nodes(S)) > 1

Init ==
  /\ \E t \in Topos :
     \E p \in {q % (2 ^ Cardinality(AllIns(Topo(t)) \cup AllOuts(Topo(t)))) : q \in Profiles} :
       /\ \E cb \in UniCb(Topo(t), Res(t)) \cup DyCb(Topo(t), Res(t)) :
            /\ Admissible(t, p, cb)
            /\ \E sd \in Seeds, rl \in RuleSets, pr \in PreSets :
                 /\ (pr = "newtonall" => WholeNewtonDiffers(Topo(t), Res(t)))
                 \* the rules as first read are those of a code that is no longer there: kept for the
                 \* systems on which they were read; "asis" differs from "repaired" on the others only
                 /\ (rl \in {"asread", "r3"} => Res(t) = {})
                 /\ (rl = "asis" => Res(t) # {})
                 /\ inst = WithAll(Build(t, p, cb, sd), rl, pr)
  /\ dio = IF inst.pre = "newton" THEN NewtonDio(inst.S, inst.res)
           ELSE IF inst.pre = "newtonall" THEN NewtonAllDio(inst.S, inst.res)
           ELSE NoDio(inst.S)
  /\ last = <<{}, {}>>
  /\ mc = {}
  /\ mres = {}
  /\ hist = <<>>
  /\ rep = "unset"
  /\ err = {}
  /\ tot = <<>>

Request(ri, ro, mode, rp) ==
  LET S == inst.S
      fresh == last # <<ri, ro>>                       \* _compute_diff_ios_and_couplings
      tr == Traverse(S, inst.R, inst.res, ri, ro)
      nd == IF fresh THEN TLCEval([d \in 1..Len(S) |-> [i |-> dio[d].i \cup tr.add[d].i,
                                                        o |-> dio[d].o \cup tr.add[d].o]])
            ELSE dio
      nm == IF fresh THEN tr.mc ELSE mc
      nr == SysRes(inst, nd)
      T  == Total(inst, nd, nm, nr, ri, ro, mode)
      e  == IF inst.rules \in {"repaired", "asis"} THEN (IF T.d = 0 THEN {"singular"} ELSE {})
            ELSE Raises(inst, nd, nm, ri, ro)
  IN  /\ dio' = nd
      /\ last' = <<ri, ro>>
      /\ mc' = nm
      /\ mres' = nr
      /\ hist' = Append(hist, <<ri, ro, mode>>)
      /\ rep' = rp
      /\ err' = e
      /\ tot' = IF e = {} THEN T ELSE <<>>
      /\ UNCHANGED inst

\* Requests explored: those selected by the hash filter and, as SECOND request, also (one in
\* AdjMod of) those that share exactly one of the two sets (variables, functions) with the first
\* request - the histories on which a wrongly keyed cache of the minimal couplings would show.
\* The representation of the Jacobians is chosen with the first request and kept.
Selected(ri, ro, m) == (InstHash(inst) + ReqHash(ri, ro, m)) % ReqMod \in ReqRes
Adjacent(ri, ro, m) ==
  /\ Len(hist) = 1
  /\ (ri = hist[1][1]) # (ro = hist[1][2])
  /\ m = hist[1][3]
  /\ (InstHash(inst) + ReqHash(ri, ro, m)) % AdjMod = 0
\* (another hash than the one of Selected, reduced modulo a prime: the two selections must not be
\* correlated, nor the representation with the mode)
RepHash(ri, ro, m) == ((InstHash(inst) * 17 + ReqHash(ri, ro, m) * 23 + SetHash(ro) * 7 + Cardinality(ro)) % 101)
                      + ((SetHash(ri) * 3 + SetHash(ro) + inst.key[4]) % 7)
RepSelected(ri, ro, m, rp) ==
  IF Len(hist) = 0
  THEN rp \in Reps /\ (RepHash(ri, ro, m) + RepIdx(rp)) % RepMod = 0
  ELSE rp = rep
\* candidates of the selection by sensitivity (see Next)
SensCandidate(ri, ro, m) ==
  /\ SensMod > 0 /\ Len(hist) = 0
  /\ inst.rules # "asread" /\ inst.cf.d > 1
  /\ Cardinality(ro) = 1
  /\ (InstHash(inst) + ReqHash(ri, ro, m)) % SensMod = 0

(* the request the state answers                                            *)
Answered == Len(hist) > 0 /\ err = {} /\ inst.rules = "repaired"
RI == hist[Len(hist)][1]
RO == hist[Len(hist)][2]
RM == hist[Len(hist)][3]


\* Where a rounding to integers somewhere in the solve path would show.  The partial Jacobians may be
\* integer-typed arrays; the assembly completes the first block row and the first block column of a
\* matrix with (float) empty blocks, so an assembled matrix is integer-typed only if the disciplines
\* return every block of both.  Under the repaired rules (IR), whatever the rules of the instance:
\*   "dydx"    direct mode: the solutions dy/dx are not integers, every block of the first block row
\*             and column of dR/dx is returned by a discipline;
\*   "adjoint" adjoint mode: an adjoint vector of a function is not an integer vector, every block of
\*             dF/dy of that function is returned;
\*   "result"  a total derivative is not an integer matrix, every block of dF/dx of that function is
\*             returned
NoSens == [dydx |-> FALSE, adjoint |-> FALSE, result |-> FALSE]
SensOf(dd, cpl, rs, ri, ro, m) ==
  LET IR == [inst EXCEPT !.rules = "repaired"]
      rows == SysRows(cpl, rs)
      cols == SysCols(cpl, rs)
      xs == Sorted(ri)
      mm == IF m # "auto" THEN m
            ELSE IF Dim(inst.size, xs) <= Dim(inst.size, Sorted(ro)) THEN "direct" ELSE "adjoint"
      dRdx == Assemble(IR, dd, rows, xs, TRUE)
      dRdy == Assemble(IR, dd, rows, cols, TRUE)
      gy == QInv(dRdy)
      gt == QInv(MT(dRdy))
      whole(f, vs) == \A k \in 1..Len(vs) : HasJ(IR, dd, f, vs[k])
      T == Total(IR, dd, cpl, rs, ri, ro, m)
  IN  [dydx |-> /\ rows # <<>> /\ mm = "direct"
                /\ \A k \in 1..Len(rows) : HasJ(IR, dd, rows[k], xs[1])
                /\ \A k \in 1..Len(xs) : HasJ(IR, dd, rows[1], xs[k])
                /\ gy.d > 1 /\ NonInteger(MMul(gy.n, MNeg(dRdx)), gy.d),
       adjoint |-> /\ rows # <<>> /\ mm = "adjoint"
                   /\ \E f \in ro : /\ whole(f, cols)
                                    /\ gt.d > 1
                                    /\ NonInteger(MMul(gt.n, MNeg(MT(Assemble(IR, dd, <<f>>, cols, FALSE)))), gt.d),
       result |-> \E f \in ro : /\ whole(f, xs)
                                /\ T.d > 1
                                /\ \E x \in ri : NonInteger(T.b[f][x], T.d)]
Sensitive ==   \* of the state reached by the last request
  IF err # {} THEN NoSens ELSE SensOf(dio, mc, mres, RI, RO, RM)
\* of a first request, before it is made (the rules other than "asread" select the same couplings: the
\* same requests are explored under each of them)
SensitiveRequest(ri, ro, m) ==
  LET tr == Traverse(inst.S, inst.R, inst.res, ri, ro)
      nd == TLCEval([d \in 1..Len(inst.S) |-> [i |-> dio[d].i \cup tr.add[d].i, o |-> dio[d].o \cup tr.add[d].o]])
      sn == SensOf(nd, tr.mc, SysResRepaired(inst, nd), ri, ro, m)
  IN  sn.dydx \/ sn.adjoint \/ sn.result

Next ==
  /\ Len(hist) < MaxHist
  /\ \E ri \in SUBSET DIn(inst.S) \ {{}}, ro \in SUBSET AllOuts(inst.S) \ {{}}, m \in Modes :
       \/ /\ (Selected(ri, ro, m) \/ Adjacent(ri, ro, m))
          /\ \E rp \in Reps : RepSelected(ri, ro, m, rp) /\ Request(ri, ro, m, rp)
       \/ /\ SensCandidate(ri, ro, m)
          /\ SensitiveRequest(ri, ro, m)
          /\ \E rp \in Reps : (RepSelected(ri, ro, m, rp) \/ IntTyped(rp)) /\ Request(ri, ro, m, rp)

Spec == Init /\ [][Next]_vars

----------------------------------------------------------------------------
\* (A) is sound: the closed form satisfies the implicit-function equations, discipline by
\* discipline:  d o/d x = J[o][x] + sum_{coupling c read by the discipline} J[o][c] . d c/d x
\* and the state equation: the total derivative of a residual is zero.
RECURSIVE SumBlocks(_, _, _)
SumBlocks(f, seq, z) == IF seq = <<>> THEN z ELSE MAdd(f[seq[1]], SumBlocks(f, Tail(seq), z))
IFT ==
  LET S == inst.S
      sz == inst.size
      cf == inst.cf
  IN  /\ cf.d > 0
      /\ \A o \in AllOuts(S) : \A x \in DIn(S) :
           cf.b[o][x] =
             MAdd(MScale(cf.d, JB(S, sz, inst.J, o, x)),
                  SumBlocks([c \in Cpl(S) |-> MMul(JB(S, sz, inst.J, o, c), cf.b[c][x])],
                            Sorted(Cpl(S)), Zero(sz[o], sz[x])))
      /\ \A r \in Resids(inst.res) : \A x \in DIn(S) : IsZero(cf.b[r][x])

\* path sums and the inverse agree where both apply
NeumannEqInverse ==
  LET S == inst.S
      C == Sorted(Cpl(S))
      X == Sorted(DIn(S))
      B == BlockOf(S, inst.size, inst.J, C, C)
      A == BlockOf(S, inst.size, inst.J, C, X)
      inv == QInv(MSub(Ident(NRows(B)), B))
  IN  Nilpotent(B) => (inv.d = 1 /\ Neumann(B, A, NRows(B) - 1) = MMul(inv.n, A))

\* (B) = (A) on the requested blocks, whatever the history: also request-subset independence
AssembledIsClosedForm ==
  Answered => SameBlocks(tot, inst.cf, RO, RI)

\* the residual sub-system selected by the minimal couplings (and the residuals) is regular, its
\* determinant is one of those admitted, and the matrix used as its inverse is its inverse
SubsystemRegular ==
  (Answered /\ SysRows(mc, mres) # <<>>) =>
     LET M == Assemble(inst, dio, SysRows(mc, mres), SysCols(mc, mres), TRUE)
         g == QInv(M)
     IN  g.d \in Dets /\ MMul(M, g.n) = MScale(g.d, Ident(NRows(M)))

\* the Gauss-Jordan inverse agrees with determinant and adjugate by cofactors (definitions of Mat);
\* factorial cost: checked on the full residual matrix of the instances, in the initial states only
InverseSound ==
  Len(hist) = 0 =>
     LET S == inst.S
         C == Sorted(Cpl(S))
         B == BlockOf(S, inst.size, inst.J, C, C)
     IN  GJSound(MSub(Ident(NRows(B)), B))

\* the other mode gives the same blocks; "auto" is one of the two
DirectEqAdjoint ==
  Answered =>
    LET TD == Total(inst, dio, mc, mres, RI, RO, "direct")
        TA == Total(inst, dio, mc, mres, RI, RO, "adjoint")
    IN  IF RM = "auto" THEN tot \in {TD, TA} /\ SameBlocks(TD, TA, RO, RI)
        ELSE SameBlocks(tot, IF RM = "direct" THEN TA ELSE TD, RO, RI)

\* Sub(Total(all)) = Total(sub): the full request on a fresh assembly (both modes), restricted
SubsetIndependence ==
  Answered => (SameBlocks(tot, inst.allD, RO, RI) /\ SameBlocks(tot, inst.allA, RO, RI))

\* a function that no path links to a variable has a zero block of the right shape
DReach(S, x, f) == \E d \in 1..Len(S) : x \in S[d].ins /\ Reach(S, d, Prod(S, f))
StructuralZeros ==
  Answered => \A f \in RO : \A x \in RI :
     (~DReach(inst.S, x, f)) => tot.b[f][x] = Zero(inst.size[f], inst.size[x])
Shapes ==
  Answered => \A f \in RO : \A x \in RI : IsMat(tot.b[f][x], inst.size[f], inst.size[x])

\* the code never raises on a request the property quantifies over: holds by construction of the
\* repaired rules, REFUTED for the rules as read (configurations with AsReadNoRaise, expected to fail)
\* and for the code as it is on residual-form disciplines (AsIsNoRaise)
NoRaise == inst.rules = "repaired" => err = {}
AsReadNoRaise == err = {}
AsIsNoRaise == err = {}
\* the rules as read, when they do not raise, give the closed form: holds for the first request on
\* FRESH disciplines, REFUTED for a second request on the same assembly and for a first request when
\* a Newton MDA has prepared the disciplines (AsReadValues)
AsReadFreshIsRight ==
  (Len(hist) = 1 /\ err = {} /\ inst.pre = "fresh" /\ inst.rules # "asis") => SameBlocks(tot, inst.cf, RO, RI)
AsReadValues ==
  (Len(hist) > 0 /\ err = {}) => SameBlocks(tot, inst.cf, RO, RI)
\* the code as it is gives the closed form when it answers: REFUTED (a function that reads a state)
AsIsValues ==
  (Len(hist) > 0 /\ err = {}) => SameBlocks(tot, inst.cf, RO, RI)

\* the minimal couplings are a cache of the traversal for the last request
CacheCoherent ==
  Len(hist) > 0 =>
     mc = Traverse(inst.S, inst.R, inst.res, last[1], last[2]).mc

\* the representation is a configuration: one of Reps from the first request on
RepChosen == (Len(hist) = 0 /\ rep = "unset") \/ (Len(hist) > 0 /\ rep \in Reps)

----------------------------------------------------------------------------
(* records for the replay on the real code                                 *)
\* the blocks of tot are those of the selected residual system: its matrix is regular (under the
\* rules as read the selection may be a singular system; the prediction is then only "the code
\* answers", not which blocks)
SolvedExactly ==
  (err = {} /\ SysRows(mc, mres) # <<>>) =>
     QInv(Assemble(inst, dio, SysRows(mc, mres), SysCols(mc, mres), TRUE)).d # 0
MixedMap == [o \in AllOuts(inst.S) |-> [i \in inst.S[inst.prod[o]].ins |-> MixedRep(o, i)]]
EmitOK ==
  IF ~Emit THEN TRUE
  ELSE IF Len(hist) = 0
       THEN PrintT(<<"INST", inst.key, inst.rules, inst.pre, inst.S, inst.size, inst.J, inst.nilp, inst.R.N, inst.R.mg,
                     inst.cf, inst.res, MixedMap, KeyCode(inst.key[1], inst.key[2], inst.key[3])>>)
       ELSE PrintT(<<"CASE", inst.key, inst.rules, inst.pre, hist, err, mc, tot, SolvedExactly, rep,
                     IF inst.rules = "repaired" THEN Sensitive ELSE NoSens>>)
=============================================================================
