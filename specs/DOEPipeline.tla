------------------------------ MODULE DOEPipeline ------------------------------
(***************************************************************************)
(* C14 - the DOE pipeline of gemseo AROUND the opaque samplers             *)
(* (algos/doe/base_doe_library.py, utils/seeder.py, the wrappers under     *)
(* algos/doe/{scipy,openturns,pydoe,diagonal_doe,morris_doe,custom_doe}).  *)
(*                                                                         *)
(* A call compute_doe(space, ...) / execute(problem, ...) of a library     *)
(* instance is, as in the code, a sequence of observable steps:            *)
(*   Begin      remember the design space's integer-normalisation flag,    *)
(*              switch it on (integer variables are then scaled like the   *)
(*              others by untransform_vect)                                *)
(*   Refuse     execute() validates the settings and the algorithm's       *)
(*              minimum dimension BEFORE anything else                     *)
(*   EarlyReject compute_doe() validates the settings after Begin          *)
(*   Sample     Seeder.get_seed (default seed += 1 on EVERY consultation;  *)
(*              a given seed wins) then the OPAQUE sampler: any matrix of  *)
(*              cnt x d points of the unit cube on the grid j/G, where cnt *)
(*              obeys the COUNT RULE of the algorithm family; the sampler  *)
(*              is a function of (family, n, settings p, seed used)        *)
(*              -- variable memo, filled lazily: TLC thereby quantifies    *)
(*              over every sampler that satisfies assumption UnitCube      *)
(*   SampleFail the family rejects (n, d) (level rule L < 1, ...) or the   *)
(*              sampler raises                                             *)
(*   Finish     samples = round(untransform(unit samples)), flag restored  *)
(*   Raise      the exception leaves the call: flag restored as well       *)
(*                                                                         *)
(* Numbers: bounds are multiples of 1/S (scaled integers lb, ub), unit     *)
(* values are j/G (integer j), sample values are integers in units 1/(S*G):*)
(* on this dyadic slice the IEEE arithmetic of untransform_vect is exact.  *)
(*                                                                         *)
(* For the designs that gemseo's own wrapper code builds or rescales       *)
(* (diagonal, full factorial, axial/factorial/composite, 2- and 3-level    *)
(* pyDOE designs) the unit samples are not opaque: StructureOK.            *)
(*                                                                         *)
(* The actions carry their nondeterministic choices as parameters so that  *)
(* DOETrace.tla re-uses them with the values logged from real runs.        *)
(***************************************************************************)
EXTENDS Integers, Sequences, FiniteSets, TLC

CONSTANTS G,          \* unit grid denominator
          S,          \* bound scale denominator
          SpaceIds,   \* indices in Catalogue of the design spaces of this run (one per behaviour)
          Insts,      \* library instances (one Seeder each)
          Apis,       \* subset of {"compute", "execute"}
          Fams,       \* algorithm families explored
          Ns,         \* requested numbers of samples explored
          Ps,         \* values of the extra integer setting explored
          Seeds,      \* explicit seeds explored
          GridVals,   \* unit grid indices the opaque sampler may return
          Injects,    \* subset of BOOLEAN: may the sampler raise by itself
          UnitMode,   \* "all": every matrix over GridVals; "const": all cells equal (large counts)
          MaxCalls    \* length of the call histories

VARIABLES dflt,   \* dflt[i]: Seeder.default_seed of library instance i
          flag,   \* design_space.enable_integer_variables_normalization
          sp,     \* the design space: sequence of [lb, ub, int]  (constant in a behaviour)
          pc,     \* "idle" | "begun" | "sampled" | "failed" | "done"
          cur,    \* the call in progress / the last call with its results
          memo,   \* the opaque sampler, as far as it has been consulted
          ncalls
vars == <<dflt, flag, sp, pc, cur, memo, ncalls>>

U == S * G      \* sample values are integers in units 1/U
Abs(a) == IF a < 0 THEN -a ELSE a
RECURSIVE Pow(_, _)
Pow(b, e) == IF e = 0 THEN 1 ELSE b * Pow(b, e - 1)
\* integer d-th root by search in exact integer arithmetic: the largest L with L^d <= n.
\* Doubling finds hi with hi^d > n, then bisection keeps lo^d <= n < hi^d
\* (hi^d <= 2^d * n stays below 2^31 for the n and d explored).
RECURSIVE Above(_, _, _), Bisect(_, _, _, _)
Above(n, d, h) == IF Pow(h, d) > n THEN h ELSE Above(n, d, 2 * h)
Bisect(n, d, lo, hi) == IF hi - lo <= 1 THEN lo
                        ELSE LET mid == (lo + hi) \div 2
                             IN  IF Pow(mid, d) <= n THEN Bisect(n, d, mid, hi) ELSE Bisect(n, d, lo, mid)
IRoot(n, d) == IF n < 1 THEN 0 ELSE IF d = 1 THEN n ELSE Bisect(n, d, 1, Above(n, d, 2))

----------------------------------------------------------------------------
(* Design spaces (S = 8): asymmetric dyadic bounds, mixed float / integer.  *)
F(l, u) == [lb |-> l, ub |-> u, int |-> FALSE]
I(l, u) == [lb |-> l, ub |-> u, int |-> TRUE]
Catalogue == <<
  << F(-24, -8) >>,                                   \* 1: x in [-3, -1]
  << I(16, 56) >>,                                    \* 2: k in {2..7}
  << F(4, 6), I(16, 56) >>,                           \* 3: [0.5, 0.75] x {2..7}
  << I(-8, 16), F(-24, -8) >>,                        \* 4: {-1..2} x [-3, -1]
  << F(-24, -8), F(8, 72), I(16, 56) >>,              \* 5: d = 3
  << F(-24, -8), I(-8, 16), F(4, 6), F(8, 72) >>      \* 6: d = 4
>>
\* SpaceIds above 100: the unit space [0,1]^d with d = id - 100 (large dimensions, count rules)
UnitSpace(d) == [k \in 1..d |-> F(0, S)]
SpaceOf(i) == IF i > 100 THEN UnitSpace(i - 100) ELSE Catalogue[i]
Dim == Len(sp)

----------------------------------------------------------------------------
(* The COUNT RULE per algorithm family, from the wrappers' code and docs.   *)
(*  n : n_samples (0 for the families that take none)                       *)
(*  p : the one extra integer setting that matters for the size             *)
(*      (bb: centre points, cc: sum of the two centre counts,               *)
(*       sobolidx: 1 iff eval_second_order, custom: number of rows given,   *)
(*       morris / oat: 1 iff the relative step exceeds 1/2)                 *)
NFams == {"exact", "exact2", "atmost", "diag", "fullfact", "axial", "factorial",
          "composite", "morris", "sobolidx"}
ZFams == {"bb", "cc", "ff2n", "pb", "custom", "oat"}
AllFams == NFams \cup ZFams
PFams == {"bb", "cc", "sobolidx", "custom", "morris", "oat"}     \* families with an extra setting p
\* families named by the quantifier of C14 ("designed to fill the domain")
QFams == {"exact", "exact2", "diag", "fullfact", "axial", "factorial", "composite",
          "morris", "custom"}

MinN(f) == IF f \in {"diag", "exact2"} THEN 2 ELSE 1     \* pydantic: ge=2
\* custom: CustomDOE_Settings refuses an empty `samples`
SettingsValid(f, n, p) == IF f \in NFams THEN n >= MinN(f) ELSE (n = 0 /\ (f = "custom" => p >= 1))

Levels(f, n, d, p) ==
  CASE f = "fullfact"  -> IRoot(n, d)                                \* base_full_factorial_doe.py
    [] f = "axial"     -> (n - 1) \div (2 * d)                       \* ot_axial_doe.py
    [] f = "factorial" -> (n - 1) \div Pow(2, d)                     \* ot_factorial_doe.py
    [] f = "composite" -> (n - 1) \div (2 * d + Pow(2, d))           \* ot_composite_doe.py
    [] f = "morris"    -> n \div (d + 1)                             \* morris_doe.py
    [] f = "sobolidx"  -> n \div (IF p = 1 /\ d > 2 THEN 2 * d + 2 ELSE d + 2)  \* ot_sobol_doe.py
    [] OTHER           -> 1

\* does the sampler accept (n, d)?  (otherwise it raises: SampleFail)
Accepts(f, n, d, p) ==
  CASE f \in {"axial", "factorial", "composite", "morris", "sobolidx"} -> Levels(f, n, d, p) >= 1
    [] f = "bb" -> d >= 3          \* pyDOE3: "Number of variables must be at least 3"
    [] f = "cc" -> d >= 2
    [] OTHER    -> TRUE

\* A one-at-a-time step larger than half the range cannot be honoured inside the bounds (from x in
\* ]1-step, step[ both x+step and x-step leave the cube): such a setting MAY be rejected; if it is
\* accepted the samples must still be in the cube.
MayReject(f, p) == f \in {"morris", "oat"} /\ p = 1

\* execute() refuses before touching the design space: invalid settings (pydantic), or a design space
\* smaller than the algorithm's documented minimum_dimension (PYDOE_BBDESIGN 3, PYDOE_CCDESIGN 2)
ExecRefuses(f, n, d, p) == ~SettingsValid(f, n, p) \/ (f \in {"bb", "cc"} /\ ~Accepts(f, n, d, p))

CountOf(f, n, d, p) ==
  LET L == Levels(f, n, d, p) IN
  CASE f \in {"exact", "exact2", "diag"} -> n
    [] f = "fullfact"  -> Pow(L, d)
    [] f = "axial"     -> 1 + 2 * d * L
    [] f = "factorial" -> 1 + Pow(2, d) * L
    [] f = "composite" -> 1 + L * (2 * d + Pow(2, d))
    [] f = "morris"    -> L * (d + 1)
    [] f = "sobolidx"  -> L * (IF p = 1 /\ d # 2 THEN 2 * d + 2 ELSE d + 2)  \* size documented by OpenTURNS
    [] f = "bb"        -> 2 * d * (d - 1) + p        \* d in 3..5
    [] f = "cc"        -> Pow(2, d) + 2 * d + p
    [] f = "ff2n"      -> Pow(2, d)
    [] f = "pb"        -> 4 * ((d \div 4) + 1)       \* smallest multiple of 4 > d
    [] f = "custom"    -> p
    [] f = "oat"       -> d + 1
    [] OTHER           -> 0

\* "atmost": Poisson disk sampling stops when the disk packing is saturated
CountOK(f, n, d, p, cnt) == IF f = "atmost" THEN (1 <= cnt /\ cnt <= n) ELSE cnt = CountOf(f, n, d, p)

----------------------------------------------------------------------------
(* untransform_vect on the dyadic slice.  An integer variable is scaled only *)
(* when the flag is on (DesignSpace._add_norm_policy); then every integer    *)
(* component is rounded to a nearest integer (ties: either neighbour).       *)
Image(c, j, fl) == IF c.int /\ ~fl THEN j * S ELSE c.lb * G + j * (c.ub - c.lb)
RoundOK(y, x) == x % U = 0 /\ 2 * Abs(x - y) <= U
CellOK(c, j, x, fl) == IF c.int THEN RoundOK(Image(c, j, fl), x) ELSE x = Image(c, j, fl)
RoundTo(y, up) == LET q == y \div U
                      r == y % U
                  IN  IF 2 * r < U THEN q * U
                      ELSE IF 2 * r > U THEN (q + 1) * U
                      ELSE IF up THEN (q + 1) * U ELSE q * U
CellVal(c, j, fl, up) == IF c.int THEN RoundTo(Image(c, j, fl), up) ELSE Image(c, j, fl)

UnitCube(u) == \A r \in 1..Len(u) : \A k \in 1..Len(u[r]) : 0 <= u[r][k] /\ u[r][k] <= G
Shape(m, rows, cols) == Len(m) = rows /\ \A r \in 1..rows : Len(m[r]) = cols
SamplesOK(space, u, X, fl) ==
  /\ Shape(X, Len(u), Len(space))
  /\ \A r \in 1..Len(u) : \A k \in 1..Len(space) : CellOK(space[k], u[r][k], X[r][k], fl)
InBoundsCell(c, x) == c.lb * G <= x /\ x <= c.ub * G
IntegralCell(c, x) == c.int => x % U = 0

----------------------------------------------------------------------------
(* STRUCTURE of the designs whose unit samples are built or rescaled by      *)
(* gemseo's own wrapper code (not by the opaque library), for unit samples  *)
(* on the grid:                                                             *)
(*  diag      DiagonalDOE: column k is linspace(0, 1, n) or its reverse      *)
(*  fullfact  levels j/(L-1) (0.5 when L = 1), all L^d combinations          *)
(*  axial / factorial / composite with n_samples: centre 0.5, levels k/L of  *)
(*            the half-range, level 1 on the faces of the cube               *)
(*            (base_ot_stratified_doe.py: centring + scaling)                *)
(*  ff2n, pb  two-level designs rescaled from {-1, 1} to {0, 1};             *)
(*  bb        three-level design rescaled to {0, 1/2, 1} (PyDOELibrary.__scale) *)
Off(v) == Abs(2 * v - G)                       \* twice the distance to the centre of the cube
OnLevel(v, L) == \E m \in 0..L : Off(v) * L = G * m
RowsDistinct(u) == \A r1, r2 \in 1..Len(u) : r1 # r2 => u[r1] # u[r2]
Cells(u) == {<<r, k>> : r \in 1..Len(u), k \in 1..(IF Len(u) = 0 THEN 0 ELSE Len(u[1]))}
DiagOK(u, n) ==
  \A k \in 1..(IF Len(u) = 0 THEN 0 ELSE Len(u[1])) :
     \/ \A r \in 1..Len(u) : u[r][k] * (n - 1) = (r - 1) * G
     \/ \A r \in 1..Len(u) : u[r][k] * (n - 1) = (n - r) * G
FullFactOK(u, L) ==
  /\ \A c \in Cells(u) : IF L = 1 THEN 2 * u[c[1]][c[2]] = G ELSE (u[c[1]][c[2]] * (L - 1)) % G = 0
  /\ RowsDistinct(u)
NOff(row) == Cardinality({k \in 1..Len(row) : Off(row[k]) # 0})
SameOff(row) == \A k1, k2 \in 1..Len(row) : Off(row[k1]) = Off(row[k2])
StratOK(f, u, L) ==
  /\ \A c \in Cells(u) : OnLevel(u[c[1]][c[2]], L)
  /\ \E c \in Cells(u) : Off(u[c[1]][c[2]]) = G
  /\ \E r \in 1..Len(u) : NOff(u[r]) = 0
  /\ \A r \in 1..Len(u) :
       LET row == u[r]
       IN  CASE f = "axial"     -> NOff(row) <= 1
             [] f = "factorial" -> NOff(row) = 0 \/ (NOff(row) = Len(row) /\ SameOff(row))
             [] OTHER           -> NOff(row) <= 1 \/ (NOff(row) = Len(row) /\ SameOff(row))
  /\ (f # "composite" \/ Len(u[1]) >= 2 => RowsDistinct(u))     \* (composite, d = 1: axial = factorial points)
ValuesIn(u, vals) == \A c \in Cells(u) : u[c[1]][c[2]] \in vals
StructureOK(f, n, d, p, u) ==
  CASE f = "diag"     -> DiagOK(u, n)
    [] f = "fullfact" -> FullFactOK(u, Levels(f, n, d, p))
    [] f \in {"axial", "factorial", "composite"} -> StratOK(f, u, Levels(f, n, d, p))
    [] f = "ff2n"     -> ValuesIn(u, {0, G}) /\ RowsDistinct(u)
    [] f = "pb"       -> ValuesIn(u, {0, G})
    [] f = "bb"       -> ValuesIn(u, {0, G \div 2, G})
    [] OTHER          -> TRUE

\* distinct elements in order of first occurrence (no recursion: designs of a few hundred rows)
FirstOcc(s) == {i \in 1..Len(s) : \A j \in 1..(i - 1) : s[j] # s[i]}
Dedup(s) == LET first == FirstOcc(s)
            IN  [m \in 1..Cardinality(first) |-> s[CHOOSE i \in first : Cardinality({j \in first : j <= i}) = m]]

SeedUsed(seeded, seed, d0) == IF seeded THEN seed ELSE d0 + 1     \* Seeder.get_seed

----------------------------------------------------------------------------
NoCall == [inst |-> CHOOSE i \in Insts : TRUE, api |-> "compute", fam |-> "exact", n |-> 0, p |-> 0,
           seeded |-> FALSE, seed |-> 0, inj |-> FALSE, saved |-> FALSE, d0 |-> 0,
           calls |-> 0, used |-> 0, cnt |-> 0, opq |-> FALSE, unit |-> <<>>, utok |-> <<>>,
           x |-> <<>>, xtok |-> <<>>, keys |-> <<>>, ok |-> FALSE]

Init == /\ dflt = [i \in Insts |-> 0]
        /\ flag \in BOOLEAN
        /\ sp \in {SpaceOf(i) : i \in SpaceIds}
        /\ pc = "idle"
        /\ cur = NoCall
        /\ memo = <<>>
        /\ ncalls = 0

Key(c) == <<c.fam, c.n, c.p, IF c.calls >= 1 THEN c.used ELSE 0>>

NewCall(i, api, f, n, p, sd, s, inj) ==
  [NoCall EXCEPT !.inst = i, !.api = api, !.fam = f, !.n = n, !.p = p, !.seeded = sd,
                 !.seed = IF sd THEN s ELSE 0, !.inj = inj, !.saved = flag, !.d0 = dflt[i]]

Begin(i, api, f, n, p, sd, s, inj) ==
  /\ pc \in {"idle", "done"}
  /\ (api = "execute" => ~ExecRefuses(f, n, Dim, p))
  /\ cur' = NewCall(i, api, f, n, p, sd, s, inj)
  /\ flag' = TRUE
  /\ pc' = "begun"
  /\ ncalls' = ncalls + 1
  /\ UNCHANGED <<dflt, sp, memo>>

\* execute(): invalid settings / too small a dimension are refused before the design space is touched
Refuse(i, api, f, n, p, sd, s) ==
  /\ pc \in {"idle", "done"}
  /\ api = "execute" /\ (ExecRefuses(f, n, Dim, p) \/ MayReject(f, p))
  /\ cur' = NewCall(i, api, f, n, p, sd, s, FALSE)
  /\ pc' = "done"
  /\ ncalls' = ncalls + 1
  /\ UNCHANGED <<dflt, flag, sp, memo>>

\* compute_doe(): the settings are validated after the flag has been switched on
EarlyReject ==
  /\ pc = "begun" /\ (~SettingsValid(cur.fam, cur.n, cur.p) \/ MayReject(cur.fam, cur.p))
  /\ pc' = "failed"
  /\ UNCHANGED <<dflt, flag, sp, cur, memo, ncalls>>

SeederStep(calls) ==
  LET used == IF calls >= 1 THEN SeedUsed(cur.seeded, cur.seed, cur.d0) ELSE 0
  IN  [cur EXCEPT !.calls = calls, !.used = used]

\* opq: the unit samples are not on the grid (real runs only): u = <<>>, uTok identifies them
Sample(calls, cnt, u, uTok, opq) ==
  /\ pc = "begun"
  /\ SettingsValid(cur.fam, cur.n, cur.p) /\ Accepts(cur.fam, cur.n, Dim, cur.p) /\ ~cur.inj
  /\ calls \in {0, 1}
  /\ CountOK(cur.fam, cur.n, Dim, cur.p, cnt)
  \* ("= TRUE": evaluated as a state function; TLC would otherwise unfold the large quantifiers of an
  \*  action conjunct recursively)
  /\ (IF opq THEN u = <<>>
      ELSE (Shape(u, cnt, Dim) /\ UnitCube(u) /\ StructureOK(cur.fam, cur.n, Dim, cur.p, u))) = TRUE
  /\ LET c2 == [SeederStep(calls) EXCEPT !.cnt = cnt, !.unit = u, !.utok = uTok, !.opq = opq]
     IN  /\ (Key(c2) \in DOMAIN memo => memo[Key(c2)].u = uTok)     \* the sampler is a function
         /\ cur' = c2
  /\ dflt' = [dflt EXCEPT ![cur.inst] = @ + calls]
  /\ pc' = "sampled"
  /\ UNCHANGED <<flag, sp, memo, ncalls>>

SampleFail(calls) ==
  /\ pc = "begun"
  /\ SettingsValid(cur.fam, cur.n, cur.p)
  /\ (~Accepts(cur.fam, cur.n, Dim, cur.p) \/ cur.inj)
  /\ calls \in {0, 1}
  /\ cur' = SeederStep(calls)
  /\ dflt' = [dflt EXCEPT ![cur.inst] = @ + calls]
  /\ pc' = "failed"
  /\ UNCHANGED <<flag, sp, memo, ncalls>>

Finish(X, xTok) ==
  /\ pc = "sampled"
  /\ (IF cur.opq THEN X = <<>> ELSE SamplesOK(sp, cur.unit, X, flag)) = TRUE
  /\ (Key(cur) \in DOMAIN memo => memo[Key(cur)].x = xTok)
  /\ memo' = IF Key(cur) \in DOMAIN memo THEN memo
             ELSE memo @@ (Key(cur) :> [u |-> cur.utok, x |-> xTok])
  /\ cur' = [cur EXCEPT !.x = X, !.xtok = xTok, !.ok = TRUE,
                        !.keys = IF cur.api = "execute" THEN Dedup(X) ELSE <<>>]
  /\ flag' = cur.saved
  /\ pc' = "done"
  /\ UNCHANGED <<dflt, sp, ncalls>>

Raise ==
  /\ pc = "failed"
  /\ flag' = cur.saved
  /\ pc' = "done"
  /\ UNCHANGED <<dflt, sp, cur, memo, ncalls>>

\* ---- the bounded model: every choice ranges over the constants
UnitMatrices(cnt) == IF UnitMode = "all" THEN [1..cnt -> [1..Dim -> GridVals]]
                     ELSE {[r \in 1..cnt |-> [k \in 1..Dim |-> g]] : g \in GridVals}
Rounded(u, up) == [r \in 1..Len(u) |-> [k \in 1..Dim |-> CellVal(sp[k], u[r][k], flag, up)]]
MaxCount == 70

\* the results of a call are observed in "done"; Return forgets them (Begin overwrites cur anyway)
Return == pc = "done" /\ pc' = "idle" /\ cur' = NoCall /\ UNCHANGED <<dflt, flag, sp, memo, ncalls>>

Choices(f, n, p, sd, s) ==
  /\ (f \in NFams \/ n = 0)
  /\ (f \in PFams \/ p = 0)
  /\ (sd \/ s = CHOOSE s0 \in Seeds : TRUE)
\* (the state tests come before the quantifiers: TLC does not hoist them)
DoBegin == /\ pc = "idle" /\ ncalls < MaxCalls
           /\ \E f \in Fams, n \in Ns, p \in Ps, sd \in BOOLEAN, s \in Seeds :
                /\ Choices(f, n, p, sd, s)
                /\ \E i \in Insts, api \in Apis, inj \in Injects : Begin(i, api, f, n, p, sd, s, inj)
DoRefuse == /\ pc = "idle" /\ ncalls < MaxCalls
            /\ \E f \in Fams, n \in Ns, p \in Ps, sd \in BOOLEAN, s \in Seeds :
                 /\ Choices(f, n, p, sd, s)
                 /\ \E i \in Insts, api \in Apis : Refuse(i, api, f, n, p, sd, s)
DoSample == /\ pc = "begun"
            /\ \E cnt \in 1..MaxCount :
                 /\ CountOK(cur.fam, cur.n, Dim, cur.p, cnt)
                 /\ \E calls \in {0, 1}, u \in UnitMatrices(cnt) : Sample(calls, cnt, u, u, FALSE)
DoSampleFail == pc = "begun" /\ \E calls \in {0, 1} : SampleFail(calls)
DoFinish == pc = "sampled" /\ \E up \in BOOLEAN : LET X == Rounded(cur.unit, up) IN Finish(X, X)

Next == DoBegin \/ DoRefuse \/ EarlyReject \/ DoSample \/ DoSampleFail \/ DoFinish \/ Raise \/ Return

Spec == Init /\ [][Next]_vars

----------------------------------------------------------------------------
(* The clauses of C14 (state invariants).                                   *)
Done == pc = "done"
DoneOK == pc = "done" /\ cur.ok

FlagDuring == pc \in {"begun", "sampled", "failed"} => flag
IntNormRestored == Done => flag = cur.saved
InBounds == DoneOK => \A r \in 1..Len(cur.x) : \A k \in 1..Dim : InBoundsCell(sp[k], cur.x[r][k])
Integral == DoneOK => \A r \in 1..Len(cur.x) : \A k \in 1..Dim : IntegralCell(sp[k], cur.x[r][k])
\* variable order = design-space order; samples = design-space image of the unit samples
ImageOfUnit == DoneOK => SamplesOK(sp, cur.unit, cur.x, TRUE)
CountRule == DoneOK => /\ Len(cur.x) = cur.cnt
                       /\ CountOK(cur.fam, cur.n, Dim, cur.p, cur.cnt)
                       /\ (cur.fam \in NFams /\ cur.fam # "sobolidx" => cur.cnt <= cur.n)
                       /\ cur.cnt >= 1
RejectRule == Done /\ ~cur.ok => \/ ~SettingsValid(cur.fam, cur.n, cur.p)
                                 \/ ~Accepts(cur.fam, cur.n, Dim, cur.p)
                                 \/ MayReject(cur.fam, cur.p)
                                 \/ cur.inj
SeedRule == pc \in {"sampled", "failed", "done"} =>
              /\ dflt[cur.inst] = cur.d0 + cur.calls
              /\ (cur.calls = 1 => cur.used = IF cur.seeded THEN cur.seed ELSE cur.d0 + 1)
\* equal (family, n, settings, seed used) => equal unit samples and samples, whatever the
\* instance and its seeder history
Structure == DoneOK /\ ~cur.opq => StructureOK(cur.fam, cur.n, Dim, cur.p, cur.unit)
Deterministic == DoneOK => /\ Key(cur) \in DOMAIN memo
                           /\ memo[Key(cur)].u = cur.utok
                           /\ memo[Key(cur)].x = cur.xtok
DbOrder == DoneOK /\ cur.api = "execute" => cur.keys = Dedup(cur.x)

(* Lemmas on the count rules over all families, n and d (checked by TLC in   *)
(* the configuration that enumerates one call per instance (f, n, p)).      *)
CountLemma ==
  pc = "begun" /\ SettingsValid(cur.fam, cur.n, cur.p) /\ Accepts(cur.fam, cur.n, Dim, cur.p) /\ cur.fam # "atmost" =>
    LET f == cur.fam
        n == cur.n
        d == Dim
        c == CountOf(f, n, d, cur.p)
        L == Levels(f, n, d, cur.p)
    IN  /\ c >= 1
        /\ (f \in NFams /\ f # "sobolidx" => c <= n)
        \* maximality: one more level would exceed n
        /\ (f = "fullfact" => Pow(L + 1, d) > n)
        /\ (f = "axial" => 1 + 2 * d * (L + 1) > n)
        /\ (f = "factorial" => 1 + Pow(2, d) * (L + 1) > n)
        /\ (f = "composite" => 1 + (L + 1) * (2 * d + Pow(2, d)) > n)
        /\ (f = "morris" => (L + 1) * (d + 1) > n)
\* Not part of C14's quantifier; TLC refutes it for d = 1 with second-order indices (n = 3 gives 4)
SobolIdxAtMostRequested ==
  pc = "begun" /\ cur.fam = "sobolidx" /\ Accepts(cur.fam, cur.n, Dim, cur.p) => CountOf(cur.fam, cur.n, Dim, cur.p) <= cur.n

Bound == ncalls <= MaxCalls
================================================================================
