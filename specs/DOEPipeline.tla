------------------------------ MODULE DOEPipeline ------------------------------
(***************************************************************************)
(* C14 - the DOE pipeline of gemseo AROUND the opaque samplers             *)
(* (algos/doe/base_doe_library.py, utils/seeder.py, the wrappers under     *)
(* algos/doe/{scipy,openturns,pydoe,diagonal_doe,morris_doe,custom_doe}).  *)
(*                                                                         *)
(* A call compute_doe(space, ...) / execute(problem, ...) of a library     *)
(* instance is, as in the code, a sequence of observable steps:            *)
(*   Begin      remember the design space's integer-normalisation flag,    *)
(*              switch it on (integer variables are then scaled like the   *)
(*              others by untransform_vect)                                *)
(*   Refuse     execute() validates the settings and the algorithm's       *)
(*              minimum dimension BEFORE anything else                     *)
(*   EarlyReject compute_doe() validates the settings after Begin          *)
(*   Sample     Seeder.get_seed (default seed += 1 on EVERY consultation;  *)
(*              a given seed wins) then the OPAQUE sampler: any matrix of  *)
(*              cnt x d points of the unit cube on the grid j/G, where cnt *)
(*              obeys the COUNT RULE of the algorithm family; the sampler  *)
(*              is a function of (family, n, settings p, seed used)        *)
(*              -- variable memo, filled lazily: TLC thereby quantifies    *)
(*              over every sampler that satisfies assumption UnitCube      *)
(*   SampleFail the family rejects (n, d) (level rule L < 1, ...) or the   *)
(*              sampler raises                                             *)
(*   Finish     samples = round(untransform(unit samples)), flag restored  *)
(*   Raise      the exception leaves the call: flag restored as well       *)
(*                                                                         *)
(* Numbers: bounds are multiples of 1/S (scaled integers lb, ub), unit     *)
(* values are j/G (integer j), sample values are integers in units 1/(S*G):*)
(* on this dyadic slice the IEEE arithmetic of untransform_vect is exact.  *)
(*                                                                         *)
(* For the designs that gemseo's own wrapper code builds or rescales       *)
(* (diagonal, full factorial, axial/factorial/composite, 2- and 3-level    *)
(* pyDOE designs) the unit samples are not opaque: StructureOK.            *)
(*                                                                         *)
(* The actions carry their nondeterministic choices as parameters so that  *)
(* DOETrace.tla re-uses them with the values logged from real runs.        *)
(*                                                                         *)
(* VARIABLE ORDER.  A design space is a sequence of COMPONENTS; each       *)
(* component names the variable it belongs to (field var), the components  *)
(* of a variable are contiguous: the sequence IS the design space's        *)
(* variable order (order of add_variable, kept by rename / remove / filter *)
(* / filter_dimensions: Prep).  Whatever the user hands over BY NAME or BY *)
(* COMPONENT (user-supplied designs in their four input forms, the         *)
(* reversed variables of the diagonal design, per-direction levels of a    *)
(* full factorial, per-direction centres of the stratified designs, the    *)
(* initial point of the one-at-a-time design) is given a MEANING in terms  *)
(* of (variable name, offset) - record aux of the call - and the result    *)
(* is stated against that meaning: clauses VariableOrder and Structure.    *)
(* The input form and the key order of the user's mappings are parameters  *)
(* of the call that the result does not depend on (PresentationNeutral,    *)
(* and Deterministic: the memo key holds the meaning, not the form).       *)
(***************************************************************************)
EXTENDS Integers, Sequences, FiniteSets, TLC

CONSTANTS G,          \* unit grid denominator
          S,          \* bound scale denominator
          SpaceIds,   \* indices in Catalogue of the design spaces of this run (one per behaviour)
          Insts,      \* library instances (one Seeder each)
          Apis,       \* subset of {"compute", "execute"}
          Fams,       \* algorithm families explored
          Ns,         \* requested numbers of samples explored
          Ps,         \* values of the extra integer setting explored
          Seeds,      \* explicit seeds explored
          GridVals,   \* unit grid indices the opaque sampler may return
          Injects,    \* subset of BOOLEAN: may the sampler raise by itself
          UnitMode,   \* "all": every matrix over GridVals; "const": all cells equal (large counts);
                      \* "rows": every row constant
          UxMode,     \* "plain": default user-level structure only; "rich": input forms, key orders,
                      \*          per-variable / per-component settings are enumerated
          Forms,      \* input forms of a user-supplied design: subset of {"array", "rows", "cols", "file"}
          MaxCalls    \* length of the call histories

VARIABLES dflt,   \* dflt[i]: Seeder.default_seed of library instance i
          flag,   \* design_space.enable_integer_variables_normalization
          sp,     \* the design space: sequence of [lb, ub, int]  (constant in a behaviour)
          pc,     \* "idle" | "begun" | "sampled" | "failed" | "done"
          cur,    \* the call in progress / the last call with its results
          memo,   \* the opaque sampler, as far as it has been consulted
          ncalls
vars == <<dflt, flag, sp, pc, cur, memo, ncalls>>

U == S * G      \* sample values are integers in units 1/U
Abs(a) == IF a < 0 THEN -a ELSE a
RECURSIVE Pow(_, _)
Pow(b, e) == IF e = 0 THEN 1 ELSE b * Pow(b, e - 1)
\* integer d-th root by search in exact integer arithmetic: the largest L with L^d <= n.
\* Doubling finds hi with hi^d > n, then bisection keeps lo^d <= n < hi^d
\* (hi^d <= 2^d * n stays below 2^31 for the n and d explored).
RECURSIVE Above(_, _, _), Bisect(_, _, _, _)
Above(n, d, h) == IF Pow(h, d) > n THEN h ELSE Above(n, d, 2 * h)
Bisect(n, d, lo, hi) == IF hi - lo <= 1 THEN lo
                        ELSE LET mid == (lo + hi) \div 2
                             IN  IF Pow(mid, d) <= n THEN Bisect(n, d, mid, hi) ELSE Bisect(n, d, lo, mid)
IRoot(n, d) == IF n < 1 THEN 0 ELSE IF d = 1 THEN n ELSE Bisect(n, d, 1, Above(n, d, 2))

----------------------------------------------------------------------------
(* Design spaces (S = 8): asymmetric dyadic bounds, mixed float / integer.  *)
(* Variables of sizes 1-2, added in a NON-alphabetical order.               *)
F(v, l, u) == [var |-> v, lb |-> l, ub |-> u, int |-> FALSE]
I(v, l, u) == [var |-> v, lb |-> l, ub |-> u, int |-> TRUE]
Catalogue == <<
  << F("x", -24, -8) >>,                                              \* 1: x in [-3, -1]
  << I("k", 16, 56) >>,                                               \* 2: k in {2..7}
  << F("y", 4, 6), I("k", 16, 56) >>,                                 \* 3: y, k
  << I("n", -8, 16), F("a", -24, -8) >>,                              \* 4: n, a
  << F("z", -24, -8), F("z", 8, 72), I("k", 16, 56) >>,               \* 5: z (size 2), k
  << F("y", -24, -8), I("n", -8, 16), F("b", 4, 6), F("b", 8, 72) >>  \* 6: y, n, b (size 2)
>>
\* SpaceIds above 100: the unit space [0,1]^d with d = id - 100 (large dimensions, count rules): ONE
\* variable "x" of size d - the space compute_doe builds when it is given a dimension instead of a space
UnitSpace(d) == [k \in 1..d |-> F("x", 0, S)]
SpaceOf(i) == IF i > 100 THEN UnitSpace(i - 100) ELSE Catalogue[i]

\* ---- layout: variables, their component indices, slices
KeepIdx(s, K) == [m \in 1..Cardinality(K) |-> s[CHOOSE k \in K : Cardinality({j \in K : j <= k}) = m]]
VarSet(space) == {space[k].var : k \in 1..Len(space)}
VarSeq(space) == LET first == {k \in 1..Len(space) : \A j \in 1..(k - 1) : space[j].var # space[k].var}
                 IN  [m \in 1..Cardinality(first) |-> KeepIdx(space, first)[m].var]
Idx(space, v) == LET K == {k \in 1..Len(space) : space[k].var = v}
                 IN  [m \in 1..Cardinality(K) |-> CHOOSE k \in K : Cardinality({j \in K : j <= k}) = m]
OffIn(space, k) == Cardinality({j \in 1..k : space[j].var = space[k].var})
Slice(row, ix) == [m \in 1..Len(ix) |-> row[ix[m]]]
WellFormed(space) == /\ \A i, j, k \in 1..Len(space) : i < j /\ j < k /\ space[i].var = space[k].var => space[j].var = space[i].var
                     /\ \A i, j \in 1..Len(space) : space[i].var = space[j].var => space[i].int = space[j].int

\* ---- the design space was PREPARED by DesignSpace operations before the DOE runs (semantics of C02,
\*      DesignSpace.tla): every one of them keeps the relative order of what it keeps
NoOp == [op |-> "none", name |-> "", new |-> "", names |-> <<>>, dims |-> <<>>]
Range(q) == {q[i] : i \in DOMAIN q}
PrepOne(space, o) ==
  CASE o.op = "rename" -> [k \in 1..Len(space) |-> IF space[k].var = o.name THEN [space[k] EXCEPT !.var = o.new] ELSE space[k]]   \* in place
    [] o.op = "remove" -> KeepIdx(space, {k \in 1..Len(space) : space[k].var # o.name})
    [] o.op = "keep"   -> KeepIdx(space, {k \in 1..Len(space) : space[k].var \in Range(o.names)})     \* filter(names)
    [] o.op = "dims"   -> KeepIdx(space, {k \in 1..Len(space) : space[k].var = o.name => (OffIn(space, k) - 1) \in Range(o.dims)})  \* filter_dimensions
    [] OTHER           -> space
RECURSIVE PrepAll(_, _)
PrepAll(space, ops) == IF ops = <<>> THEN space ELSE PrepAll(PrepOne(space, Head(ops)), Tail(ops))
Dim == Len(sp)

----------------------------------------------------------------------------
(* The COUNT RULE per algorithm family, from the wrappers' code and docs.   *)
(*  n : n_samples (0 for the families that take none)                       *)
(*  p : the one extra integer setting that matters for the size             *)
(*      (bb: centre points, cc: sum of the two centre counts,               *)
(*       sobolidx: 1 iff eval_second_order, custom: number of rows given,   *)
(*       morris / oat: 1 iff the relative step exceeds 1/2)                 *)
NFams == {"exact", "exact2", "atmost", "diag", "fullfact", "axial", "factorial",
          "composite", "morris", "sobolidx"}
\* "...L": the same designs parameterised by per-direction levels / centres instead of n_samples
LFams == {"fullfactL", "axialL", "factorialL", "compositeL"}
ZFams == {"bb", "cc", "ff2n", "pb", "custom", "oat"} \cup LFams
AllFams == NFams \cup ZFams
PFams == {"bb", "cc", "sobolidx", "custom", "morris", "oat"}     \* families with an extra setting p
\* families named by the quantifier of C14 ("designed to fill the domain")
QFams == {"exact", "exact2", "diag", "fullfact", "axial", "factorial", "composite",
          "morris", "custom"} \cup LFams

MinN(f) == IF f \in {"diag", "exact2"} THEN 2 ELSE 1     \* pydantic: ge=2
\* custom: CustomDOE_Settings refuses an empty `samples`
SettingsValid(f, n, p) == IF f \in NFams THEN n >= MinN(f) ELSE (n = 0 /\ (f = "custom" => p >= 1))

Levels(f, n, d, p) ==
  CASE f = "fullfact"  -> IRoot(n, d)                                \* base_full_factorial_doe.py
    [] f = "axial"     -> (n - 1) \div (2 * d)                       \* ot_axial_doe.py
    [] f = "factorial" -> (n - 1) \div Pow(2, d)                     \* ot_factorial_doe.py
    [] f = "composite" -> (n - 1) \div (2 * d + Pow(2, d))           \* ot_composite_doe.py
    [] f = "morris"    -> n \div (d + 1)                             \* morris_doe.py
    [] f = "sobolidx"  -> n \div (IF p = 1 /\ d > 2 THEN 2 * d + 2 ELSE d + 2)  \* ot_sobol_doe.py
    [] OTHER           -> 1

\* does the sampler accept (n, d)?  (otherwise it raises: SampleFail)
Accepts(f, n, d, p) ==
  CASE f \in {"axial", "factorial", "composite", "morris", "sobolidx"} -> Levels(f, n, d, p) >= 1
    [] f = "bb" -> d >= 3          \* pyDOE3: "Number of variables must be at least 3"
    [] f = "cc" -> d >= 2
    [] OTHER    -> TRUE

\* A one-at-a-time step larger than half the range cannot be honoured inside the bounds (from x in
\* ]1-step, step[ both x+step and x-step leave the cube): such a setting MAY be rejected; if it is
\* accepted the samples must still be in the cube.
MayReject(f, p) == f \in {"morris", "oat"} /\ p = 1

\* execute() refuses before touching the design space: invalid settings (pydantic), or a design space
\* smaller than the algorithm's documented minimum_dimension (PYDOE_BBDESIGN 3, PYDOE_CCDESIGN 2)
ExecRefuses(f, n, d, p) == ~SettingsValid(f, n, p) \/ (f \in {"bb", "cc"} /\ ~Accepts(f, n, d, p))

CountOf(f, n, d, p) ==
  LET L == Levels(f, n, d, p) IN
  CASE f \in {"exact", "exact2", "diag"} -> n
    [] f = "fullfact"  -> Pow(L, d)
    [] f = "axial"     -> 1 + 2 * d * L
    [] f = "factorial" -> 1 + Pow(2, d) * L
    [] f = "composite" -> 1 + L * (2 * d + Pow(2, d))
    [] f = "morris"    -> L * (d + 1)
    [] f = "sobolidx"  -> L * (IF p = 1 /\ d # 2 THEN 2 * d + 2 ELSE d + 2)  \* size documented by OpenTURNS
    [] f = "bb"        -> 2 * d * (d - 1) + p        \* d in 3..5
    [] f = "cc"        -> Pow(2, d) + 2 * d + p
    [] f = "ff2n"      -> Pow(2, d)
    [] f = "pb"        -> 4 * ((d \div 4) + 1)       \* smallest multiple of 4 > d
    [] f = "custom"    -> p
    [] f = "oat"       -> d + 1
    [] OTHER           -> 0

\* "atmost": Poisson disk sampling stops when the disk packing is saturated
CountOK(f, n, d, p, cnt) == IF f = "atmost" THEN (1 <= cnt /\ cnt <= n) ELSE cnt = CountOf(f, n, d, p)

----------------------------------------------------------------------------
(* untransform_vect on the dyadic slice.  An integer variable is scaled only *)
(* when the flag is on (DesignSpace._add_norm_policy); then every integer    *)
(* component is rounded to a nearest integer (ties: either neighbour).       *)
Image(c, j, fl) == IF c.int /\ ~fl THEN j * S ELSE c.lb * G + j * (c.ub - c.lb)
RoundOK(y, x) == x % U = 0 /\ 2 * Abs(x - y) <= U
CellOK(c, j, x, fl) == IF c.int THEN RoundOK(Image(c, j, fl), x) ELSE x = Image(c, j, fl)
RoundTo(y, up) == LET q == y \div U
                      r == y % U
                  IN  IF 2 * r < U THEN q * U
                      ELSE IF 2 * r > U THEN (q + 1) * U
                      ELSE IF up THEN (q + 1) * U ELSE q * U
CellVal(c, j, fl, up) == IF c.int THEN RoundTo(Image(c, j, fl), up) ELSE Image(c, j, fl)

UnitCube(u) == \A r \in 1..Len(u) : \A k \in 1..Len(u[r]) : 0 <= u[r][k] /\ u[r][k] <= G
Shape(m, rows, cols) == Len(m) = rows /\ \A r \in 1..rows : Len(m[r]) = cols
SamplesOK(space, u, X, fl) ==
  /\ Shape(X, Len(u), Len(space))
  /\ \A r \in 1..Len(u) : \A k \in 1..Len(space) : CellOK(space[k], u[r][k], X[r][k], fl)
InBoundsCell(c, x) == c.lb * G <= x /\ x <= c.ub * G
IntegralCell(c, x) == c.int => x % U = 0

----------------------------------------------------------------------------
(* USER-PROVIDED STRUCTURE.  ux: what the user literally passes; aux: what  *)
(* it MEANS on the design space (by variable name and offset / by           *)
(* component of the design-space order).                                    *)
(*  custom  form "array" | "file": pres = matrix, columns in the design-    *)
(*                 space order (file: delimiter / skiprows / comment lines  *)
(*                 coded by fopt, which the result does not depend on);     *)
(*          form "rows": pres = one mapping per sample, as a sequence of    *)
(*                 <<name, components>> pairs IN THE USER'S KEY ORDER;      *)
(*          form "cols": pres = one mapping, as a sequence of               *)
(*                 <<name, 2-D array>> pairs in the user's key order.       *)
(*          Values are integers in units 1/(S*G).  perm: the key order.     *)
(*  diag    sel: the `reverse` setting, strings that are either a variable  *)
(*          name (all its components) or the decimal 0-based index of a     *)
(*          component of the design space                                   *)
(*  fullfactL  pv: levels per direction (or one level for all: scal)        *)
(*  axialL / factorialL / compositeL  pv: centres per direction in units    *)
(*          1/G (or one for all: scal), lv: levels <<a, b>> = a/b in ]0, 1] *)
(*  oat     pv: the initial point, per component, in units 1/G              *)
NoUx == [form |-> "none", perm |-> <<>>, fopt |-> 0, pres |-> <<>>, sel |-> <<>>, pv |-> <<>>,
         scal |-> FALSE, lv |-> <<>>]
NoAux == [tab |-> <<>>, rev |-> {}, pv |-> <<>>, lv |-> {}]
PVFams == LFams \cup {"oat"}
StratL == {"axialL", "factorialL", "compositeL"}
BaseFam(f) == CASE f = "axialL" -> "axial" [] f = "factorialL" -> "factorial" [] f = "compositeL" -> "composite" [] OTHER -> f

Lookup(pairs, v) == pairs[CHOOSE i \in 1..Len(pairs) : pairs[i][1] = v][2]
\* the named-column table a presentation denotes: row r, variable v |-> the components given for (r, v)
TableOf(space, form, pres) ==
  CASE form \in {"array", "file"} -> [r \in 1..Len(pres) |-> [v \in VarSet(space) |-> Slice(pres[r], Idx(space, v))]]
    [] form = "rows"             -> [r \in 1..Len(pres) |-> [v \in VarSet(space) |-> Lookup(pres[r], v)]]
    [] form = "cols"             -> [r \in 1..Len(pres[1][2]) |-> [v \in VarSet(space) |-> Lookup(pres, v)[r]]]
    [] OTHER                     -> <<>>
\* ... and the presentation of a table in a form, with the keys in order perm (a permutation of the names)
Presented(space, tab, form, perm) ==
  CASE form \in {"array", "file"} -> [r \in 1..Len(tab) |-> [k \in 1..Len(space) |-> tab[r][space[k].var][OffIn(space, k)]]]
    [] form = "rows"             -> [r \in 1..Len(tab) |-> [i \in 1..Len(perm) |-> <<perm[i], tab[r][perm[i]]>>]]
    [] form = "cols"             -> [i \in 1..Len(perm) |-> <<perm[i], [r \in 1..Len(tab) |-> tab[r][perm[i]]]>>]
    [] OTHER                     -> <<>>
IdxStr == <<"0", "1", "2", "3", "4", "5", "6", "7", "8", "9", "10", "11", "12", "13">>
RevComps(space, sel) ==
  {k \in 1..Len(space) : \E i \in 1..Len(sel) : sel[i] = space[k].var \/ (k <= Len(IdxStr) /\ sel[i] = IdxStr[k])}
Expand(pv, scal, d) == IF scal THEN [k \in 1..d |-> pv[1]] ELSE pv
AuxOf(space, f, ux) ==
  [tab |-> IF f = "custom" THEN TableOf(space, ux.form, ux.pres) ELSE <<>>,
   rev |-> IF f = "diag" THEN RevComps(space, ux.sel) ELSE {},
   pv  |-> IF f \in PVFams THEN Expand(ux.pv, ux.scal, Len(space)) ELSE <<>>,
   lv  |-> IF f \in StratL THEN Range(ux.lv) ELSE {}]
\* well-formed user structure (the harness and the bounded model only produce such)
AuxValid(space, f, p, a) ==
  CASE f = "custom"    -> Len(a.tab) = p /\ p >= 1
    [] f = "fullfactL" -> Len(a.pv) = Len(space) /\ \A k \in 1..Len(a.pv) : a.pv[k] >= 1
    [] f \in StratL    -> /\ Len(a.pv) = Len(space) /\ \A k \in 1..Len(a.pv) : 0 < a.pv[k] /\ a.pv[k] < G
                          /\ a.lv # {} /\ \A l \in a.lv : 0 < l[1] /\ l[1] <= l[2]
    [] f = "oat"       -> Len(a.pv) = Len(space) /\ \A k \in 1..Len(a.pv) : 0 <= a.pv[k] /\ a.pv[k] <= G
    [] OTHER           -> TRUE
RECURSIVE Prod(_)
Prod(q) == IF q = <<>> THEN 1 ELSE Head(q) * Prod(Tail(q))
\* the count rule of a call c (family, n, p and the meaning aux of its user structure) in dimension d
CountOfC(c, d) ==
  CASE c.fam = "fullfactL"  -> Prod(c.aux.pv)                                         \* product of the levels
    [] c.fam = "axialL"     -> 1 + 2 * d * Cardinality(c.aux.lv)
    [] c.fam = "factorialL" -> 1 + Pow(2, d) * Cardinality(c.aux.lv)
    [] c.fam = "compositeL" -> 1 + Cardinality(c.aux.lv) * (2 * d + Pow(2, d))
    [] OTHER                -> CountOf(c.fam, c.n, d, c.p)
CountOKC(c, d, cnt) == IF c.fam = "atmost" THEN (1 <= cnt /\ cnt <= c.n) ELSE cnt = CountOfC(c, d)

----------------------------------------------------------------------------
(* STRUCTURE of the designs whose unit samples are built or rescaled by      *)
(* gemseo's own wrapper code (not by the opaque library), for unit samples  *)
(* on the grid:                                                             *)
(*  diag      DiagonalDOE: column k is linspace(0, 1, n) or its reverse      *)
(*  fullfact  levels j/(L-1) (0.5 when L = 1), all L^d combinations          *)
(*  axial / factorial / composite with n_samples: centre 0.5, levels k/L of  *)
(*            the half-range, level 1 on the faces of the cube               *)
(*            (base_ot_stratified_doe.py: centring + scaling)                *)
(*  ff2n, pb  two-level designs rescaled from {-1, 1} to {0, 1};             *)
(*  bb        three-level design rescaled to {0, 1/2, 1} (PyDOELibrary.__scale) *)
\* (with per-direction user structure: against its meaning aux, see above)
RowsDistinct(u) == \A r1, r2 \in 1..Len(u) : r1 # r2 => u[r1] # u[r2]
NCols(u) == IF Len(u) = 0 THEN 0 ELSE Len(u[1])
Cells(u) == {<<r, k>> : r \in 1..Len(u), k \in 1..NCols(u)}
\* column k runs from 0 to 1, or from 1 to 0 iff the user reversed component k
DiagOK(u, n, rev) ==
  \A k \in 1..NCols(u) :
     IF k \in rev THEN \A r \in 1..Len(u) : u[r][k] * (n - 1) = (n - r) * G
     ELSE \A r \in 1..Len(u) : u[r][k] * (n - 1) = (r - 1) * G
\* full factorial with lev[k] levels in direction k
FullFactLOK(u, lev) ==
  /\ \A c \in Cells(u) : IF lev[c[2]] = 1 THEN 2 * u[c[1]][c[2]] = G ELSE (u[c[1]][c[2]] * (lev[c[2]] - 1)) % G = 0
  /\ RowsDistinct(u)
FullFactOK(u, L) == FullFactLOK(u, [k \in 1..NCols(u) |-> L])
\* stratified designs around the centre ce (per direction, units 1/G) with the level set lv (<<a, b>> = a/b):
\* a component at level l sits at ce + l (1 - ce) or ce - l ce
LevelsAt(v, c, lv) == {l \in lv : \/ (v > c /\ (v - c) * l[2] = l[1] * (G - c))
                                  \/ (v < c /\ (c - v) * l[2] = l[1] * c)}
OffC(row, ce) == {k \in 1..Len(row) : row[k] # ce[k]}
StratRowOK(f, row, ce, lv) ==
  LET off == OffC(row, ce)
      one == Cardinality(off) <= 1 /\ \A k \in off : LevelsAt(row[k], ce[k], lv) # {}
      all == off = 1..Len(row) /\ \E l \in lv : \A k \in off : l \in LevelsAt(row[k], ce[k], lv)
  IN  CASE f = "axial"     -> one
        [] f = "factorial" -> off = {} \/ all
        [] OTHER           -> one \/ all
StratOKC(f, u, ce, lv) ==
  /\ \A r \in 1..Len(u) : StratRowOK(f, u[r], ce, lv)
  /\ \A l \in lv : \E c \in Cells(u) : l \in LevelsAt(u[c[1]][c[2]], ce[c[2]], lv)      \* every level is used
  /\ \E r \in 1..Len(u) : OffC(u[r], ce) = {}                                           \* the centre is a point
  /\ (f # "composite" \/ NCols(u) >= 2 => RowsDistinct(u))     \* (composite, d = 1: axial = factorial points)
\* with n_samples: centre of the cube, L equispaced levels k/L (level 1 on the faces)
StratOK(f, u, L) == StratOKC(f, u, [k \in 1..NCols(u) |-> G \div 2], {<<m, L>> : m \in 1..L})
\* user-supplied design: the unit samples are the design-space pre-image of the table, BY NAME
CustomUnitOK(space, tab, u) ==
  /\ Shape(u, Len(tab), Len(space))
  /\ \A r \in 1..Len(tab) : \A k \in 1..Len(space) :
        Image(space[k], u[r][k], TRUE) = tab[r][space[k].var][OffIn(space, k)]
\* one-at-a-time: starts at the initial point, row r+1 moves component r only
OatOK(u, init) ==
  /\ Len(u) = Len(init) + 1 /\ u[1] = init
  /\ \A r \in 1..Len(init) : \A k \in 1..Len(init) : (u[r + 1][k] = u[r][k]) <=> (k # r)
ValuesIn(u, vals) == \A c \in Cells(u) : u[c[1]][c[2]] \in vals
StructureOK(f, n, d, p, u) ==
  CASE f = "fullfact" -> FullFactOK(u, Levels(f, n, d, p))
    [] f \in {"axial", "factorial", "composite"} -> StratOK(f, u, Levels(f, n, d, p))
    [] f = "ff2n"     -> ValuesIn(u, {0, G}) /\ RowsDistinct(u)
    [] f = "pb"       -> ValuesIn(u, {0, G})
    [] f = "bb"       -> ValuesIn(u, {0, G \div 2, G})
    [] OTHER          -> TRUE
\* ... of a call c on the design space `space`
StructureOKC(space, c, u) ==
  CASE c.fam = "custom"    -> CustomUnitOK(space, c.aux.tab, u)
    [] c.fam = "diag"      -> DiagOK(u, c.n, c.aux.rev)
    [] c.fam = "fullfactL" -> FullFactLOK(u, c.aux.pv)
    [] c.fam \in StratL    -> StratOKC(BaseFam(c.fam), u, c.aux.pv, c.aux.lv)
    [] c.fam = "oat"       -> OatOK(u, c.aux.pv)
    [] OTHER               -> StructureOK(c.fam, c.n, Len(space), c.p, u)

\* distinct elements in order of first occurrence (no recursion: designs of a few hundred rows)
FirstOcc(s) == {i \in 1..Len(s) : \A j \in 1..(i - 1) : s[j] # s[i]}
Dedup(s) == LET first == FirstOcc(s)
            IN  [m \in 1..Cardinality(first) |-> s[CHOOSE i \in first : Cardinality({j \in first : j <= i}) = m]]

SeedUsed(seeded, seed, d0) == IF seeded THEN seed ELSE d0 + 1     \* Seeder.get_seed

----------------------------------------------------------------------------
NoCall == [inst |-> CHOOSE i \in Insts : TRUE, api |-> "compute", fam |-> "exact", n |-> 0, p |-> 0,
           ux |-> NoUx, aux |-> NoAux,
           seeded |-> FALSE, seed |-> 0, inj |-> FALSE, saved |-> FALSE, d0 |-> 0,
           calls |-> 0, used |-> 0, cnt |-> 0, opq |-> FALSE, unit |-> <<>>, utok |-> <<>>,
           x |-> <<>>, xtok |-> <<>>, keys |-> <<>>, ok |-> FALSE]

Init == /\ dflt = [i \in Insts |-> 0]
        /\ flag \in BOOLEAN
        /\ sp \in {SpaceOf(i) : i \in SpaceIds}
        /\ pc = "idle"
        /\ cur = NoCall
        /\ memo = <<>>
        /\ ncalls = 0

\* the sampler is a function of (family, n, settings, MEANING of the user structure, seed used): the input
\* form and the key order of a user-supplied design are not part of the key
Key(c) == <<c.fam, c.n, c.p, IF c.calls >= 1 THEN c.used ELSE 0, c.aux>>

NewCall(i, api, f, n, p, sd, s, inj, ux) ==
  [NoCall EXCEPT !.inst = i, !.api = api, !.fam = f, !.n = n, !.p = p, !.seeded = sd,
                 !.seed = IF sd THEN s ELSE 0, !.inj = inj, !.saved = flag, !.d0 = dflt[i],
                 !.ux = ux, !.aux = AuxOf(sp, f, ux)]

Begin(i, api, f, n, p, sd, s, inj, ux) ==
  /\ pc \in {"idle", "done"}
  /\ (api = "execute" => ~ExecRefuses(f, n, Dim, p))
  /\ cur' = NewCall(i, api, f, n, p, sd, s, inj, ux)
  /\ flag' = TRUE
  /\ pc' = "begun"
  /\ ncalls' = ncalls + 1
  /\ UNCHANGED <<dflt, sp, memo>>

\* execute(): invalid settings / too small a dimension are refused before the design space is touched
Refuse(i, api, f, n, p, sd, s, ux) ==
  /\ pc \in {"idle", "done"}
  /\ api = "execute" /\ (ExecRefuses(f, n, Dim, p) \/ MayReject(f, p))
  /\ cur' = NewCall(i, api, f, n, p, sd, s, FALSE, ux)
  /\ pc' = "done"
  /\ ncalls' = ncalls + 1
  /\ UNCHANGED <<dflt, flag, sp, memo>>

\* compute_doe(): the settings are validated after the flag has been switched on
EarlyReject ==
  /\ pc = "begun" /\ (~SettingsValid(cur.fam, cur.n, cur.p) \/ MayReject(cur.fam, cur.p))
  /\ pc' = "failed"
  /\ UNCHANGED <<dflt, flag, sp, cur, memo, ncalls>>

SeederStep(calls) ==
  LET used == IF calls >= 1 THEN SeedUsed(cur.seeded, cur.seed, cur.d0) ELSE 0
  IN  [cur EXCEPT !.calls = calls, !.used = used]

\* opq: the unit samples are not on the grid (real runs only): u = <<>>, uTok identifies them
Sample(calls, cnt, u, uTok, opq) ==
  /\ pc = "begun"
  /\ SettingsValid(cur.fam, cur.n, cur.p) /\ Accepts(cur.fam, cur.n, Dim, cur.p) /\ ~cur.inj
  /\ AuxValid(sp, cur.fam, cur.p, cur.aux)
  /\ calls \in {0, 1}
  /\ CountOKC(cur, Dim, cnt)
  \* ("= TRUE": evaluated as a state function; TLC would otherwise unfold the large quantifiers of an
  \*  action conjunct recursively)
  /\ (IF opq THEN u = <<>>
      ELSE (Shape(u, cnt, Dim) /\ UnitCube(u) /\ StructureOKC(sp, cur, u))) = TRUE
  /\ LET c2 == [SeederStep(calls) EXCEPT !.cnt = cnt, !.unit = u, !.utok = uTok, !.opq = opq]
     IN  /\ (Key(c2) \in DOMAIN memo => memo[Key(c2)].u = uTok)     \* the sampler is a function
         /\ cur' = c2
  /\ dflt' = [dflt EXCEPT ![cur.inst] = @ + calls]
  /\ pc' = "sampled"
  /\ UNCHANGED <<flag, sp, memo, ncalls>>

SampleFail(calls) ==
  /\ pc = "begun"
  /\ SettingsValid(cur.fam, cur.n, cur.p)
  /\ (~Accepts(cur.fam, cur.n, Dim, cur.p) \/ cur.inj)
  /\ calls \in {0, 1}
  /\ cur' = SeederStep(calls)
  /\ dflt' = [dflt EXCEPT ![cur.inst] = @ + calls]
  /\ pc' = "failed"
  /\ UNCHANGED <<flag, sp, memo, ncalls>>

Finish(X, xTok) ==
  /\ pc = "sampled"
  /\ (IF cur.opq THEN X = <<>> ELSE SamplesOK(sp, cur.unit, X, flag)) = TRUE
  /\ (Key(cur) \in DOMAIN memo => memo[Key(cur)].x = xTok)
  /\ memo' = IF Key(cur) \in DOMAIN memo THEN memo
             ELSE memo @@ (Key(cur) :> [u |-> cur.utok, x |-> xTok])
  /\ cur' = [cur EXCEPT !.x = X, !.xtok = xTok, !.ok = TRUE,
                        !.keys = IF cur.api = "execute" THEN Dedup(X) ELSE <<>>]
  /\ flag' = cur.saved
  /\ pc' = "done"
  /\ UNCHANGED <<dflt, sp, ncalls>>

Raise ==
  /\ pc = "failed"
  /\ flag' = cur.saved
  /\ pc' = "done"
  /\ UNCHANGED <<dflt, sp, cur, memo, ncalls>>

\* ---- the bounded model: every choice ranges over the constants
UnitMatrices(cnt) == IF UnitMode = "all" THEN [1..cnt -> [1..Dim -> GridVals]]
                     ELSE IF UnitMode = "rows" THEN {[r \in 1..cnt |-> [k \in 1..Dim |-> g[r]]] : g \in [1..cnt -> GridVals]}
                     ELSE {[r \in 1..cnt |-> [k \in 1..Dim |-> g]] : g \in GridVals}
Rounded(u, up) == [r \in 1..Len(u) |-> [k \in 1..Dim |-> CellVal(sp[k], u[r][k], flag, up)]]
MaxCount == 70

\* the results of a call are observed in "done"; Return forgets them (Begin overwrites cur anyway)
Return == pc = "done" /\ pc' = "idle" /\ cur' = NoCall /\ UNCHANGED <<dflt, flag, sp, memo, ncalls>>

Choices(f, n, p, sd, s) ==
  /\ (f \in NFams \/ n = 0)
  /\ (f \in PFams \/ p = 0)
  /\ (sd \/ s = CHOOSE s0 \in Seeds : TRUE)

\* ---- the user-provided structure the bounded model enumerates (UxMode = "rich") or fixes ("plain")
\* tables of a user-supplied design: images of unit matrices (an integer component whose image is not an
\* integer is given at its lower bound), so that the given values are on the grid, in bounds and integral
ExactCell(c, j) == IF c.int /\ Image(c, j, TRUE) % U # 0 THEN 0 ELSE j
TableOfUnit(u) == [r \in 1..Len(u) |-> [v \in VarSet(sp) |->
                     [m \in 1..Len(Idx(sp, v)) |-> LET k == Idx(sp, v)[m] IN Image(sp[k], ExactCell(sp[k], u[r][k]), TRUE)]]]
CustomTables(p) == {TableOfUnit(u) : u \in UnitMatrices(p)}
PermSeqs(Q) == {q \in [1..Cardinality(Q) -> Q] : \A i, j \in DOMAIN q : i # j => q[i] # q[j]}
Rich == UxMode = "rich"
CustomUx(p) ==
  {[NoUx EXCEPT !.form = fp[1], !.perm = fp[2], !.fopt = fp[3], !.pres = Presented(sp, tab, fp[1], fp[2])] :
     tab \in CustomTables(p),
     fp \in {<<fm, pm, fo>> \in (IF Rich THEN Forms ELSE {"array"}) \X PermSeqs(VarSet(sp)) \X (0..5) :
              /\ (fm \in {"array", "file"} => pm = VarSeq(sp))      \* positional forms have no key order
              /\ (fm # "file" => fo = 0)}}
SelChoices == IF Rich THEN {<<>>, <<sp[1].var>>, <<IdxStr[Dim]>>, <<sp[Dim].var, IdxStr[1]>>} ELSE {<<>>}
LevelVals == {2, 3}
CentreVals == {G \div 4, (3 * G) \div 4}
LvChoices == {<< <<1, 1>> >>, << <<1, 2>>, <<1, 1>> >>}
Scalars(Q) == {[NoUx EXCEPT !.pv = <<q>>, !.scal = TRUE] : q \in Q}
UserExtras(f, p) ==
  CASE f = "custom"    -> IF p >= 1 THEN CustomUx(p) ELSE {NoUx}
    [] f = "diag"      -> {[NoUx EXCEPT !.sel = q] : q \in SelChoices}
    [] f = "fullfactL" -> IF Rich THEN {[NoUx EXCEPT !.pv = q] : q \in [1..Dim -> LevelVals]} \cup Scalars(LevelVals)
                          ELSE Scalars({2})
    [] f \in StratL    -> IF Rich THEN {[x EXCEPT !.lv = l] :
                                           x \in {[NoUx EXCEPT !.pv = q] : q \in [1..Dim -> CentreVals]} \cup Scalars(CentreVals),
                                           l \in LvChoices}
                          ELSE {[x EXCEPT !.lv = << <<1, 1>> >>] : x \in Scalars({G \div 2})}
    [] f = "oat"       -> {[NoUx EXCEPT !.pv = [k \in 1..Dim |-> IF Rich THEN ((4 - ((k - 1) % 4)) * G) \div 8 ELSE G \div 2]]}
    [] OTHER           -> {NoUx}
\* (the state tests come before the quantifiers: TLC does not hoist them)
DoBegin == /\ pc = "idle" /\ ncalls < MaxCalls
           /\ \E f \in Fams, n \in Ns, p \in Ps, sd \in BOOLEAN, s \in Seeds :
                /\ Choices(f, n, p, sd, s)
                /\ \E i \in Insts, api \in Apis, inj \in Injects, ux \in UserExtras(f, p) :
                     Begin(i, api, f, n, p, sd, s, inj, ux)
DoRefuse == /\ pc = "idle" /\ ncalls < MaxCalls
            /\ \E f \in Fams, n \in Ns, p \in Ps, sd \in BOOLEAN, s \in Seeds :
                 /\ Choices(f, n, p, sd, s)
                 /\ \E i \in Insts, api \in Apis, ux \in UserExtras(f, p) : Refuse(i, api, f, n, p, sd, s, ux)
\* the unit pre-image of a user-supplied table (Sample's guard CustomUnitOK demands that the division is exact)
UnitOfTable(tab) == [r \in 1..Len(tab) |-> [k \in 1..Dim |->
                       (tab[r][sp[k].var][OffIn(sp, k)] - sp[k].lb * G) \div (sp[k].ub - sp[k].lb)]]
DoSample == /\ pc = "begun"
            /\ \E cnt \in 1..MaxCount :
                 /\ CountOKC(cur, Dim, cnt)
                 /\ \E calls \in {0, 1}, u \in (IF cur.fam = "custom" THEN {UnitOfTable(cur.aux.tab)} ELSE UnitMatrices(cnt)) :
                      Sample(calls, cnt, u, u, FALSE)
DoSampleFail == pc = "begun" /\ \E calls \in {0, 1} : SampleFail(calls)
DoFinish == pc = "sampled" /\ \E up \in BOOLEAN : LET X == Rounded(cur.unit, up) IN Finish(X, X)

Next == DoBegin \/ DoRefuse \/ EarlyReject \/ DoSample \/ DoSampleFail \/ DoFinish \/ Raise \/ Return

Spec == Init /\ [][Next]_vars

----------------------------------------------------------------------------
(* The clauses of C14 (state invariants).                                   *)
Done == pc = "done"
DoneOK == pc = "done" /\ cur.ok

FlagDuring == pc \in {"begun", "sampled", "failed"} => flag
IntNormRestored == Done => flag = cur.saved
InBounds == DoneOK => \A r \in 1..Len(cur.x) : \A k \in 1..Dim : InBoundsCell(sp[k], cur.x[r][k])
Integral == DoneOK => \A r \in 1..Len(cur.x) : \A k \in 1..Dim : IntegralCell(sp[k], cur.x[r][k])
\* variable order = design-space order; samples = design-space image of the unit samples
ImageOfUnit == DoneOK => SamplesOK(sp, cur.unit, cur.x, TRUE)
CountRule == DoneOK => /\ Len(cur.x) = cur.cnt
                       /\ CountOKC(cur, Dim, cur.cnt)
                       /\ (cur.fam \in NFams /\ cur.fam # "sobolidx" => cur.cnt <= cur.n)
                       /\ cur.cnt >= 1
RejectRule == Done /\ ~cur.ok => \/ ~SettingsValid(cur.fam, cur.n, cur.p)
                                 \/ ~Accepts(cur.fam, cur.n, Dim, cur.p)
                                 \/ MayReject(cur.fam, cur.p)
                                 \/ cur.inj
SeedRule == pc \in {"sampled", "failed", "done"} =>
              /\ dflt[cur.inst] = cur.d0 + cur.calls
              /\ (cur.calls = 1 => cur.used = IF cur.seeded THEN cur.seed ELSE cur.d0 + 1)
\* equal (family, n, settings, seed used) => equal unit samples and samples, whatever the
\* instance and its seeder history
Structure == DoneOK /\ ~cur.opq => StructureOKC(sp, cur, cur.unit)
\* "expressed in the design space's variable order": the components of sample r at the index range of
\* variable v are the values the user gave for (r, v), BY NAME, wherever v sits in the user's mappings
VariableOrderOf(space, tab, X) ==
  /\ Shape(X, Len(tab), Len(space))
  /\ \A r \in 1..Len(tab) : \A v \in VarSet(space) : Slice(X[r], Idx(space, v)) = tab[r][v]
VariableOrder == DoneOK /\ cur.fam = "custom" => VariableOrderOf(sp, cur.aux.tab, cur.x)
\* the meaning of a presentation does not depend on the form or on the key order
PresentationNeutral ==
  pc = "idle" /\ "custom" \in Fams =>
    \A p \in {q \in Ps : 1 <= q /\ q <= 2} : \A tab \in CustomTables(p) : \A fm \in Forms : \A pm \in PermSeqs(VarSet(sp)) :
       TableOf(sp, fm, Presented(sp, tab, fm, pm)) = tab
SpaceWellFormed == WellFormed(sp)
Deterministic == DoneOK => /\ Key(cur) \in DOMAIN memo
                           /\ memo[Key(cur)].u = cur.utok
                           /\ memo[Key(cur)].x = cur.xtok
DbOrder == DoneOK /\ cur.api = "execute" => cur.keys = Dedup(cur.x)

(* Lemmas on the count rules over all families, n and d (checked by TLC in   *)
(* the configuration that enumerates one call per instance (f, n, p)).      *)
CountLemma ==
  pc = "begun" /\ SettingsValid(cur.fam, cur.n, cur.p) /\ Accepts(cur.fam, cur.n, Dim, cur.p) /\ cur.fam # "atmost"
     /\ cur.fam \notin LFams =>
    LET f == cur.fam
        n == cur.n
        d == Dim
        c == CountOf(f, n, d, cur.p)
        L == Levels(f, n, d, cur.p)
    IN  /\ c >= 1
        /\ (f \in NFams /\ f # "sobolidx" => c <= n)
        \* maximality: one more level would exceed n
        /\ (f = "fullfact" => Pow(L + 1, d) > n)
        /\ (f = "axial" => 1 + 2 * d * (L + 1) > n)
        /\ (f = "factorial" => 1 + Pow(2, d) * (L + 1) > n)
        /\ (f = "composite" => 1 + (L + 1) * (2 * d + Pow(2, d)) > n)
        /\ (f = "morris" => (L + 1) * (d + 1) > n)
\* Not part of C14's quantifier; TLC refutes it for d = 1 with second-order indices (n = 3 gives 4)
SobolIdxAtMostRequested ==
  pc = "begun" /\ cur.fam = "sobolidx" /\ Accepts(cur.fam, cur.n, Dim, cur.p) => CountOf(cur.fam, cur.n, Dim, cur.p) <= cur.n

Bound == ncalls <= MaxCalls
================================================================================
