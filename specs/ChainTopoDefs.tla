--------------------------- MODULE ChainTopoDefs ---------------------------
(* Pure definitions on a process topology                                   *)
(*   t = [n |-> N, ins |-> [1..N -> SUBSET Var], outs |-> [1..N -> SUBSET Var]]*)
(* (disciplines in listing = execution order, variables are integers).       *)
(* Used by ChainTopo (enumeration of the topologies) and ChainRule (the      *)
(* semantics); the class labels drive the stratified sampling and identify   *)
(* the failing class in violation signatures.                                *)
EXTENDS Integers, Sequences, FiniteSets

TD(t) == 1..t.n
TVars(t) == UNION {t.ins[d] \cup t.outs[d] : d \in TD(t)}
\* inputs of the sequential chain: read before any earlier discipline produced them (chain.py:102-111)
TChainIn(t)  == UNION {t.ins[k] \ UNION {t.outs[j] : j \in 1..(k - 1)} : k \in TD(t)}
TChainOut(t) == UNION {t.outs[k] : k \in TD(t)}
Prod(t, v) == {d \in TD(t) : v \in t.outs[d]}
Cons(t, v) == {d \in TD(t) : v \in t.ins[d]}
\* number of definitions of the name v along the chain: its producers, plus the chain input of that name
NDefs(t, v) == Cardinality(Prod(t, v)) + (IF v \in TChainIn(t) THEN 1 ELSE 0)
\* the name-based coupling graph of DependencyGraph.__create_graph
TEdge(t, u, v) == u # v /\ t.outs[u] \cap t.ins[v] # {}

\* a name with two definitions
Overwritten(t) == \E v \in TVars(t) : NDefs(t, v) >= 2
\* ... one of which is read: a discipline reads v after it was (re)defined by another one than the first
\* definition, or a later discipline redefines a name that an earlier one read
OverwrittenConsumed(t) == \E v \in TVars(t) : NDefs(t, v) >= 2 /\ Cons(t, v) # {}
InputIsOutput(t) == TChainIn(t) \cap TChainOut(t) # {}
FanIn(t)  == \E d \in TD(t) : Cardinality(t.ins[d]) >= 2
FanOut(t) == \E v \in TVars(t) : Cardinality(Cons(t, v)) >= 2
MultiOut(t) == \E d \in TD(t) : Cardinality(t.outs[d]) >= 2
Isolated(t) == t.n >= 2 /\ \E d \in TD(t) : \A u \in TD(t) : (~TEdge(t, u, d) /\ ~TEdge(t, d, u))
\* a chain input that is read by a discipline which also reads the output of an earlier discipline
PassThrough(t) == \E v \in TChainIn(t) : \E d \in Cons(t, v) : \E u \in TD(t) : (u < d /\ TEdge(t, u, d))

\* variables a variable depends on, by names (reflexive)
DepStep(t, S) == S \cup UNION {t.ins[d] : d \in {e \in TD(t) : t.outs[e] \cap S # {}}}
RECURSIVE DepIter(_, _, _)
DepIter(t, S, k) == IF k = 0 THEN S ELSE DepIter(t, DepStep(t, S), k - 1)
Anc(t, v) == DepIter(t, {v}, t.n)
\* two different inputs of one discipline share an ancestor: two paths to re-join
Diamond(t) == \E d \in TD(t) : \E a, b \in t.ins[d] : (a # b /\ Anc(t, a) \cap Anc(t, b) # {})

RECURSIVE ReachIter(_, _, _)
ReachIter(t, S, k) == IF k = 0 THEN S
                      ELSE ReachIter(t, S \cup {v \in TD(t) : \E u \in S : TEdge(t, u, v)}, k - 1)
TReach(t, s) == ReachIter(t, {s}, t.n)          \* reflexive-transitive
NameCyclic(t) == \E u, v \in TD(t) : (TEdge(t, u, v) /\ u \in TReach(t, v))

Classes(t) ==
    (IF Diamond(t) THEN {"diamond"} ELSE {}) \cup
    (IF FanIn(t) THEN {"fan_in"} ELSE {}) \cup
    (IF FanOut(t) THEN {"fan_out"} ELSE {}) \cup
    (IF MultiOut(t) THEN {"multi_out"} ELSE {}) \cup
    (IF PassThrough(t) THEN {"pass_through"} ELSE {}) \cup
    (IF Isolated(t) THEN {"isolated"} ELSE {}) \cup
    (IF Overwritten(t) THEN {"overwritten"} ELSE {}) \cup
    (IF OverwrittenConsumed(t) THEN {"overwritten_consumed"} ELSE {}) \cup
    (IF InputIsOutput(t) THEN {"input_is_output"} ELSE {}) \cup
    (IF NameCyclic(t) THEN {"name_cyclic"} ELSE {})
=============================================================================
