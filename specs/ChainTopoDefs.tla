--------------------------- MODULE ChainTopoDefs ---------------------------
(* Pure definitions on a process topology                                   *)
(*   t = [n |-> N, ins |-> [1..N -> SUBSET Var], outs |-> [1..N -> SUBSET Var]]*)
(* (disciplines in listing = execution order, variables are integers).       *)
(* Used by ChainTopo (enumeration of the topologies) and ChainRule (the      *)
(* semantics); the class labels drive the stratified sampling and identify   *)
(* the failing class in violation signatures.                                *)
EXTENDS Integers, Sequences, FiniteSets

TD(t) == 1..t.n
TVars(t) == UNION {t.ins[d] \cup t.outs[d] : d \in TD(t)}
\* inputs of the sequential chain: read before any earlier discipline produced them (chain.py:102-111)
TChainIn(t)  == UNION {t.ins[k] \ UNION {t.outs[j] : j \in 1..(k - 1)} : k \in TD(t)}
TChainOut(t) == UNION {t.outs[k] : k \in TD(t)}
Prod(t, v) == {d \in TD(t) : v \in t.outs[d]}
Cons(t, v) == {d \in TD(t) : v \in t.ins[d]}
\* number of definitions of the name v along the chain: its producers, plus the chain input of that name
NDefs(t, v) == Cardinality(Prod(t, v)) + (IF v \in TChainIn(t) THEN 1 ELSE 0)
\* the name-based coupling graph of DependencyGraph.__create_graph
TEdge(t, u, v) == u # v /\ t.outs[u] \cap t.ins[v] # {}

\* a name with two definitions
Overwritten(t) == \E v \in TVars(t) : NDefs(t, v) >= 2
\* ... one of which is read: a discipline reads v after it was (re)defined by another one than the first
\* definition, or a later discipline redefines a name that an earlier one read
OverwrittenConsumed(t) == \E v \in TVars(t) : NDefs(t, v) >= 2 /\ Cons(t, v) # {}
InputIsOutput(t) == TChainIn(t) \cap TChainOut(t) # {}
FanIn(t)  == \E d \in TD(t) : Cardinality(t.ins[d]) >= 2
FanOut(t) == \E v \in TVars(t) : Cardinality(Cons(t, v)) >= 2
MultiOut(t) == \E d \in TD(t) : Cardinality(t.outs[d]) >= 2
Isolated(t) == t.n >= 2 /\ \E d \in TD(t) : \A u \in TD(t) : (~TEdge(t, u, d) /\ ~TEdge(t, d, u))
\* a chain input that is read by a discipline which also reads the output of an earlier discipline
PassThrough(t) == \E v \in TChainIn(t) : \E d \in Cons(t, v) : \E u \in TD(t) : (u < d /\ TEdge(t, u, d))

\* SELF-OVERWRITING members (state-update steps): a discipline that reads a name and writes a new value under
\* the same name, e.g. (pos, vel) -> (pos, vel).  In the sequential data flow it reads the OLD values and the
\* disciplines after it read the NEW ones: the name has one more version.
SelfOver(t, d) == t.ins[d] \cap t.outs[d]
SelfOverwriting(t) == \E d \in TD(t) : SelfOver(t, d) # {}
\* ... of two or more names at once (every new value depends on every old one: cross dependence)
SelfOverwritingMulti(t) == \E d \in TD(t) : Cardinality(SelfOver(t, d)) >= 2
\* ... the same name updated by two members (a step repeated in the chain)
SelfOverwritingRepeated(t) == \E d, e \in TD(t) : (d < e /\ SelfOver(t, d) \cap SelfOver(t, e) # {})
\* ... a later member that does not update the name itself reads the updated value
SelfOverwritingRead(t) == \E d, e \in TD(t) : (d < e /\ (SelfOver(t, d) \cap t.ins[e]) \ t.outs[e] # {})
\* ... two names updated by one member are both read by one later member (which may update them again): the
\* derivative of what that member computes w.r.t. each OLD value goes through both NEW values
SelfOverwritingCross(t) == \E d, e \in TD(t) : (d < e /\ Cardinality(SelfOver(t, d) \cap t.ins[e]) >= 2)
\* ... a pure state update: the member writes nothing else than names it reads
SelfOverwritingPure(t) == \E d \in TD(t) : t.outs[d] \subseteq t.ins[d]

\* variables a variable depends on, by names (reflexive)
DepStep(t, S) == S \cup UNION {t.ins[d] : d \in {e \in TD(t) : t.outs[e] \cap S # {}}}
RECURSIVE DepIter(_, _, _)
DepIter(t, S, k) == IF k = 0 THEN S ELSE DepIter(t, DepStep(t, S), k - 1)
Anc(t, v) == DepIter(t, {v}, t.n)
\* two different inputs of one discipline share an ancestor: two paths to re-join
Diamond(t) == \E d \in TD(t) : \E a, b \in t.ins[d] : (a # b /\ Anc(t, a) \cap Anc(t, b) # {})

\* a name v with two definitions, the second by the discipline e, read by a later discipline c, such that the
\* FIRST definition depends directly on a chain input x that nothing read by e depends on: the value c reads does
\* not depend on x although an earlier definition of the same name does (a request w.r.t. x alone does not
\* differentiate e)
Shadowed(t) == \E v \in TVars(t) : \E e \in Prod(t, v) : \E c \in Cons(t, v) : \E x \in TChainIn(t) :
                  /\ e < c
                  /\ x \notin UNION {Anc(t, i) : i \in t.ins[e]}
                  /\ (\/ (v \in TChainIn(t) /\ x = v)
                      \/ \E d \in Prod(t, v) : (d < e /\ x \in t.ins[d]))
\* members of a parallel / additive chain: an output with two producers d < e that share an input, and another
\* chain output that d does not produce (a wider request leaves d's own request unchanged)
AdditiveUneven(t) == \E v \in TVars(t) : \E d, e \in Prod(t, v) :
                        (d < e /\ t.ins[d] \cap t.ins[e] # {} /\ TChainOut(t) \ t.outs[d] # {})

RECURSIVE ReachIter(_, _, _)
ReachIter(t, S, k) == IF k = 0 THEN S
                      ELSE ReachIter(t, S \cup {v \in TD(t) : \E u \in S : TEdge(t, u, v)}, k - 1)
TReach(t, s) == ReachIter(t, {s}, t.n)          \* reflexive-transitive
NameCyclic(t) == \E u, v \in TD(t) : (TEdge(t, u, v) /\ u \in TReach(t, v))

Classes(t) ==
    (IF Diamond(t) THEN {"diamond"} ELSE {}) \cup
    (IF FanIn(t) THEN {"fan_in"} ELSE {}) \cup
    (IF FanOut(t) THEN {"fan_out"} ELSE {}) \cup
    (IF MultiOut(t) THEN {"multi_out"} ELSE {}) \cup
    (IF PassThrough(t) THEN {"pass_through"} ELSE {}) \cup
    (IF Isolated(t) THEN {"isolated"} ELSE {}) \cup
    (IF Overwritten(t) THEN {"overwritten"} ELSE {}) \cup
    (IF OverwrittenConsumed(t) THEN {"overwritten_consumed"} ELSE {}) \cup
    (IF InputIsOutput(t) THEN {"input_is_output"} ELSE {}) \cup
    (IF NameCyclic(t) THEN {"name_cyclic"} ELSE {}) \cup
    (IF Shadowed(t) THEN {"shadowed"} ELSE {}) \cup
    (IF AdditiveUneven(t) THEN {"additive_uneven"} ELSE {}) \cup
    (IF SelfOverwriting(t) THEN {"self_overwriting"} ELSE {}) \cup
    (IF SelfOverwritingMulti(t) THEN {"self_overwriting_multi"} ELSE {}) \cup
    (IF SelfOverwritingRepeated(t) THEN {"self_overwriting_repeated"} ELSE {}) \cup
    (IF SelfOverwritingRead(t) THEN {"self_overwriting_read"} ELSE {}) \cup
    (IF SelfOverwritingCross(t) THEN {"self_overwriting_cross"} ELSE {}) \cup
    (IF SelfOverwritingPure(t) THEN {"self_overwriting_pure"} ELSE {})
=============================================================================
